---------------------------- MODULE Electrolytes ----------------------------
(* Ionic strength, charge neutrality and the Debye-Hueckel family (property C18).             *)
(*                                                                                            *)
(* Part 1 - a register machine over ion lists.  An ion is a molality and a charge.  Molalities*)
(* are exact: a natural number of PICO-molal (10^-12 mol/kg) kept as BigNat limbs, so that    *)
(* m * 10^e with e in -12..0 is exact and sums over 12 decades do not round.  The machine     *)
(* first builds the list (AddIon), then applies history actions (Permute, Merge, ScaleAll),   *)
(* then finishes.  The DEFINITION                                                             *)
(*        I = 1/2 * sum b_i z_i^2          net = sum b_i z_i                                  *)
(* is evaluated on the current list (TwiceI, PosCharge, NegCharge) and compared on every      *)
(* state with a reference that is carried along the history by the LAW each action must obey  *)
(* (permutation and merging leave I and the net charge alone, scaling multiplies them):       *)
(* invariant Tracks.  The warning clause: a warning must be observed when the composition is  *)
(* clearly not neutral, must not be observed when it is exactly neutral; a guard band around  *)
(* the implementation's float tolerance (|net| <= 1e-14 * sum b z^2, electrolytes.py:83)      *)
(* is left undecided: 0 < |net| < 1e-12 * sum b z^2.                                          *)
(*                                                                                            *)
(* Part 2 - the Debye-Hueckel terms.  A, B, the limiting / extended / Davies log-gamma and    *)
(* the activity products are DEFINED here as term trees (module Terms) over named variables.  *)
(* A "DH point" binds the variables to small rationals.  Where the point makes the law        *)
(* rational (perfect-square ionic strength) TLC computes the exact value (EvalQR) and checks  *)
(* the structural facts on it: extended -> limiting when the ion-size term vanishes, zero at  *)
(* zero ionic strength, dependence on z only through z^2.  Elsewhere the instantiated term is *)
(* exported and evaluated by the generic interpreter harness/terms.py.                        *)
(*                                                                                            *)
(* Physical constants are pinned below (CODATA 2014 values, the vintage of the numeric        *)
(* constants in chempy/electrochemistry/nernst.py); the comparison tolerance carried in each  *)
(* case (ABRtol) covers other CODATA vintages (they differ by < 1e-6 relative).               *)
EXTENDS Integers, Sequences, FiniteSets, TLC, Json, Rational, BigNat, Terms

CONSTANTS
    IonChoices,    \* triples <<m, e, z>>: an added ion has molality m * 10^e mol/kg (m natural,
                   \* e in -12..0) and charge z in -4..4
    MaxIons,       \* maximal length of the ion list (0 switches part 1 off)
    MaxHist,       \* maximal number of history actions
    ScaleFactors,  \* small positive integers for ScaleAll
    DHPoints       \* set of DH point records (part 2); {} switches part 2 off

VARIABLES ions, ref, hist, stage, dh

vars == <<ions, ref, hist, stage, dh>>
NoDH == [kind |-> "none"]

------------------------------------------------------------------------------
(* part 1: exact ionic strength *)
Pico == 12                                   \* molalities are counted in 10^-12 mol/kg
Pow10Big(k) == BShift(BFromInt(IPow(10, k % 4)), k \div 4)            \* 10^k, k >= 0
Molality(m, e) == IF m = 0 THEN <<>> ELSE BMul(BFromInt(m), Pow10Big(Pico + e))

Ion(b, z) == [b |-> b, z |-> z]
BSumSeq(s) == LET RECURSIVE F(_)
                  F(i) == IF i > Len(s) THEN <<>> ELSE BAdd(s[i], F(i + 1))
              IN  F(1)
(* the definitions, on an ion list *)
TwiceI(l)    == BSumSeq([i \in 1..Len(l) |-> BMulSmall(l[i].b, l[i].z * l[i].z)])
PosCharge(l) == BSumSeq([i \in 1..Len(l) |-> IF l[i].z > 0 THEN BMulSmall(l[i].b, l[i].z) ELSE <<>>])
NegCharge(l) == BSumSeq([i \in 1..Len(l) |-> IF l[i].z < 0 THEN BMulSmall(l[i].b, -l[i].z) ELSE <<>>])
AbsNet(l)    == BAbsDiff(PosCharge(l), NegCharge(l))
NetSign(l)   == BCmp(PosCharge(l), NegCharge(l))
Neutral(l)   == AbsNet(l) = <<>>
(* guard band: |net| * 10^12 >= sum b z^2  <=>  clearly not neutral *)
ClearlyCharged(l) == AbsNet(l) # <<>> /\ BLe(TwiceI(l), BShift(AbsNet(l), 3))
WarnSpec(l) == IF Neutral(l) THEN "no" ELSE IF ClearlyCharged(l) THEN "yes" ELSE "either"

Init ==
    /\ ions = <<>> /\ hist = <<>> /\ stage = "build" /\ dh = NoDH
    /\ ref = [s2 |-> <<>>, pos |-> <<>>, neg |-> <<>>]

AddIon(m, e, z) ==
    /\ stage = "build" /\ dh = NoDH
    /\ m \in Nat /\ e \in -12..0 /\ z \in -4..4
    /\ LET b == Molality(m, e) IN
       /\ ions' = Append(ions, Ion(b, z))
       /\ ref' = [s2  |-> BAdd(ref.s2, BMulSmall(b, z * z)),
                  pos |-> IF z > 0 THEN BAdd(ref.pos, BMulSmall(b, z)) ELSE ref.pos,
                  neg |-> IF z < 0 THEN BAdd(ref.neg, BMulSmall(b, -z)) ELSE ref.neg]
    /\ UNCHANGED <<hist, stage, dh>>

(* an ion given directly in pico-molal limbs (trace validation of seeded inputs) *)
AddIonRaw(b, z) ==
    /\ stage = "build" /\ dh = NoDH /\ z \in -4..4
    /\ ions' = Append(ions, Ion(b, z))
    /\ ref' = [s2  |-> BAdd(ref.s2, BMulSmall(b, z * z)),
               pos |-> IF z > 0 THEN BAdd(ref.pos, BMulSmall(b, z)) ELSE ref.pos,
               neg |-> IF z < 0 THEN BAdd(ref.neg, BMulSmall(b, -z)) ELSE ref.neg]
    /\ UNCHANGED <<hist, stage, dh>>

Swap(l, i, j) == [l EXCEPT ![i] = l[j], ![j] = l[i]]
RemoveAt(l, j) == SubSeq(l, 1, j - 1) \o SubSeq(l, j + 1, Len(l))
HistOpen == stage \in {"build", "hist"} /\ ions # <<>> /\ dh = NoDH

(* exchanging two entries changes nothing *)
Permute(i, j) ==
    /\ HistOpen /\ i \in 1..Len(ions) /\ j \in 1..Len(ions) /\ i < j
    /\ ions' = Swap(ions, i, j)
    /\ hist' = Append(hist, [op |-> "permute", i |-> i, j |-> j])
    /\ stage' = "hist" /\ UNCHANGED <<ref, dh>>

(* two entries of the same charge are one entry with the summed molality *)
Merge(i, j) ==
    /\ HistOpen /\ i \in 1..Len(ions) /\ j \in 1..Len(ions) /\ i < j
    /\ ions[i].z = ions[j].z
    /\ ions' = RemoveAt([ions EXCEPT ![i] = Ion(BAdd(ions[i].b, ions[j].b), ions[i].z)], j)
    /\ hist' = Append(hist, [op |-> "merge", i |-> i, j |-> j])
    /\ stage' = "hist" /\ UNCHANGED <<ref, dh>>

(* multiplying every molality by k multiplies I and the net charge by k *)
ScaleAll(k) ==
    /\ HistOpen /\ k \in 1..100000
    /\ ions' = [i \in 1..Len(ions) |-> Ion(BMulSmall(ions[i].b, k), ions[i].z)]
    /\ ref' = [s2 |-> BMulSmall(ref.s2, k), pos |-> BMulSmall(ref.pos, k), neg |-> BMulSmall(ref.neg, k)]
    /\ hist' = Append(hist, [op |-> "scale", i |-> k, j |-> 0])
    /\ stage' = "hist" /\ UNCHANGED dh

Finish ==
    /\ stage \in {"build", "hist"} /\ ions # <<>> /\ dh = NoDH
    /\ stage' = "done" /\ UNCHANGED <<ions, ref, hist, dh>>

(* design-level invariants of part 1 *)
Tracks ==
    dh = NoDH => /\ TwiceI(ions) = ref.s2
                 /\ PosCharge(ions) = ref.pos
                 /\ NegCharge(ions) = ref.neg
(* exactly neutral compositions never need a warning, clearly charged ones always do, and the *)
(* two classes are disjoint; every composition falls in one of the three classes              *)
WarnClassesSound ==
    dh = NoDH => /\ ~(Neutral(ions) /\ ClearlyCharged(ions))
                 /\ (WarnSpec(ions) = "no") = (PosCharge(ions) = NegCharge(ions))
                 /\ (TwiceI(ions) = <<>> => Neutral(ions))
(* an ion list made of one (b, z) and one (b, -z) is neutral; scaling preserves the class "no" *)
TypeOK ==
    /\ stage \in {"build", "hist", "done"}
    /\ \A i \in 1..Len(ions) : ions[i].z \in -4..4

------------------------------------------------------------------------------
(* part 2: Debye-Hueckel laws as terms *)
vIS == TVar("IS")   vI0 == TVar("I0")   vz == TVar("z")   vA == TVar("A")
vB  == TVar("B")    va  == TVar("a")    vC == TVar("C")
vT  == TVar("T")    vEps == TVar("eps") vRho == TVar("rho")  vb0 == TVar("b0")

SqrtRel == TSqrt(TDiv(vIS, vI0))
Rel     == TDiv(vIS, vI0)
(* log gamma = -A z^2 sqrt(I/I0)                                                 (limiting) *)
LimTerm == TNeg(TProd(<<vA, TPowI(vz, 2), SqrtRel>>))
(* log gamma = -A z^2 sqrt(I/I0) / (1 + B a sqrt(I/I0)) + C I/I0                 (extended) *)
ExtTerm == TAdd(TDiv(TNeg(TProd(<<vA, TPowI(vz, 2), SqrtRel>>)),
                     TAdd(TC(1), TProd(<<vB, va, SqrtRel>>))),
                TMul(vC, Rel))
(* log gamma = -A z^2 (sqrt(I/I0) / (1 + sqrt(I/I0)) + C I/I0), C = -0.3           (Davies) *)
DavTerm == TNeg(TProd(<<vA, TPowI(vz, 2),
                        TAdd(TDiv(SqrtRel, TAdd(TC(1), SqrtRel)), TMul(vC, Rel))>>))
LogGammaTerm(kind) == CASE kind = "lim" -> LimTerm [] kind = "ext" -> ExtTerm [] kind = "dav" -> DavTerm

(* physical constants, SI, CODATA 2014 *)
cF    == TAdd(TC(96485), TQ(33289, 100000))                  \* 96485.33289 C/mol
cNA   == TAdd(TDec(60221, 19), TDec(40857, 14))              \* 6.022140857e23 1/mol
cEps0 == TAdd(TDec(88541, -16), TDec(87817, -21))            \* 8.854187817e-12 F/m
ckB   == TDec(138064852, -31)                                \* 1.38064852e-23 J/K
cPi   == TAdd(TDec(314159265, -8), TDec(358979, -14))        \* 3.14159265358979
cR    == TMul(ckB, cNA)
(* A = F^3 / (4 pi NA) * sqrt(rho b0 / (2 (eps0 eps_r kB NA T)^3))   (natural-log based)    *)
ATerm == TMul(TDiv(TPowI(cF, 3), TProd(<<TC(4), cPi, cNA>>)),
              TSqrt(TDiv(TMul(vRho, vb0),
                         TMul(TC(2), TPowI(TProd(<<cEps0, vEps, ckB, cNA, vT>>), 3)))))
(* B = F * sqrt(2 rho b0 / (eps_r eps0 R T))                                                *)
BTerm == TMul(cF, TSqrt(TDiv(TProd(<<TC(2), vRho, vb0>>), TProd(<<vEps, cEps0, cR, vT>>))))

(* the three laws with A (and B) computed from (T, eps, rho) at b0 = 1 mol/kg, I0 = 1 mol/kg *)
WithAB(t) == TSubstAll(t, [n \in {"A", "B", "I0"} |->
                 IF n = "A" THEN TSubst(ATerm, "b0", TC(1))
                 ELSE IF n = "B" THEN TSubst(BTerm, "b0", TC(1)) ELSE TC(1)])
(* activity product: exp(sum nu_i * log gamma_i), ions given as sequences nus, zs (rationals) and    *)
(* sizes (terms, metres)                                                                     *)
ProductTerm(kind, nus, zs, sizes) ==
    TExp(TSum([i \in 1..Len(nus) |->
        TMul(TConst(nus[i]),
             TSubstAll(WithAB(LogGammaTerm(kind)),
                       [n \in {"z", "a"} |-> IF n = "z" THEN TConst(zs[i]) ELSE sizes[i]]))]))

(* DH points.  kind in lim ext dav : fields IS I0 z A B a C (rationals)                      *)
(*            kind in A B         : fields T eps rho b0                                      *)
(*            kind in lap eap dap : fields IS T eps rho C nus zs pm (ion sizes, picometres)  *)
LawKinds == {"lim", "ext", "dav"}
ABKinds == {"A", "B"}
ProdKinds == {"lap", "eap", "dap"}
ProdLaw(kind) == CASE kind = "lap" -> "lim" [] kind = "eap" -> "ext" [] kind = "dap" -> "dav"

PointEnv(p) ==
    IF p.kind \in LawKinds
    THEN [n \in {"IS", "I0", "z", "A", "B", "a", "C"} |->
            CASE n = "IS" -> p.IS [] n = "I0" -> p.I0 [] n = "z" -> p.z [] n = "A" -> p.A
              [] n = "B" -> p.B [] n = "a" -> p.a [] n = "C" -> p.C]
    ELSE IF p.kind \in ABKinds
    THEN [n \in {"T", "eps", "rho", "b0"} |->
            CASE n = "T" -> p.T [] n = "eps" -> p.eps [] n = "rho" -> p.rho [] n = "b0" -> p.b0]
    ELSE [n \in {"IS", "T", "eps", "rho", "C"} |->
            CASE n = "IS" -> p.IS [] n = "T" -> p.T [] n = "eps" -> p.eps [] n = "rho" -> p.rho
              [] n = "C" -> p.C]

PointTerm(p) ==
    IF p.kind \in LawKinds THEN LogGammaTerm(p.kind)
    ELSE IF p.kind = "A" THEN ATerm
    ELSE IF p.kind = "B" THEN BTerm
    ELSE ProductTerm(ProdLaw(p.kind), p.nus, p.zs, [i \in 1..Len(p.pm) |-> TDec(p.pm[i], -12)])

(* A, B and the products contain square roots of the physical constants: never rational, so TLC  *)
(* does not walk those (large) terms - they are exported and evaluated numerically               *)
PointValue(p) == IF p.kind \in LawKinds THEN EvalQR(PointTerm(p), PointEnv(p)) ELSE RIrr

ChooseDH(p) ==
    /\ stage = "build" /\ ions = <<>> /\ dh = NoDH
    /\ dh' = p /\ stage' = "done"
    /\ UNCHANGED <<ions, ref, hist>>

(* structural facts, decided exactly by TLC wherever the point is rational *)
IsLaw == dh # NoDH /\ dh.kind \in LawKinds
ValAt(kind, env) == EvalQR(LogGammaTerm(kind), env)
With(env, name, q) == [env EXCEPT ![name] = q]

(* the extended law with a vanishing ion-size term (and C = 0) IS the limiting law *)
ExtendedReducesToLimiting ==
    IsLaw => LET e0 == With(With(PointEnv(dh), "a", QZero), "C", QZero)
                 x == ValAt("ext", e0)   l == ValAt("lim", e0)
             IN  /\ x.st = l.st
                 /\ (IsRQ(l) => x.q = l.q)
(* and the ion-size term only ever brings log gamma closer to zero *)
IonSizeDamps ==
    (IsLaw /\ QLe(QZero, dh.a) /\ QLe(QZero, dh.B)) =>
        LET e0 == With(PointEnv(dh), "C", QZero)
            x == ValAt("ext", e0)   l == ValAt("lim", e0)
        IN  (IsRQ(x) /\ IsRQ(l)) => (QLe(l.q, x.q) /\ QLe(x.q, QZero))
(* every law is exactly zero at zero ionic strength *)
ZeroAtZeroStrength ==
    IsLaw => \A k \in LawKinds :
        LET v == ValAt(k, With(PointEnv(dh), "IS", QZero)) IN IsRQ(v) /\ v.q = QZero
(* the charge enters only through z^2 *)
ChargeEntersSquared ==
    IsLaw => \A k \in LawKinds :
        LET e == PointEnv(dh)
            v  == ValAt(k, e)
            vm == ValAt(k, With(e, "z", QNeg(dh.z)))
            v1 == ValAt(k, With(With(e, "z", QOne), "C", IF k = "ext" THEN QZero ELSE dh.C))
            v0 == ValAt(k, With(e, "C", IF k = "ext" THEN QZero ELSE dh.C))
        IN  /\ vm = v
            /\ (IsRQ(v0) /\ IsRQ(v1)) => v0.q = QMul(QMul(dh.z, dh.z), v1.q)
(* an uncharged species feels no Coulomb term: limiting and Davies give exactly 0, the extended  *)
(* law keeps only its linear term C I / I0                                                      *)
NeutralSpecies ==
    (IsLaw /\ QIsSquare(Norm(QDiv(dh.IS, dh.I0)))) =>       \* where TLC can evaluate the square root
             LET e == With(PointEnv(dh), "z", QZero)
                 l == ValAt("lim", e)   d == ValAt("dav", e)   x == ValAt("ext", e)
             IN  /\ IsRQ(l) /\ l.q = QZero /\ IsRQ(d) /\ d.q = QZero
                 /\ IsRQ(x) /\ x.q = Norm(QMul(dh.C, QDiv(dh.IS, dh.I0)))
(* the extended law really depends on the ion-size parameter: for a charged species at I > 0    *)
(* (A, B > 0) a larger ion has a log gamma strictly closer to zero - two ions of equal charge      *)
(* and different size never share a coefficient                                                   *)
IonSizeMatters ==
    (IsLaw /\ dh.kind = "ext" /\ dh.z # QZero /\ QLt(QZero, dh.IS) /\ QLt(QZero, dh.A) /\ QLt(QZero, dh.B)) =>
        LET e == With(PointEnv(dh), "C", QZero)
            x1 == ValAt("ext", e)   x2 == ValAt("ext", With(e, "a", QAdd(dh.a, <<1, 10>>)))
        IN  (IsRQ(x1) /\ IsRQ(x2)) => QLt(x1.q, x2.q)
(* a perfect-square ionic strength makes every law rational (so the exact branch is not vacuous) *)
SquareIsRational ==
    (IsLaw /\ QIsSquare(Norm(QDiv(dh.IS, dh.I0)))) => IsRQ(PointValue(dh))

------------------------------------------------------------------------------
GenAddIon == \E c \in IonChoices : Len(ions) < MaxIons /\ AddIon(c[1], c[2], c[3])
GenPermute == \E i, j \in 1..MaxIons : Len(hist) < MaxHist /\ Permute(i, j)
GenMerge == \E i, j \in 1..MaxIons : Len(hist) < MaxHist /\ Merge(i, j)
GenScaleAll == \E k \in ScaleFactors : Len(hist) < MaxHist /\ ScaleAll(k)
GenChooseDH == \E p \in DHPoints : ChooseDH(p)

Next == GenAddIon \/ GenPermute \/ GenMerge \/ GenScaleAll \/ Finish \/ GenChooseDH
Spec == Init /\ [][Next]_vars

(* the invariant-checking configurations merge histories that lead to the same list *)
View == <<ions, ref, stage, dh, Len(hist)>>

------------------------------------------------------------------------------
(* case export *)
Done == stage = "done"

(* formula keys for the mapping form: the k-th ion of charge z gets the k-th formula of z *)
FormulasOf(z) ==
    CASE z = 1 -> <<"Na+", "K+", "H+", "NH4+">>   [] z = -1 -> <<"Cl-", "NO3-", "OH-", "Br-">>
      [] z = 2 -> <<"Mg+2", "Ca+2", "Fe+2", "Zn+2">> [] z = -2 -> <<"SO4-2", "CO3-2", "S2O3-2", "HPO4-2">>
      [] z = 3 -> <<"Al+3", "Fe+3", "La+3", "Cr+3">> [] z = -3 -> <<"PO4-3", "Fe(CN)6-3", "AsO4-3", "VO4-3">>
      [] z = 4 -> <<"Th+4", "Zr+4", "Ce+4", "U+4">> [] z = -4 -> <<"Fe(CN)6-4", "P2O7-4", "SiO4-4", "XeO6-4">>
      [] OTHER -> <<"H2O", "NH3", "CO2", "O2">>
Rank(i) == Cardinality({ j \in 1..i : ions[j].z = ions[i].z })
KeysOK == \A i \in 1..Len(ions) : Rank(i) <= 4
Keys == [i \in 1..Len(ions) |-> FormulasOf(ions[i].z)[Rank(i)]]

(* input forms (configurations): how the same composition is handed to the code.  A molality *)
(* of n pico-molal has magnitude n * 10^exp10 in the named unit (mmol/kg = 10^-3 mol/kg ...). *)
(* For the mapping forms the `substances` argument is a further dimension: not given (charges   *)
(* are read from the keys of the mapping), a string of keys, or a mapping key -> Substance; the   *)
(* registry may list the species in ANY order and may contain further species - charges are      *)
(* looked up BY KEY, so none of this may change the result.                                       *)
(* The registry is described symbolically so that the form table does not depend on the ion     *)
(* list (it is exported once): order = "rev" (reversed keys) | "rot" (first key moved to the end), *)
(* front / back = a further species listed before / after them ("" = none).                       *)
Rev(q) == [i \in 1..Len(q) |-> q[Len(q) + 1 - i]]
Rot(q) == IF Len(q) <= 1 THEN q ELSE Tail(q) \o <<Head(q)>>
NoSubs == [kind |-> "none", order |-> "same", front |-> "", back |-> ""]
Subs(kind, order, front, back) == [kind |-> kind, order |-> order, front |-> front, back |-> back]
Registry(sb, keys) == (IF sb.front = "" THEN <<>> ELSE <<sb.front>>)
                      \o (CASE sb.order = "rev" -> Rev(keys) [] sb.order = "rot" -> Rot(keys) [] OTHER -> keys)
                      \o (IF sb.back = "" THEN <<>> ELSE <<sb.back>>)
(* further options of the call (coverage audit): warn = the `warn` keyword ("default" = not      *)
(* passed, "off" = warn=False: never a warning); ukw = the (documented, unused) `units` keyword is *)
(* passed; factory = the species keys are opaque names and the charges come from a user-supplied  *)
(* `substance_factory` (the keys of the form are then FKeys, the factory maps FKeys[i] to a       *)
(* substance of charge ions[i].z)                                                                 *)
(* twice (second audit, object histories): the SAME argument objects are handed to a second call; *)
(* the second answer is judged, and - frame property of every form - the call leaves its inputs   *)
(* unchanged (exp.inputs_unchanged)                                                               *)
NoOpts == [warn |-> "default", ukw |-> FALSE, factory |-> FALSE, twice |-> FALSE]
F(form, unit, e, unit2, e2, subs) ==
    [form |-> form, unit |-> unit, exp10 |-> e, unit2 |-> unit2, exp10b |-> e2, subs |-> subs, opts |-> NoOpts]
FO(f, w, ukw, fac) == [f EXCEPT !.opts = [warn |-> w, ukw |-> ukw, factory |-> fac, twice |-> FALSE]]
FT(f) == [f EXCEPT !.opts.twice = TRUE]
FKeys == [i \in 1..Len(ions) |-> "X" \o ToString(i)]
ListForms == << F("list",   "none",    -12, "none",   -12, NoSubs),
                F("qarray", "mol/kg",  -12, "mol/kg", -12, NoSubs),
                F("qarray", "mmol/kg", -9,  "mmol/kg", -9, NoSubs),
                F("qlist",  "mol/g",   -15, "mol/g",  -15, NoSubs),
                F("qmixed", "mmol/kg", -9,  "mol/kg", -12, NoSubs),       \* odd entries unit, even entries unit2
                F("nparray", "none",   -12, "none",   -12, NoSubs),       \* plain numpy arrays
                FO(F("list", "none",   -12, "none",   -12, NoSubs), "off", FALSE, FALSE),
                FO(F("qarray", "mol/kg", -12, "mol/kg", -12, NoSubs), "default", TRUE, FALSE),
                FO(F("qlist", "mmol/kg", -9, "mmol/kg", -9, NoSubs), "off", TRUE, FALSE),
                FO(F("list", "none",   -12, "none",   -12, NoSubs), "on", FALSE, FALSE),      \* warn=True passed
                FT(F("qarray", "mmol/kg", -9, "mmol/kg", -9, NoSubs)),
                FT(F("nparray", "none", -12, "none", -12, NoSubs)) >>
DictForms == << F("dict",   "none",    -12, "none",   -12, NoSubs),
                F("dict",   "none",    -12, "none",   -12, Subs("str", "rev", "", "")),
                F("dict",   "none",    -12, "none",   -12, Subs("dict", "rot", "", "He")),
                F("qdict",  "mol/kg",  -12, "mol/kg", -12, NoSubs),
                F("qdict",  "umol/kg", -6,  "mmol/kg", -9, Subs("dict", "rev", "", "")),
                F("qdict",  "mol/kg",  -12, "mol/kg", -12, Subs("str", "rot", "Ar", "")),
                FO(F("dict", "none",   -12, "none",   -12, NoSubs), "off", FALSE, FALSE),
                \* alias keys: the mapping and the registry are keyed by FKeys ("X1", ...), the registry
                \* holds the real substances of the formulas Keys - keys differ from Substance.name
                F("dict",   "none",    -12, "none",   -12, Subs("aliasdict", "rev", "", "")),
                FT(F("qdict", "mmol/kg", -9, "mol/kg", -12, Subs("aliasdict", "rot", "", ""))),
                FT(F("dict",   "none",    -12, "none",   -12, Subs("dict", "same", "", ""))) >>
(* mapping forms whose keys are opaque: they work for every ion list (no formula table needed) *)
FactoryForms == << FO(F("dict",  "none",    -12, "none",   -12, NoSubs), "default", FALSE, TRUE),
                   FO(F("qdict", "mmol/kg", -9,  "mol/kg", -12, Subs("str", "rev", "", "")), "default", FALSE, TRUE) >>
(* the charge a key denotes (the table above read backwards) *)
ZOfKey(k) == CHOOSE z \in -4..4 : \E i \in 1..4 : FormulasOf(z)[i] = k
KeysDenoteCharges ==
    (dh = NoDH /\ KeysOK) =>
        /\ \A i \in 1..Len(ions) : ZOfKey(Keys[i]) = ions[i].z
        /\ \A i, j \in 1..Len(ions) : i # j => Keys[i] # Keys[j]
(* the form table (exported once, from the initial state); a case says how many of its entries  *)
(* apply: the formula-keyed mapping forms need the 4-entry formula table per charge (KeysOK)       *)
FormTable == ListForms \o FactoryForms \o DictForms
NForms == IF KeysOK THEN Len(FormTable) ELSE Len(ListForms) + Len(FactoryForms)
(* whatever the registry order, it contains every key of the mapping exactly once *)
RegistriesComplete ==
    (dh = NoDH /\ KeysOK /\ ions # <<>>) =>
        \A i \in 1..Len(FormTable) :
            LET r == Registry(FormTable[i].subs, Keys) IN
            \A k \in 1..Len(Keys) : Cardinality({ n \in 1..Len(r) : r[n] = Keys[k] }) = 1

IonClass == IF TwiceI(ions) = <<>> THEN "zero"
            ELSE "I-" \o (CASE WarnSpec(ions) = "no" -> "neutral" [] WarnSpec(ions) = "yes" -> "charged"
                            [] OTHER -> "band")
                      \o (IF hist = <<>> THEN "" ELSE "-" \o hist[Len(hist)].op)
(* relative tolerance of the comparison: 10^RtolExp *)
IonRtolExp == -12
IonCase ==
    [ in  |-> [kind |-> "ions",
               ions |-> [i \in 1..Len(ions) |-> [b |-> ions[i].b, z |-> ions[i].z]],
               keys |-> IF KeysOK THEN Keys ELSE <<>>, fkeys |-> FKeys,
               nforms |-> NForms,
               hist |-> hist],
      exp |-> [twiceI_pico |-> TwiceI(ions), warn |-> WarnSpec(ions), warn_off |-> "no", rtol_exp10 |-> IonRtolExp,
               inputs_unchanged |-> TRUE,
               net_sign |-> NetSign(ions)],
      cls |-> IonClass ]

ABRtol == <<2, 100000>>        \* A, B: covers the CODATA vintage of either code path
(* call configurations.  Every argument is handed over as  value * mul  in the named unit     *)
(* ("none" = plain number); all configurations of one point denote the same physical input.   *)
Arg(unit, n, d) == [unit |-> unit, mul |-> <<n, d>>]
(* `implicit`: arguments that equal their documented default (I0 = 1, C = 0 for the extended   *)
(* law, C = -0.3 for Davies, b0 = 1 mol/kg) are NOT passed; otherwise they are passed.  With     *)
(* quantities I0 has no usable default (it must carry the unit of IS).  See OmitSeq.             *)
LM(mode, be, impl, isu, isn, i0u, au, an, bu) ==
    [mode |-> mode, backend |-> be, consts |-> FALSE, implicit |-> impl, alias |-> FALSE,
     IS |-> Arg(isu, isn, 1), I0 |-> Arg(i0u, 1, 1), a |-> Arg(au, an, 1), B |-> Arg(bu, 1, 1)]
LawModes ==
    << LM("plain",  "default", FALSE, "none", 1, "none", "none", 1, "none"),
       LM("plain",  "math",    FALSE, "none", 1, "none", "none", 1, "none"),
       LM("units",  "default", FALSE, "mol/kg", 1, "mol/kg", "nm", 1, "1/nm"),
       LM("scaled", "default", FALSE, "mmol/kg", 1000, "mol/kg", "angstrom", 10, "1/nm"),
       LM("plain",  "default", TRUE,  "none", 1, "none", "none", 1, "none"),
       LM("units",  "default", TRUE,  "mol/kg", 1, "mol/kg", "nm", 1, "1/nm"),
       LM("scaled", "default", TRUE,  "mmol/kg", 1000, "mol/kg", "angstrom", 10, "1/nm"),
       \* coverage audit: symbolic backend (given by name), array-valued ionic strength
       LM("plain",  "sympy",   FALSE, "none", 1, "none", "none", 1, "none"),
       LM("nparray", "default", FALSE, "none", 1, "none", "none", 1, "none"),
       LM("nparray", "default", FALSE, "mmol/kg", 1000, "mol/kg", "angstrom", 10, "1/nm"),
       \* second audit: through the deprecated alias module chempy.debye_huckel
       [LM("units", "default", FALSE, "mol/kg", 1, "mol/kg", "nm", 1, "1/nm") EXCEPT !.alias = TRUE] >>
(* A, B take `constants` and `units`: every accepted combination (constants object given / not) x  *)
(* (units object given / not) x (inputs plain / default units / scaled units); without any of the  *)
(* two objects the inputs are plain numbers, with either of them they are quantities              *)
ABM(mode, c, uo, impl, tu, tn, td, ru, rn, rd, bu) ==
    [mode |-> mode, backend |-> "default", consts |-> c, uobj |-> uo, implicit |-> impl, alias |-> FALSE,
     T |-> Arg(tu, tn, td), rho |-> Arg(ru, rn, rd), b0 |-> Arg(bu, 1, 1)]
ABModes ==
    << ABM("plain",  FALSE, FALSE, TRUE,  "none", 1, 1, "none", 1, 1, "none"),
       ABM("plain",  FALSE, FALSE, FALSE, "none", 1, 1, "none", 1, 1, "none"),
       ABM("units",  FALSE, TRUE,  FALSE, "K", 1, 1, "kg/m3", 1, 1, "mol/kg"),
       ABM("scaled", FALSE, TRUE,  FALSE, "mK", 1000, 1, "g/cm3", 1, 1000, "mol/kg"),
       ABM("units",  TRUE,  TRUE,  FALSE, "K", 1, 1, "kg/m3", 1, 1, "mol/kg"),
       ABM("scaled", TRUE,  TRUE,  FALSE, "mK", 1000, 1, "g/cm3", 1, 1000, "mmol/g"),
       ABM("units",  TRUE,  FALSE, FALSE, "K", 1, 1, "kg/m3", 1, 1, "mol/kg"),
       ABM("scaled", TRUE,  FALSE, FALSE, "mK", 1000, 1, "g/cm3", 1, 1000, "mmol/g"),
       \* the reference molality left at its default: it is 1 mol/kg whenever a units object is passed
       ABM("units",  FALSE, TRUE,  TRUE,  "K", 1, 1, "kg/m3", 1, 1, "mol/kg"),
       ABM("scaled", FALSE, TRUE,  TRUE,  "mK", 1000, 1, "g/cm3", 1, 1000, "mol/kg"),
       ABM("units",  TRUE,  TRUE,  TRUE,  "K", 1, 1, "kg/m3", 1, 1, "mol/kg"),
       ABM("scaled", TRUE,  TRUE,  TRUE,  "mK", 1000, 1, "g/cm3", 1, 1000, "mol/kg"),
       \* coverage audit: the `backend` keyword, array-valued temperature and density
       [ABM("plain", FALSE, FALSE, TRUE, "none", 1, 1, "none", 1, 1, "none") EXCEPT !.backend = "math"],
       [ABM("units", TRUE,  TRUE,  FALSE, "K", 1, 1, "kg/m3", 1, 1, "mol/kg") EXCEPT !.backend = "math"],
       ABM("nparray", FALSE, FALSE, TRUE, "none", 1, 1, "none", 1, 1, "none"),
       ABM("nparray", TRUE,  TRUE,  FALSE, "K", 1, 1, "g/cm3", 1, 1000, "mol/kg"),
       [ABM("units",  FALSE, TRUE,  TRUE,  "K", 1, 1, "kg/m3", 1, 1, "mol/kg") EXCEPT !.alias = TRUE] >>
PM(mode, be, impl) == [mode |-> mode, backend |-> be, implicit |-> impl, alias |-> FALSE]
ProdModes == << PM("plain", "default", FALSE), PM("plain", "math", FALSE), PM("class", "default", FALSE),
                PM("plain", "default", TRUE), PM("class", "default", TRUE),
                \* coverage audit: symbolic backend; one instance of the class called twice (first with
                \* four times the molalities) - the second answer must not remember the first
                PM("plain", "sympy", FALSE), PM("classreuse", "default", FALSE),
                \* second audit: the deprecated alias module chempy.debye_huckel
                [PM("plain", "default", TRUE) EXCEPT !.alias = TRUE] >>
(* documented defaults and the arguments a configuration leaves out *)
DefaultC(kind) == IF kind \in {"dav", "dap"} THEN <<-3, 10>> ELSE QZero
If(c, name) == IF c THEN <<name>> ELSE <<>>
OmitSeq(p, m) ==
    IF ~m.implicit THEN <<>>
    ELSE IF p.kind \in LawKinds
    THEN If(m.mode = "plain" /\ p.I0 = QOne, "I0") \o If(p.kind \in {"ext", "dav"} /\ p.C = DefaultC(p.kind), "C")
    ELSE IF p.kind \in ABKinds THEN If(p.b0 = QOne /\ (m.mode = "plain" \/ m.uobj), "b0")
    ELSE If(p.kind \in {"eap", "dap"} /\ p.C = DefaultC(p.kind), "C")
ModesOfKind(kind) == IF kind \in LawKinds THEN LawModes ELSE IF kind \in ABKinds THEN ABModes ELSE ProdModes
(* molalities with the point's ionic strength, in the proportions of the stoichiometry       *)
(* (only for all-positive stoichiometries): c_i = nu_i * IS / (1/2 sum nu z^2)               *)
ProdConc(p) ==
    LET n == Len(p.nus)
        half == QDiv(QSumSeq([i \in 1..n |-> QMul(p.nus[i], QMul(p.zs[i], p.zs[i]))]), Q(2))
    IN  IF (\A i \in 1..n : QLt(QZero, p.nus[i])) /\ ~QIsZero(half)
        THEN [i \in 1..n |-> QDiv(QMul(p.nus[i], p.IS), half)] ELSE <<>>
(* structural class of a product point (for stratified sampling): ions sharing a charge but not  *)
(* a size, uncharged participants                                                                *)
ProdTag(p) ==
    IF p.kind \notin ProdKinds THEN ""
    ELSE (IF \E i, j \in 1..Len(p.zs) : i # j /\ p.zs[i] = p.zs[j] /\ p.pm[i] # p.pm[j] THEN "-samez" ELSE "")
         \o (IF \E i \in 1..Len(p.zs) : p.zs[i] = QZero THEN "-neutral" ELSE "")
         \o (IF p.kind \in {"eap", "dap"} /\ p.C # DefaultC(p.kind) THEN "-c" ELSE "")
DHCase ==
    LET v == PointValue(dh) IN
    [ in  |-> [kind |-> dh.kind, pt |-> dh,
               modes |-> ModesOfKind(dh.kind),
               omits |-> [i \in 1..Len(ModesOfKind(dh.kind)) |-> OmitSeq(dh, ModesOfKind(dh.kind)[i])],
               conc |-> IF dh.kind \in ProdKinds THEN ProdConc(dh) ELSE <<>>,
               conc_before |-> IF dh.kind \in ProdKinds THEN [i \in 1..Len(ProdConc(dh)) |-> QMul(Q(4), ProdConc(dh)[i])] ELSE <<>>,
               size_exp10 |-> -12],
      exp |-> [st |-> v.st, q |-> v.q,
               term |-> IF v.st = "q" THEN TC(0) ELSE TInst(PointTerm(dh), PointEnv(dh)),
               rtol |-> IF dh.kind \in LawKinds THEN <<1, 1000000000>>
                        ELSE IF dh.kind \in ABKinds THEN ABRtol ELSE <<5, 1000>>,
               dim |-> IF dh.kind = "B" THEN << <<"m", -1>> >> ELSE <<>>],
      cls |-> dh.kind \o "-" \o v.st \o ProdTag(dh) ]

CaseRec == IF dh = NoDH THEN IonCase ELSE DHCase
Emit == Done => PrintT(<<"CASE", ToJson(CaseRec)>>)
TableCase == [ in |-> [kind |-> "formtable", forms |-> FormTable], exp |-> [n |-> Len(FormTable)], cls |-> "table" ]
EmitTable == (stage = "build" /\ ions = <<>> /\ dh = NoDH) => PrintT(<<"CASE", ToJson(TableCase)>>)
=============================================================================
