INIT TInit
NEXT TNext
CONSTANTS
  IonChoices <- NoChoices
  MaxIons = 0
  MaxHist = 0
  ScaleFactors <- NoChoices
  DHPoints <- NoChoices
INVARIANT Verdict
INVARIANT Tracks
CHECK_DEADLOCK FALSE
