---------------------------- MODULE ElectrolytesTrace ----------------------------
(* Trace validation for part 1 of Electrolytes (C18): seeded ion lists beyond the exhaustive  *)
(* bounds (up to 8 ions, 4-digit mantissas over 12 decades) and seeded histories are run      *)
(* through chempy.electrolytes.ionic_strength; the recorded events are replayed through the   *)
(* actions of Electrolytes and TLC judges the observed ionic strength and warning.            *)
(*                                                                                            *)
(* events:  {k:"add", b:<limbs, pico-molal>, z}   {k:"permute", i, j}   {k:"merge", i, j}     *)
(*          {k:"scale", f}   {k:"finish"}                                                     *)
(*          {k:"result", twice:<limbs>, warned:<bool>, form:<text>, final:<ion list>}         *)
(* `twice` is round(2 * I_observed * 10^18) (atto-molal), i.e. the observed float written as  *)
(* an exact integer; the spec value is TwiceI * 10^6 in the same unit.                        *)
EXTENDS Electrolytes, IOUtils

Traces == JsonDeserialize(IOEnv.TRACE_FILE)

VARIABLES tid, pos, verdict
tvars == <<vars, tid, pos, verdict>>

Ev == Traces[tid][pos]

TInit == Init /\ tid \in 1..Len(Traces) /\ pos = 1 /\ verdict = "none"

Step(e) ==
    CASE e.k = "add"     -> AddIonRaw(e.b, e.z)
      [] e.k = "permute" -> Permute(e.i, e.j)
      [] e.k = "merge"   -> Merge(e.i, e.j)
      [] e.k = "scale"   -> ScaleAll(e.f)
      [] e.k = "finish"  -> Finish
      [] OTHER           -> FALSE

Mega(x) == BMulSmall(BMulSmall(x, 1000), 1000)
SpecTwice == Mega(TwiceI(ions))                       \* atto-molal
(* |obs - spec| <= 10^-12 * spec + 1 quantum *)
ValueOK(e) == LET d == BAbsDiff(e.twice, SpecTwice)
              IN  BLe(d, <<1>>) \/ BLe(Mega(Mega(BSub(d, <<1>>))), SpecTwice)
WarnOK(e) == CASE WarnSpec(ions) = "yes" -> e.warned
               [] WarnSpec(ions) = "no"  -> ~e.warned
               [] OTHER -> TRUE

(* the list the harness handed to the code is the list the actions produce *)
FinalOK(e) == Len(e.final) = Len(ions)
              /\ \A i \in 1..Len(ions) : e.final[i].b = ions[i].b /\ e.final[i].z = ions[i].z

(* e.ok = FALSE: the observed result could not be written as a non-negative exact number (nan, inf,  *)
(* negative, complex, wrong type ...) - such an observation equals no expectation                  *)
ResultOK(e) == stage = "done" /\ FinalOK(e) /\ e.ok /\ ValueOK(e) /\ WarnOK(e)

TStep ==
    /\ verdict = "none" /\ pos <= Len(Traces[tid])
    /\ IF Ev.k = "result"
       THEN ResultOK(Ev) /\ verdict' = "accept" /\ UNCHANGED vars
       ELSE Step(Ev) /\ verdict' = "none"
    /\ pos' = pos + 1 /\ UNCHANGED tid

TReject ==
    /\ verdict = "none" /\ ~ENABLED TStep
    /\ verdict' = "reject" /\ UNCHANGED <<vars, tid, pos>>

TNext == TStep \/ TReject

Clause ==
    IF pos > Len(Traces[tid]) THEN "no-result-event"
    ELSE LET e == Ev IN
      IF e.k # "result" THEN "step:" \o e.k
      ELSE IF stage # "done" THEN "notdone"
      ELSE IF ~FinalOK(e) THEN "final-list"
      ELSE IF ~e.ok THEN "unencodable-value"
      ELSE IF ~ValueOK(e) THEN "value"
      ELSE IF WarnSpec(ions) = "yes" THEN "missing-warning"
      ELSE "spurious-warning"

NoChoices == {}
Verdict == verdict # "none" =>
    PrintT(<<"VERDICT", tid, verdict, pos, IF verdict = "accept" THEN "" ELSE Clause>>)
=============================================================================
