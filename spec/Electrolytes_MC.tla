---------------------------- MODULE Electrolytes_MC ----------------------------
(* Constant definitions for the sliced configurations of Electrolytes (C18).                 *)
EXTENDS Electrolytes

(* part 1 alphabets: triples <<m, e, z>> *)
Tri(Ms, Es, Zs) == { <<m, e, z>> : m \in Ms, e \in Es, z \in Zs }
Ch_q == { <<1, 0, 1>>, <<1, 0, -1>>, <<2, 0, -1>>, <<1, 0, 2>>, <<1, 0, -2>>, <<2, 0, 3>>,
          <<1, -12, 1>>, <<1, -12, -2>>, <<3, -6, -3>>, <<5, -3, 4>>, <<0, 0, 1>> }
Ch_t == Tri({1, 2}, {-12, 0}, {-3, -2, -1, 1, 2, 4})
Ch_w == Tri({0, 1, 999}, {-12, -6, 0}, -4..4)
Ch_s == Tri({1, 2}, {0}, {-1, 1}) \cup {<<1, 0, 2>>, <<1, 0, -2>>, <<1, -12, 1>>, <<3, -6, -3>>}
S_q == {3}
S_t == {2, 10, 1000}
NoChoices == {}
Z_w == -4..4
NoPoints == {}

(* part 2 grids *)
R(n, d) == Norm(<<n, d>>)
(* every DH point record has the same fields (unused ones keep the defaults), so that points of  *)
(* all kinds can live in one set                                                               *)
PBase == [kind |-> "none", IS |-> QZero, I0 |-> QOne, z |-> QZero, A |-> QZero, B |-> QZero, a |-> QZero,
          C |-> QZero, T |-> QZero, eps |-> QZero, rho |-> QZero, b0 |-> QOne, nus |-> <<>>, zs |-> <<>>, pm |-> <<>>]
LimPts(Is, I0s, Zs, As) ==
    { [PBase EXCEPT !.kind = "lim", !.IS = i, !.I0 = i0, !.z = Q(z), !.A = a] :
        i \in Is, i0 \in I0s, z \in Zs, a \in As }
ExtPts(Is, I0s, Zs, As, Bs, Ss, Cs) ==
    { [PBase EXCEPT !.kind = "ext", !.IS = i, !.I0 = i0, !.z = Q(z), !.A = a, !.B = b, !.a = s, !.C = c] :
        i \in Is, i0 \in I0s, z \in Zs, a \in As, b \in Bs, s \in Ss, c \in Cs }
DavPts(Is, I0s, Zs, As, Cs) ==
    { [PBase EXCEPT !.kind = "dav", !.IS = i, !.I0 = i0, !.z = Q(z), !.A = a, !.C = c] :
        i \in Is, i0 \in I0s, z \in Zs, a \in As, c \in Cs }

(* perfect squares (exact branch) and non-squares (term branch) *)
I_q == {R(0, 1), R(1, 100), R(1, 4), R(9, 25), R(1, 10), R(2, 5)}
I_t == {R(0, 1), R(1, 10000), R(1, 100), R(1, 25), R(1, 4), R(9, 25), R(1, 1), R(4, 1),
        R(1, 1000), R(1, 10), R(2, 5), R(3, 1), R(1, 3)}
A_q == {R(1, 2), R(117, 100)}
A_t == {R(1, 2), R(117, 100), R(509, 1000)}
B_q == {R(33, 10)}
B_t == {R(33, 10), R(1, 1)}
Sz_q == {R(0, 1), R(2, 5)}
Sz_t == {R(0, 1), R(2, 5), R(9, 10)}
Cx_q == {R(0, 1), R(1, 10)}
Cx_t == {R(0, 1), R(1, 10), R(-1, 5)}
Cd_q == {R(-3, 10)}
Cd_t == {R(-3, 10), R(0, 1), R(-1, 5)}
I0_q == {R(1, 1)}
I0_t == {R(1, 1), R(1, 4)}
LawPts_q == LimPts(I_q, I0_q, Z_w, A_q) \cup ExtPts(I_q, I0_q, {-3, 0, 1, 2}, A_q, B_q, Sz_q, Cx_q)
                \cup DavPts(I_q, I0_q, {-2, 0, 1, 4}, A_q, Cd_q \cup {R(0, 1)})
                \cup ExtPts({R(1, 100), R(2, 5)}, {R(1, 4)}, {-2, 0, 1}, {R(1, 2)}, B_q, {R(2, 5)}, Cx_q)
                \cup LimPts({R(1, 100)}, {R(1, 4)}, {-1, 2}, {R(1, 2)})
(* A / B over T 250..650 K, eps_r 5..100, rho 500..1500 kg/m3 *)
ABPts(Ts, Es, Rs) == { [PBase EXCEPT !.kind = k, !.T = t, !.eps = e, !.rho = r] :
                        k \in {"A", "B"}, t \in Ts, e \in Es, r \in Rs }
T_q == {R(250, 1), R(5963, 20), R(650, 1)}
T_t == {R(250, 1), R(5463, 20), R(5863, 20), R(5963, 20), R(350, 1), R(400, 1), R(500, 1), R(650, 1)}
Ep_q == {R(5, 1), R(392, 5), R(100, 1)}
Ep_t == {R(5, 1), R(20, 1), R(111, 2), R(392, 5), R(801, 10), R(100, 1)}
Rh_q == {R(500, 1), R(9982071, 10000), R(1500, 1)}
Rh_t == {R(500, 1), R(800, 1), R(958, 1), R(997, 1), R(9982071, 10000), R(1200, 1), R(1500, 1)}
(* reference molalities other than 1 mol/kg: A and B scale with sqrt(b0) *)
ABPtsB(Ts, Es, Rs, Bs) == { [PBase EXCEPT !.kind = k, !.T = t, !.eps = e, !.rho = r, !.b0 = b] :
                             k \in {"A", "B"}, t \in Ts, e \in Es, r \in Rs, b \in Bs }
ABPts_q == ABPts(T_q, Ep_q, Rh_q) \cup ABPtsB({R(5963, 20)}, {R(392, 5)}, {R(997, 1), R(500, 1)}, {R(1, 4), R(2, 1)})
(* activity products: stoichiometry / charge / ion size (pm) patterns *)
Salts == { [nus |-> <<Q(1), Q(1)>>, zs |-> <<Q(1), Q(-1)>>, pm |-> <<400, 300>>],
           [nus |-> <<Q(1), Q(2)>>, zs |-> <<Q(2), Q(-1)>>, pm |-> <<800, 300>>],
           [nus |-> <<Q(2), Q(3)>>, zs |-> <<Q(3), Q(-2)>>, pm |-> <<900, 400>>],
           [nus |-> <<Q(1), Q(1), Q(-1)>>, zs |-> <<Q(1), Q(-2), Q(-1)>>, pm |-> <<900, 400, 450>>],
           [nus |-> <<Q(1), Q(4)>>, zs |-> <<Q(4), Q(-1)>>, pm |-> <<1100, 300>>],
           \* uncharged participants (H+ + A- -> HA;  a salt with a neutral co-solute)
           [nus |-> <<Q(-1), Q(-1), Q(1)>>, zs |-> <<Q(1), Q(-1), Q(0)>>, pm |-> <<900, 400, 300>>],
           [nus |-> <<Q(1), Q(2), Q(3)>>, zs |-> <<Q(2), Q(-1), Q(0)>>, pm |-> <<800, 300, 250>>],
           \* several ions of the SAME charge with different sizes (ion exchange H+ / Na+; a mixed
           \* electrolyte; two anions): every ion contributes with its own size parameter
           [nus |-> <<Q(1), Q(-1)>>, zs |-> <<Q(1), Q(1)>>, pm |-> <<900, 425>>],
           [nus |-> <<Q(1), Q(1), Q(2)>>, zs |-> <<Q(1), Q(1), Q(-1)>>, pm |-> <<900, 425, 300>>],
           [nus |-> <<Q(2), Q(1), Q(1)>>, zs |-> <<Q(1), Q(-1), Q(-1)>>, pm |-> <<400, 300, 1200>>],
           \* a listed species that does not take part (nu = 0)
           [nus |-> <<Q(1), Q(0), Q(2)>>, zs |-> <<Q(2), Q(3), Q(-1)>>, pm |-> <<800, 900, 300>>],
           \* fractional stoichiometry
           [nus |-> <<R(1, 2), Q(1)>>, zs |-> <<Q(2), Q(-1)>>, pm |-> <<800, 300>>] }
(* Cs: linear coefficients of the extended product (default 0), Cds: of the Davies product (default *)
(* -0.3; -0.2 is Davies' original value) - every optional coefficient is varied away from its default *)
ProdCs(k, Cs, Cds) == IF k = "lap" THEN {QZero} ELSE IF k = "eap" THEN Cs ELSE Cds
ProdPts(Ks, Is, Ts, Es, Rs, Cs, Cds) ==
    UNION { { [PBase EXCEPT !.kind = k, !.IS = i, !.T = t, !.eps = e, !.rho = r, !.C = c,
                            !.nus = s.nus, !.zs = s.zs, !.pm = s.pm] :
                i \in Is, t \in Ts, e \in Es, r \in Rs, s \in Salts, c \in ProdCs(k, Cs, Cds) } : k \in Ks }
ProdPts_q == ProdPts({"lap", "eap", "dap"}, {R(0, 1), R(1, 100), R(1, 10)}, {R(5963, 20)}, {R(392, 5)},
                     {R(997, 1)}, {R(0, 1), R(1, 10)}, {R(-3, 10), R(-1, 5), R(0, 1)})
DHPts_q == LawPts_q \cup ABPts_q \cup ProdPts_q
=============================================================================
