---------------------------- MODULE Electrolytes_MCT ----------------------------
(* Thorough-tier point sets of Electrolytes (kept apart: TLC evaluates every constant-level  *)
(* definition of the root module at start-up).                                               *)
EXTENDS Electrolytes_MC

(* (the point sets are built single-threaded at start-up: the extended/Davies grids use a reduced *)
(* charge set and 9 of the 13 ionic strengths)                                                    *)
I_tt == I_t \ {R(1, 10000), R(1, 25), R(4, 1), R(1, 3)}
Z_tt == {-4, -2, -1, 0, 1, 2, 3}
LawPts_t == LimPts(I_t, I0_t, Z_w, A_t) \cup ExtPts(I_tt, I0_q, Z_tt, A_t, B_t, Sz_t, Cx_q)
                \cup ExtPts({R(1, 100), R(2, 5)}, {R(1, 4)}, {-2, 0, 1}, A_q, B_q, Sz_q, Cx_q)
                \cup DavPts(I_tt, I0_t, Z_tt, A_t, Cd_t)

ABPts_t == ABPts(T_t, Ep_t, Rh_t) \cup ABPtsB({R(250, 1), R(5963, 20), R(650, 1)}, Ep_q, Rh_q, {R(1, 4), R(2, 1), R(1, 100)})

ProdPts_t == ProdPts({"lap", "eap", "dap"}, {R(0, 1), R(1, 1000), R(1, 100), R(1, 10), R(1, 4)},
                     {R(5463, 20), R(350, 1)}, {R(392, 5)},
                     {R(997, 1), R(958, 1)}, {R(0, 1), R(1, 10), R(-1, 5)}, {R(-3, 10), R(-1, 5), R(0, 1), R(1, 10)})
DHPts_t == LawPts_t \cup ABPts_t \cup ProdPts_t
=============================================================================
