---------------------------- MODULE Electrolytes_MCT ----------------------------
(* Thorough-tier point sets of Electrolytes (kept apart: TLC evaluates every constant-level  *)
(* definition of the root module at start-up).                                               *)
EXTENDS Electrolytes_MC

LawPts_t == LimPts(I_t, I0_t, Z_w, A_t) \cup ExtPts(I_t, I0_q, Z_w, A_t, B_t, Sz_t, Cx_q)
                \cup DavPts(I_t, I0_t, Z_w, A_t, Cd_t)

ABPts_t == ABPts(T_t, Ep_t, Rh_t) \cup ABPtsB({R(250, 1), R(5963, 20), R(650, 1)}, Ep_q, Rh_q, {R(1, 4), R(2, 1), R(1, 100)})

ProdPts_t == ProdPts({"lap", "eap", "dap"}, {R(0, 1), R(1, 1000), R(1, 100), R(1, 10), R(1, 4)},
                     {R(5463, 20), R(350, 1)}, {R(392, 5)},
                     {R(997, 1), R(958, 1)}, {R(0, 1), R(1, 10), R(-1, 5)}, {R(-3, 10), R(-1, 5), R(0, 1), R(1, 10)})
DHPts_t == LawPts_t \cup ABPts_t \cup ProdPts_t
=============================================================================
