INIT Init
NEXT Next
CONSTANTS
  IonChoices <- NoChoices
  MaxIons = 0
  MaxHist = 0
  ScaleFactors <- S_q
  DHPoints <- ABPts_t

INVARIANT TypeOK
INVARIANT Emit
CHECK_DEADLOCK FALSE
