INIT Init
NEXT Next
CONSTANTS
  IonChoices <- NoChoices
  MaxIons = 0
  MaxHist = 0
  ScaleFactors <- S_q
  DHPoints <- DHPts_q
INVARIANT ExtendedReducesToLimiting
INVARIANT IonSizeDamps
INVARIANT ZeroAtZeroStrength
INVARIANT ChargeEntersSquared
INVARIANT NeutralSpecies
INVARIANT IonSizeMatters
INVARIANT SquareIsRational
INVARIANT TypeOK
INVARIANT Emit
CHECK_DEADLOCK FALSE
