INIT Init
NEXT Next
CONSTANTS
  IonChoices <- Ch_s
  MaxIons = 4
  MaxHist = 1
  ScaleFactors <- S_q
  DHPoints <- NoPoints
INVARIANT Tracks
INVARIANT WarnClassesSound
INVARIANT KeysDenoteCharges
INVARIANT TypeOK
INVARIANT Emit
INVARIANT EmitTable
INVARIANT RegistriesComplete
CHECK_DEADLOCK FALSE
