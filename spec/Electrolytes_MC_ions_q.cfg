INIT Init
NEXT Next
CONSTANTS
  IonChoices <- Ch_q
  MaxIons = 3
  MaxHist = 1
  ScaleFactors <- S_q
  DHPoints <- NoPoints
INVARIANT Tracks
INVARIANT WarnClassesSound
INVARIANT KeysDenoteCharges
INVARIANT TypeOK
INVARIANT Emit
INVARIANT EmitTable
INVARIANT RegistriesComplete
CHECK_DEADLOCK FALSE
