INIT Init
NEXT Next
CONSTANTS
  IonChoices <- Ch_w
  MaxIons = 2
  MaxHist = 1
  ScaleFactors <- S_t
  DHPoints <- NoPoints
INVARIANT Tracks
INVARIANT WarnClassesSound
INVARIANT KeysDenoteCharges
INVARIANT TypeOK
INVARIANT Emit
INVARIANT EmitTable
INVARIANT RegistriesComplete
CHECK_DEADLOCK FALSE
