INIT Init
NEXT Next
CONSTANTS
  IonChoices <- NoChoices
  MaxIons = 0
  MaxHist = 0
  ScaleFactors <- S_q
  DHPoints <- ProdPts_q

INVARIANT TypeOK
INVARIANT Emit
CHECK_DEADLOCK FALSE
