---------------------------- MODULE EqArith ----------------------------
(* Arithmetic on chemical equilibria as a register machine (property C11).                    *)
(*                                                                                            *)
(* An equilibrium is a record [reac, prod, kexp, kind]:                                       *)
(*   reac, prod : finite maps  species name -> coefficient (a key is LISTED iff it is in the  *)
(*                DOMAIN; the property demands every listed coefficient to be positive),      *)
(*   kexp       : the equilibrium constant as a formal monomial  PROD_b K_b^kexp[b]  over the  *)
(*                constants K_b of the BASE equilibria that were loaded (zero exponents are   *)
(*                not listed).  The binding layer gives every base a distinct prime (as a     *)
(*                Fraction) or a sympy symbol, so the exponent vector of any real result is   *)
(*                recovered by factorisation,                                                 *)
(*   kind       : "base" (loaded as given, may list a species on both sides) or "sum" (the    *)
(*                result of an addition/subtraction, possibly scaled afterwards).             *)
(*                                                                                            *)
(* The operations are stated from the property text:                                          *)
(*   n * e  (n # 0): every coefficient times |n|, sides swapped when n < 0, constant K^n;     *)
(*   e1 + e2       : per species the sum of the net coefficients, written in NETTED form       *)
(*                   (negative net -> reactant, positive net -> product, zero -> not listed), *)
(*                   constant K1*K2;   e1 - e2 = e1 + (-1)*e2;                                *)
(*   eliminate     : any non-zero integers m1, m2 with m1*v1 + m2*v2 = 0 (v = net coefficient *)
(*                   of the species in the two operands);                                     *)
(*   cancel        : (docstring) the multiplier of how many times the other equilibrium can   *)
(*                   be added/subtracted: the truncated quotient -v1/v2 of least magnitude    *)
(*                   over the species of the other equilibrium;                               *)
(*   as_reactions  : a forward and a backward reaction with kf/kb = K.                        *)
(* The design-level invariants (Tracks, Positive, Netted, ...) say that these operators obey  *)
(* the property in every reachable state; TLC checks them on the bounded machine, the same    *)
(* actions generate the cases replayed into chempy and judge the recorded traces.             *)
EXTENDS Integers, Sequences, FiniteSets, FiniteSetsExt, TLC, Json, SequencesExt, Rational

CONSTANTS
    NRegs,      \* registers are 1..NRegs
    BaseSeq,    \* sequence of base names (the catalog, in canonical order)
    BaseEq,     \* base name -> [reac, prod]
    Scales,     \* non-zero integers used by GenScale
    MaxLen,     \* bound on Len(hist)
    Queries,    \* subset of {"elim", "cancel", "asrx"}: observations enabled in generation
    TerminalQueries  \* TRUE: an observation ends the history (generation); FALSE: it does not (traces)

VARIABLES regs, cat, hist, out, phase

vars == <<regs, cat, hist, out, phase>>

Regs == 1..NRegs
------------------------------------------------------------------------------
(* finite maps *)
EmptyMap == <<>>
Get(f, s) == IF s \in DOMAIN f THEN f[s] ELSE 0
MapOf(S, Op(_)) == [s \in S |-> Op(s)]
NonZero(f) == [s \in {t \in DOMAIN f : f[t] # 0} |-> f[s]]
ScaleMap(f, n) == [s \in DOMAIN f |-> n * f[s]]
AddMaps(f, g) == NonZero([s \in DOMAIN f \cup DOMAIN g |-> Get(f, s) + Get(g, s)])

EmptyEq == [reac |-> EmptyMap, prod |-> EmptyMap, kexp |-> EmptyMap, kind |-> "empty"]
Loaded(e) == e.kind # "empty"

Keys(e) == DOMAIN e.reac \cup DOMAIN e.prod
NetAt(e, s) == Get(e.prod, s) - Get(e.reac, s)

(* the operations, from the property text *)
ScaleEq(e, n) ==
    IF n > 0
    THEN [reac |-> ScaleMap(e.reac, n), prod |-> ScaleMap(e.prod, n),
          kexp |-> NonZero(ScaleMap(e.kexp, n)), kind |-> e.kind]
    ELSE [reac |-> ScaleMap(e.prod, -n), prod |-> ScaleMap(e.reac, -n),
          kexp |-> NonZero(ScaleMap(e.kexp, n)), kind |-> e.kind]

AddEq(a, b) ==
    LET ks == Keys(a) \cup Keys(b)
        net(s) == NetAt(a, s) + NetAt(b, s)
    IN  [reac |-> [s \in {t \in ks : net(t) < 0} |-> -net(s)],
         prod |-> [s \in {t \in ks : net(t) > 0} |-> net(s)],
         kexp |-> AddMaps(a.kexp, b.kexp), kind |-> "sum"]

SubEq(a, b) == AddEq(a, ScaleEq(b, -1))

ElimOK(m1, m2, v1, v2) == m1 # 0 /\ m2 # 0 /\ m1 * v1 + m2 * v2 = 0
(* one particular solution, used when the machine generates cases *)
CanonMult(v1, v2) == LET g == GCD(Abs(v1), Abs(v2)) IN <<v2 \div g, -(v1 \div g)>>

(* truncated division (rounds toward zero) *)
TDiv(p, q) == Sgn(p) * Sgn(q) * (Abs(p) \div Abs(q))
CancelDefined(e, x) == Keys(x) # {} /\ \A k \in Keys(x) : NetAt(x, k) # 0
CancelQuot(e, x, k) == TDiv(-NetAt(e, k), NetAt(x, k))
CancelSet(e, x) == { m \in { CancelQuot(e, x, k) : k \in Keys(x) } :
                        \A k \in Keys(x) : Abs(m) <= Abs(CancelQuot(e, x, k)) }

(* a rate constant is a monomial like an equilibrium constant; rate names are not base names *)
RateNames == {"kf", "kb"}
ReservedNames == RateNames \cup {"c0"}
Unit(name) == [b \in {name} |-> 1]
(* With a units module the constant refers to the standard concentration c0: kf / kb =        *)
(* K * c0^(nb - nf), nb / nf = sums of the product / reactant coefficients.  c0 is one more    *)
(* formal base ("c0" when a units module is given, absent = 1 otherwise).                      *)
SumMap(f) == FoldSet(LAMBDA s, acc : acc + f[s], 0, DOMAIN f)
Kc(e, c0) == IF c0 = "c0" THEN AddMaps(e.kexp, NonZero(ScaleMap(Unit("c0"), SumMap(e.prod) - SumMap(e.reac))))
             ELSE e.kexp
AsRx(e, which, c0) ==
    IF which = "kf"
    THEN [fw |-> [reac |-> e.reac, prod |-> e.prod, kexp |-> Unit("kf")],
          bw |-> [reac |-> e.prod, prod |-> e.reac,
                  kexp |-> AddMaps(Unit("kf"), ScaleMap(Kc(e, c0), -1))]]
    ELSE [fw |-> [reac |-> e.reac, prod |-> e.prod, kexp |-> AddMaps(Unit("kb"), Kc(e, c0))],
          bw |-> [reac |-> e.prod, prod |-> e.reac, kexp |-> Unit("kb")]]

------------------------------------------------------------------------------
Init ==
    /\ regs = [r \in Regs |-> EmptyEq]
    /\ cat = EmptyMap
    /\ hist = <<>>
    /\ out = [op |-> "none"]
    /\ phase = "run"

IsStoich(f) == \A s \in DOMAIN f : f[s] \in Nat \ {0}
(* an equilibrium must change something: the library refuses to construct one whose net      *)
(* stoichiometry is zero for every species (e.g. e - e), so such results are outside the model *)
HasEffect(e) == \E s \in Keys(e) : NetAt(e, s) # 0

(* Load base b (contents eq) into register r *)
Load(r, b, eq) ==
    /\ phase = "run" /\ r \in Regs /\ b \notin ReservedNames
    /\ IsStoich(eq.reac) /\ IsStoich(eq.prod) /\ HasEffect(eq)
    /\ (b \in DOMAIN cat => (cat[b].reac = eq.reac /\ cat[b].prod = eq.prod))
    /\ LET e == [reac |-> eq.reac, prod |-> eq.prod, kexp |-> Unit(b), kind |-> "base"]
       IN  /\ regs' = [regs EXCEPT ![r] = e]
           /\ cat' = [x \in DOMAIN cat \cup {b} |-> IF x = b THEN [reac |-> eq.reac, prod |-> eq.prod] ELSE cat[x]]
           /\ out' = [op |-> "reg", r |-> r, val |-> e, all |-> [regs EXCEPT ![r] = e]]
    /\ hist' = Append(hist, [op |-> "Load", r |-> r, b |-> b, reac |-> eq.reac, prod |-> eq.prod])
    /\ UNCHANGED phase

RegOp(name, r, val, extra) ==
    /\ regs' = [regs EXCEPT ![r] = val]
    /\ out' = [op |-> "reg", r |-> r, val |-> val, all |-> [regs EXCEPT ![r] = val]]  \* operands are not changed
    /\ hist' = Append(hist, extra)
    /\ UNCHANGED <<cat, phase>>

Scale(r, n) ==
    /\ phase = "run" /\ r \in Regs /\ Loaded(regs[r]) /\ n \in Int /\ n # 0
    /\ RegOp("Scale", r, ScaleEq(regs[r], n), [op |-> "Scale", r |-> r, n |-> n])

(* Copy: register r now holds the very same object as register q (aliasing).  Every operation *)
(* yields a new equilibrium and leaves its operands as they were, so a later operation on one *)
(* of the two must not show through the other (`all` in the expected observation).             *)
Copy(r, q) ==
    /\ phase = "run" /\ r \in Regs /\ q \in Regs /\ r # q /\ Loaded(regs[q])
    /\ RegOp("Copy", r, regs[q], [op |-> "Copy", r |-> r, q |-> q])

Neg(r) ==
    /\ phase = "run" /\ r \in Regs /\ Loaded(regs[r])
    /\ RegOp("Neg", r, ScaleEq(regs[r], -1), [op |-> "Neg", r |-> r])

Add(r, q) ==
    /\ phase = "run" /\ r \in Regs /\ q \in Regs /\ Loaded(regs[r]) /\ Loaded(regs[q])
    /\ HasEffect(AddEq(regs[r], regs[q]))
    /\ RegOp("Add", r, AddEq(regs[r], regs[q]), [op |-> "Add", r |-> r, q |-> q])

Sub(r, q) ==
    /\ phase = "run" /\ r \in Regs /\ q \in Regs /\ Loaded(regs[r]) /\ Loaded(regs[q])
    /\ HasEffect(SubEq(regs[r], regs[q]))
    /\ RegOp("Sub", r, SubEq(regs[r], regs[q]), [op |-> "Sub", r |-> r, q |-> q])

Observe(o0, h) ==
    /\ out' = [x \in DOMAIN o0 \cup {"all"} |-> IF x = "all" THEN regs ELSE o0[x]] /\ hist' = Append(hist, h) /\ UNCHANGED <<regs, cat>>
    /\ phase' = IF TerminalQueries THEN "done" ELSE "run"

(* Eliminate: the helper was asked for multipliers eliminating s from regs[r], regs[q] and    *)
(* answered <<m1, m2>>; the step is possible only if the answer satisfies the property        *)
Eliminate(r, q, s, m1, m2) ==
    /\ phase = "run" /\ r \in Regs /\ q \in Regs /\ r # q /\ Loaded(regs[r]) /\ Loaded(regs[q])
    /\ NetAt(regs[r], s) # 0 /\ NetAt(regs[q], s) # 0
    /\ ElimOK(m1, m2, NetAt(regs[r], s), NetAt(regs[q], s))
    /\ Observe([op |-> "elim", m |-> <<m1, m2>>, v |-> <<NetAt(regs[r], s), NetAt(regs[q], s)>>,
                comb |-> AddEq(ScaleEq(regs[r], m1), ScaleEq(regs[q], m2)), s |-> s],
               [op |-> "Eliminate", r |-> r, q |-> q, s |-> s])

Cancel(r, q, m) ==
    /\ phase = "run" /\ r \in Regs /\ q \in Regs /\ r # q /\ Loaded(regs[r]) /\ Loaded(regs[q])
    /\ CancelDefined(regs[r], regs[q])
    /\ m \in CancelSet(regs[r], regs[q])
    /\ Observe([op |-> "cancel", m |-> m, allowed |-> SetToSortSeq(CancelSet(regs[r], regs[q]), <)],
               [op |-> "Cancel", r |-> r, q |-> q])

(* exactly one of the two rates has to be given: with both or none the call is refused *)
AsReactionsRefused(r, which) ==
    /\ phase = "run" /\ r \in Regs /\ Loaded(regs[r]) /\ which \in {"both", "none"}
    /\ Observe([op |-> "asrx-refused", which |-> which],
               [op |-> "AsReactions", r |-> r, which |-> which, c0 |-> "one"])

AsReactions(r, which, c0) ==
    /\ phase = "run" /\ r \in Regs /\ Loaded(regs[r]) /\ which \in RateNames /\ c0 \in {"one", "c0"}
    /\ Observe([op |-> "asrx", which |-> which, rx |-> AsRx(regs[r], which, c0), K |-> Kc(regs[r], c0)],
               [op |-> "AsReactions", r |-> r, which |-> which, c0 |-> c0])

------------------------------------------------------------------------------
(* bounded generation *)
NLoaded == Cardinality({r \in Regs : Loaded(regs[r])})
OnlyLoads == \A i \in 1..Len(hist) : hist[i].op = "Load"
BaseIdx(b) == CHOOSE i \in 1..Len(BaseSeq) : BaseSeq[i] = b
LastBaseIdx == IF hist = <<>> THEN 1 ELSE BaseIdx(hist[Len(hist)].b)
Room == Len(hist) < MaxLen

(* registers are interchangeable: they are loaded first, in order, with non-decreasing bases *)
GenLoad == \E i \in 1..Len(BaseSeq) :
    /\ Room /\ OnlyLoads /\ NLoaded < NRegs /\ i >= LastBaseIdx
    /\ Load(NLoaded + 1, BaseSeq[i], BaseEq[BaseSeq[i]])
GenScale == \E r \in Regs, n \in Scales : Room /\ Scale(r, n)
GenNeg == \E r \in Regs : Room /\ Neg(r)
GenCopy == \E r \in Regs, q \in Regs : Room /\ "copy" \in Queries /\ Copy(r, q)
GenAdd == \E r \in Regs, q \in Regs : Room /\ Add(r, q)
GenSub == \E r \in Regs, q \in Regs : Room /\ Sub(r, q)
GenEliminate == \E r \in Regs, q \in Regs :
    /\ Room /\ "elim" \in Queries /\ r # q /\ Loaded(regs[r]) /\ Loaded(regs[q])
    /\ \E s \in Keys(regs[r]) \cap Keys(regs[q]) :
         /\ NetAt(regs[r], s) # 0 /\ NetAt(regs[q], s) # 0
         /\ LET m == CanonMult(NetAt(regs[r], s), NetAt(regs[q], s)) IN Eliminate(r, q, s, m[1], m[2])
GenCancel == \E r \in Regs, q \in Regs :
    /\ Room /\ "cancel" \in Queries /\ r # q /\ Loaded(regs[r]) /\ Loaded(regs[q])
    /\ CancelDefined(regs[r], regs[q])
    /\ Cancel(r, q, CHOOSE m \in CancelSet(regs[r], regs[q]) : TRUE)
GenAsReactions == \E r \in Regs : Room /\ "asrx" \in Queries /\
    ((\E w \in RateNames, c0 \in {"one", "c0"} : AsReactions(r, w, c0)) \/ (\E w \in {"both", "none"} : AsReactionsRefused(r, w)))

Next == GenLoad \/ GenScale \/ GenNeg \/ GenCopy \/ GenAdd \/ GenSub \/ GenEliminate \/ GenCancel \/ GenAsReactions

------------------------------------------------------------------------------
(* invariants: the property, stated on the machine *)
AllSpecies == UNION { DOMAIN cat[b].reac \cup DOMAIN cat[b].prod : b \in DOMAIN cat }
             \cup UNION { Keys(regs[r]) : r \in Regs }
BaseNet(b, s) == Get(cat[b].prod, s) - Get(cat[b].reac, s)
Comb(kexp, s) == FoldSet(LAMBDA b, acc : acc + kexp[b] * BaseNet(b, s), 0, DOMAIN kexp)

TypeOK ==
    /\ \A r \in Regs : /\ regs[r].kind \in {"empty", "base", "sum"}
                       /\ DOMAIN regs[r].kexp \subseteq DOMAIN cat
                       /\ \A b \in DOMAIN regs[r].kexp : regs[r].kexp[b] \in Int \ {0}
    /\ phase \in {"run", "done"}

(* net stoichiometry = the same integer combination of the operands' net stoichiometries as   *)
(* the exponents of their constants in the constant                                           *)
TracksEq(e) == \A s \in AllSpecies : NetAt(e, s) = Comb(e.kexp, s)
Tracks == \A r \in Regs : Loaded(regs[r]) => TracksEq(regs[r])
(* every listed coefficient is positive *)
PositiveEq(e) == IsStoich(e.reac) /\ IsStoich(e.prod)
Positive == \A r \in Regs : PositiveEq(regs[r])
(* sums and differences are netted: no species on both sides (zeros are never listed) *)
Netted == \A r \in Regs : regs[r].kind = "sum" => DOMAIN regs[r].reac \cap DOMAIN regs[r].prod = {}
(* the combination built from elimination multipliers contains none of the species *)
ElimFree == out.op = "elim" =>
    /\ out.s \notin Keys(out.comb) /\ PositiveEq(out.comb) /\ TracksEq(out.comb)
(* kf / kb = K and the two reactions are each other's reverse *)
RatesRatio == out.op = "asrx" =>
    /\ AddMaps(out.rx.fw.kexp, ScaleMap(out.rx.bw.kexp, -1)) = out.K
    /\ out.rx.fw.reac = out.rx.bw.prod /\ out.rx.fw.prod = out.rx.bw.reac
    /\ LET h == hist[Len(hist)]  e == regs[h.r]
           ratio == AddMaps(out.rx.fw.kexp, ScaleMap(out.rx.bw.kexp, -1))
       IN  /\ \A b \in DOMAIN cat : Get(ratio, b) = Get(e.kexp, b)          \* the constant itself
           /\ Get(ratio, "c0") = (IF h.c0 = "c0" THEN SumMap(e.prod) - SumMap(e.reac) ELSE 0)
           /\ DOMAIN ratio \subseteq DOMAIN cat \cup {"c0"}
(* the canonical multipliers are a solution for every pair of non-zero coefficients *)
CanonOK == \A v1, v2 \in (-6..6) \ {0} : ElimOK(CanonMult(v1, v2)[1], CanonMult(v1, v2)[2], v1, v2)
(* cancelling never overshoots a species of the other equilibrium that it is reducing *)
CancelNoOvershoot == out.op = "cancel" =>
    LET h == hist[Len(hist)]  e == regs[h.r]  x == regs[h.q] IN
    \A k \in Keys(x) : \A m \in CancelSet(e, x) :
        LET v == NetAt(e, k)  w == v + m * NetAt(x, k) IN
        (Sgn(m * NetAt(x, k)) = -Sgn(v)) => (Sgn(w) = Sgn(v) \/ w = 0)

(* state-space view for the invariant-checking configuration: hist is hidden *)
View == <<regs, cat, out, phase, Len(hist)>>

------------------------------------------------------------------------------
(* case export: every state with a non-empty history is one case; the expected observation   *)
(* of its last operation is `out`                                                             *)
LastOp == hist[Len(hist)]
Cls == LET h == LastOp IN
    IF h.op = "Scale" THEN (IF h.n < 0 THEN "Scale-neg" ELSE "Scale-pos")
    ELSE IF h.op \in {"Add", "Sub"} THEN h.op \o (IF h.r = h.q THEN "-self" ELSE "")
    ELSE IF h.op = "AsReactions" THEN (IF h.which \in RateNames THEN "AsReactions" ELSE "AsReactions-refused")
    ELSE IF h.op = "Eliminate" THEN (IF Abs(out.v[1]) = 1 /\ Abs(out.v[2]) = 1 THEN "Eliminate-unit" ELSE "Eliminate")
    ELSE h.op
CaseRec == [in |-> [hist |-> hist], exp |-> out, cls |-> Cls]
Emit == hist # <<>> => PrintT(<<"CASE", ToJson(CaseRec)>>)
=============================================================================
