INIT TInit
NEXT TNext
CONSTANTS
  NRegs = 4
  BaseSeq <- NoSeq
  BaseEq <- NoSeq
  Scales <- NoSet
  MaxLen = 0
  Queries <- NoSet
  TerminalQueries = FALSE
INVARIANT Verdict
INVARIANT TypeOK
INVARIANT Tracks
INVARIANT Positive
INVARIANT Netted
INVARIANT ElimFree
INVARIANT RatesRatio
CHECK_DEADLOCK FALSE
