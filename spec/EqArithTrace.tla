---------------------------- MODULE EqArithTrace ----------------------------
(* Trace validation for EqArith (C11).  A trace is the sequence of operations applied to     *)
(* real Equilibrium objects, each with the projected observation of its result (`obs`),     *)
(* closed by an "End" event.  Every event is replayed through the action of EqArith with   *)
(* the same name and the observation is compared with the state the action produces; for  *)
(* Eliminate and Cancel the observed answer is an argument of the action, whose guard is   *)
(* the property.  Batch protocol as in FormulaTrace.                                       *)
EXTENDS EqArith, IOUtils

Traces == JsonDeserialize(IOEnv.TRACE_FILE)

VARIABLES tid, pos, verdict
tvars == <<vars, tid, pos, verdict>>

NoSeq == <<>>
NoSet == {}
Ev == Traces[tid][pos]

TInit == Init /\ tid \in 1..Len(Traces) /\ pos = 1 /\ verdict = "none"

Clean(o) == ~o.raised /\ o.bad = ""
ObsEq(o, e) == /\ Clean(o) /\ o.reac = e.reac /\ o.prod = e.prod /\ o.kexp = e.kexp /\ o.rest = <<1, 1>>

(* the observation lists every register: none but the target may have changed *)
ObsAll(o, x) == \A r \in Regs : /\ o.all[r].loaded = Loaded(x[r])
                                  /\ (Loaded(x[r]) => ObsEq(o.all[r], x[r]))
StepOp(e) ==
    CASE e.op = "Load"  -> Load(e.r, e.b, [reac |-> e.reac, prod |-> e.prod]) /\ ObsEq(e.obs, out'.val)
      [] e.op = "Scale" -> Scale(e.r, e.n) /\ ObsEq(e.obs, out'.val)
      [] e.op = "Neg"   -> Neg(e.r) /\ ObsEq(e.obs, out'.val)
      [] e.op = "Copy"  -> Copy(e.r, e.q) /\ ObsEq(e.obs, out'.val)
      [] e.op = "Add"   -> Add(e.r, e.q) /\ ObsEq(e.obs, out'.val)
      [] e.op = "Sub"   -> Sub(e.r, e.q) /\ ObsEq(e.obs, out'.val)
      [] e.op = "Eliminate" -> Clean(e.obs) /\ Eliminate(e.r, e.q, e.s, e.obs.m[1], e.obs.m[2])
      [] e.op = "Cancel" -> Clean(e.obs) /\ Cancel(e.r, e.q, e.obs.m)
      [] e.op = "AsReactions" /\ e.which \in {"both", "none"} ->
             AsReactionsRefused(e.r, e.which) /\ e.obs.raised /\ e.obs.exc = "ValueError"
      [] e.op = "AsReactions" -> /\ AsReactions(e.r, e.which, e.c0)
                                 /\ Clean(e.obs)
                                 /\ ObsEq(e.obs.fw, out'.rx.fw) /\ ObsEq(e.obs.bw, out'.rx.bw)
      [] OTHER -> FALSE
Step(e) == StepOp(e) /\ ((~e.obs.raised /\ e.obs.bad = "") => ObsAll(e.obs, out'.all))

TStep ==
    /\ verdict = "none" /\ pos <= Len(Traces[tid])
    /\ IF Ev.op = "End"
       THEN verdict' = "accept" /\ UNCHANGED vars
       ELSE Step(Ev) /\ verdict' = "none"
    /\ pos' = pos + 1 /\ UNCHANGED tid

TReject ==
    /\ verdict = "none" /\ ~ENABLED TStep
    /\ verdict' = "reject" /\ UNCHANGED <<vars, tid, pos>>

TNext == TStep \/ TReject

(* which conjunct failed: "model:..." = the event is not an operation of the model (harness  *)
(* defect), "outside:..." = outside the property's domain (skipped), anything else = the    *)
(* observation contradicts the specification                                                *)
IsReg(r) == r \in Regs /\ Loaded(regs[r])
ExpectedReg(e) ==
    CASE e.op = "Load"  -> [reac |-> e.reac, prod |-> e.prod, kexp |-> Unit(e.b)]
      [] e.op = "Scale" -> ScaleEq(regs[e.r], e.n)
      [] e.op = "Neg"   -> ScaleEq(regs[e.r], -1)
      [] e.op = "Copy"  -> regs[e.q]
      [] e.op = "Add"   -> AddEq(regs[e.r], regs[e.q])
      [] e.op = "Sub"   -> SubEq(regs[e.r], regs[e.q])
ObsClause(o, x) ==
    IF o.raised THEN "raised:" \o o.exc
    ELSE IF o.bad # "" THEN "bad:" \o o.bad
    ELSE IF o.reac # x.reac \/ o.prod # x.prod THEN "stoichiometry"
    ELSE IF o.kexp # x.kexp THEN "constant"
    ELSE IF o.rest # <<1, 1>> THEN "constant-residue"
    ELSE "ok"
Or(c, alt) == IF c = "ok" THEN alt ELSE c
Clause ==
    IF pos > Len(Traces[tid]) THEN "model:no-end-event"
    ELSE LET e == Ev IN
      IF e.op = "Load" THEN
          (IF ~(e.r \in Regs /\ IsStoich(e.reac) /\ IsStoich(e.prod) /\ e.b \notin ReservedNames
                /\ HasEffect([reac |-> e.reac, prod |-> e.prod])) THEN "model:Load"
           ELSE ObsClause(e.obs, ExpectedReg(e)))
      ELSE IF e.op \in {"Scale", "Neg"} THEN
          (IF ~IsReg(e.r) \/ (e.op = "Scale" /\ e.n = 0) THEN "model:" \o e.op
           ELSE Or(ObsClause(e.obs, ExpectedReg(e)), "operand-changed"))
      ELSE IF e.op = "Copy" THEN
          (IF ~(e.r \in Regs /\ IsReg(e.q) /\ e.r # e.q) THEN "model:Copy"
           ELSE Or(ObsClause(e.obs, ExpectedReg(e)), "operand-changed"))
      ELSE IF e.op \in {"Add", "Sub"} THEN
          (IF ~IsReg(e.r) \/ ~IsReg(e.q) THEN "model:" \o e.op
           ELSE IF ~HasEffect(ExpectedReg(e)) THEN "outside:no-effect"
           ELSE Or(ObsClause(e.obs, ExpectedReg(e)), "operand-changed"))
      ELSE IF e.op = "Eliminate" THEN
          (IF ~IsReg(e.r) \/ ~IsReg(e.q) \/ e.r = e.q THEN "model:Eliminate"
           ELSE IF NetAt(regs[e.r], e.s) = 0 \/ NetAt(regs[e.q], e.s) = 0 THEN "outside:species-not-shared"
           ELSE IF e.obs.raised THEN "raised:" \o e.obs.exc
           ELSE IF e.obs.bad # "" THEN "bad:" \o e.obs.bad
           ELSE IF ElimOK(e.obs.m[1], e.obs.m[2], NetAt(regs[e.r], e.s), NetAt(regs[e.q], e.s)) THEN "operand-changed"
           ELSE "multipliers")
      ELSE IF e.op = "Cancel" THEN
          (IF ~IsReg(e.r) \/ ~IsReg(e.q) \/ e.r = e.q THEN "model:Cancel"
           ELSE IF ~CancelDefined(regs[e.r], regs[e.q]) THEN "outside:cancel-zero-net"
           ELSE IF e.obs.raised THEN "raised:" \o e.obs.exc
           ELSE IF e.obs.bad # "" THEN "bad:" \o e.obs.bad
           ELSE IF e.obs.m \in CancelSet(regs[e.r], regs[e.q]) THEN "operand-changed"
           ELSE "cancel-multiplier")
      ELSE IF e.op = "AsReactions" THEN
          (IF ~IsReg(e.r) \/ e.which \notin RateNames \cup {"both", "none"} \/ e.c0 \notin {"one", "c0"} THEN "model:AsReactions"
           ELSE IF e.which \in {"both", "none"} THEN
                (IF e.obs.raised THEN "refused-with:" \o e.obs.exc ELSE "not-refused")
           ELSE IF e.obs.raised THEN "raised:" \o e.obs.exc
           ELSE IF e.obs.bad # "" THEN "bad:" \o e.obs.bad
           ELSE LET x == AsRx(regs[e.r], e.which, e.c0)
                    c1 == ObsClause(e.obs.fw, x.fw)
                    c2 == ObsClause(e.obs.bw, x.bw)
                IN IF c1 # "ok" THEN "forward-" \o c1 ELSE IF c2 # "ok" THEN "backward-" \o c2 ELSE "operand-changed")
      ELSE "model:unknown-op"

Verdict == verdict # "none" =>
    PrintT(<<"VERDICT", tid, verdict, pos, IF verdict = "accept" THEN "" ELSE Clause>>)
=============================================================================
