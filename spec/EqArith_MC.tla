---------------------------- MODULE EqArith_MC ----------------------------
(* Constants for the exhaustive configurations of EqArith (C11).                            *)
EXTENDS EqArith

(* general catalog: species on opposite sides of different bases (b2/b3: C, b1/b3: A, B),    *)
(* a species on both sides of one base (b4: B), coefficient 1 everywhere in b1/b2 (the       *)
(* unit/unit elimination), coefficients 2 and 3                                              *)
CatSeq == <<"b1", "b2", "b3", "b4", "b5">>
CatEq == [b \in {"b1", "b2", "b3", "b4", "b5"} |->
    CASE b = "b1" -> [reac |-> [s \in {"A"} |-> 1], prod |-> [s \in {"B"} |-> 1]]
      [] b = "b2" -> [reac |-> [s \in {"B"} |-> 1], prod |-> [s \in {"C"} |-> 1]]
      [] b = "b3" -> [reac |-> [s \in {"A", "C"} |-> IF s = "A" THEN 2 ELSE 1], prod |-> [s \in {"B"} |-> 1]]
      [] b = "b4" -> [reac |-> [s \in {"A", "B"} |-> 1], prod |-> [s \in {"B", "D"} |-> IF s = "B" THEN 2 ELSE 1]]
      [] b = "b5" -> [reac |-> [s \in {"C"} |-> 3], prod |-> [s \in {"A", "D"} |-> IF s = "A" THEN 2 ELSE 1]]]
CatSmallSeq == <<"b1", "b2", "b3", "b4">>

S_Quick == {-2, -1, 1, 2, 3}
S_Wide == {-3, -2, -1, 1, 2, 3}
S_T == {-2, -1, 1, 3}
S_None == {}
Q_All == {"elim", "cancel", "asrx", "copy"}
Q_Elim == {"elim"}
Q_None == {}

(* elimination family: for every v in -6..6 \ {0} a base whose net coefficient of S is v;     *)
(* kind "p": S on one side only; kind "d": S on both sides (coefficients |v|+1 and 1)         *)
ElimVs == (-6..6) \ {0}
ElimName(k, v) == k \o ToString(v)
ElimNames == { ElimName(k, v) : k \in {"p", "d"}, v \in ElimVs }
ElimSeq == SetToSeq(ElimNames)
ElimOf(k, v) ==
    LET big == [s \in {"S"} |-> Abs(v) + (IF k = "d" THEN 1 ELSE 0)]
        small == IF k = "d" THEN [s \in {"S", "X"} |-> 1] ELSE [s \in {"X"} |-> 1]
    IN  IF v > 0 THEN [reac |-> small, prod |-> big] ELSE [reac |-> big, prod |-> small]
ElimEq == [n \in ElimNames |->
    LET kv == CHOOSE kv \in {"p", "d"} \X ElimVs : ElimName(kv[1], kv[2]) = n IN ElimOf(kv[1], kv[2])]
=============================================================================
