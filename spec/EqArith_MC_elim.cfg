INIT Init
NEXT Next
CONSTANTS
  NRegs = 2
  BaseSeq <- ElimSeq
  BaseEq <- ElimEq
  Scales <- S_None
  MaxLen = 3
  Queries <- Q_Elim
  TerminalQueries = TRUE

INVARIANT TypeOK
INVARIANT Tracks
INVARIANT Positive
INVARIANT Netted
INVARIANT ElimFree
INVARIANT RatesRatio
INVARIANT CancelNoOvershoot
INVARIANT CanonOK
INVARIANT Emit
CHECK_DEADLOCK FALSE
