INIT Init
NEXT Next
CONSTANTS
  NRegs = 3
  BaseSeq <- CatSmallSeq
  BaseEq <- CatEq
  Scales <- S_T
  MaxLen = 5
  Queries <- Q_All
  TerminalQueries = TRUE

INVARIANT TypeOK
INVARIANT Tracks
INVARIANT Positive
INVARIANT Netted
INVARIANT ElimFree
INVARIANT RatesRatio
INVARIANT CancelNoOvershoot
INVARIANT CanonOK
INVARIANT Emit
CHECK_DEADLOCK FALSE
