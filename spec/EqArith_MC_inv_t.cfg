INIT Init
NEXT Next
CONSTANTS
  NRegs = 3
  BaseSeq <- CatSeq
  BaseEq <- CatEq
  Scales <- S_Wide
  MaxLen = 5
  Queries <- Q_All
  TerminalQueries = TRUE
VIEW View
INVARIANT TypeOK
INVARIANT Tracks
INVARIANT Positive
INVARIANT Netted
INVARIANT ElimFree
INVARIANT RatesRatio
INVARIANT CancelNoOvershoot
INVARIANT CanonOK

CHECK_DEADLOCK FALSE
