------------------------------- MODULE EqPool -------------------------------
(* Pool of aqueous species and equilibria shared by Equilibria (C07) and EqSolve (C08).       *)
(*                                                                                            *)
(* A species is an abstract composition: a set of <<key, count>> pairs, key 0 = charge, key   *)
(* Z > 0 = atomic number.  A reaction is a set of <<species, nu>> pairs (nu < 0 reactant,     *)
(* nu > 0 product).  Nothing in here is a variable; both state machines draw from this pool   *)
(* and hand the compositions to the binding layer, which builds chempy Species objects either *)
(* with exactly these explicit compositions or from the name, which is a formula denoting the *)
(* same composition (option spf of the state machines).                                       *)
(*                                                                                            *)
(* Constant-level operators: stoichiometry / composition matrices, mass-action quotient Q,    *)
(* IsEq, Conserves, the number of equations NEq of a residual formulation.                    *)
EXTENDS Integers, Sequences, FiniteSets, FiniteSetsExt, SequencesExt, Rational, LinAlg

SpName == << "H2O", "H+", "OH-", "NH4+", "NH3", "H2CO3", "HCO3-", "CO3-2", "Cu+2", "CuNH3+2",
             "Cu(NH3)2+2", "CuOH+", "Cu2(OH)2+2", "CH3COOH", "CH3COO-",
             "Ag+", "Cl-", "AgCl(s)", "Mg+2", "Mg(OH)2(s)", "Ca+2", "F-", "CaF2(s)",
             "CuNH3OH+", "Cu(NH3)3+2" >>
SpComp == <<
    {<<1, 2>>, <<8, 1>>},                         \*  1 H2O
    {<<0, 1>>, <<1, 1>>},                         \*  2 H+
    {<<0, -1>>, <<1, 1>>, <<8, 1>>},              \*  3 OH-
    {<<0, 1>>, <<1, 4>>, <<7, 1>>},               \*  4 NH4+
    {<<1, 3>>, <<7, 1>>},                         \*  5 NH3
    {<<1, 2>>, <<6, 1>>, <<8, 3>>},               \*  6 H2CO3
    {<<0, -1>>, <<1, 1>>, <<6, 1>>, <<8, 3>>},    \*  7 HCO3-
    {<<0, -2>>, <<6, 1>>, <<8, 3>>},              \*  8 CO3-2
    {<<0, 2>>, <<29, 1>>},                        \*  9 Cu+2
    {<<0, 2>>, <<1, 3>>, <<7, 1>>, <<29, 1>>},    \* 10 CuNH3+2
    {<<0, 2>>, <<1, 6>>, <<7, 2>>, <<29, 1>>},    \* 11 Cu(NH3)2+2
    {<<0, 1>>, <<1, 1>>, <<8, 1>>, <<29, 1>>},    \* 12 CuOH+
    {<<0, 2>>, <<1, 2>>, <<8, 2>>, <<29, 2>>},    \* 13 Cu2(OH)2+2
    {<<1, 4>>, <<6, 2>>, <<8, 2>>},               \* 14 HAc
    {<<0, -1>>, <<1, 3>>, <<6, 2>>, <<8, 2>>},    \* 15 Ac-
    {<<0, 1>>, <<47, 1>>},                        \* 16 Ag+
    {<<0, -1>>, <<17, 1>>},                       \* 17 Cl-
    {<<17, 1>>, <<47, 1>>},                       \* 18 AgCl(s)
    {<<0, 2>>, <<12, 1>>},                        \* 19 Mg+2
    {<<1, 2>>, <<8, 2>>, <<12, 1>>},              \* 20 Mg(OH)2(s)
    {<<0, 2>>, <<20, 1>>},                        \* 21 Ca+2
    {<<0, -1>>, <<9, 1>>},                        \* 22 F-
    {<<9, 2>>, <<20, 1>>},                        \* 23 CaF2(s)
    {<<0, 1>>, <<1, 4>>, <<7, 1>>, <<8, 1>>, <<29, 1>>},   \* 24 CuNH3OH+
    {<<0, 2>>, <<1, 9>>, <<7, 3>>, <<29, 1>>} >>  \* 25 Cu(NH3)3+2
NSp == Len(SpName)
Solids == {18, 20, 23}          \* species in a second phase (phase_idx = 1)
AllKeys == {0, 1, 6, 7, 8, 9, 12, 17, 20, 29, 47}

(* homogeneous equilibria 1..11 and 18..27, phase-transfer equilibria 12..17 (solid as reactant: 12-14, *)
(* the same salts written with the solid as product: 15-17)                                   *)
RxNu == <<
    {<<1, -1>>, <<2, 1>>, <<3, 1>>},              \*  1 H2O = H+ + OH-
    {<<4, -1>>, <<2, 1>>, <<5, 1>>},              \*  2 NH4+ = H+ + NH3
    {<<6, -1>>, <<2, 1>>, <<7, 1>>},              \*  3 H2CO3 = H+ + HCO3-
    {<<7, -1>>, <<2, 1>>, <<8, 1>>},              \*  4 HCO3- = H+ + CO3-2
    {<<9, -1>>, <<5, -1>>, <<10, 1>>},            \*  5 Cu+2 + NH3 = CuNH3+2
    {<<10, -1>>, <<5, -1>>, <<11, 1>>},           \*  6 CuNH3+2 + NH3 = Cu(NH3)2+2
    {<<9, -1>>, <<5, -2>>, <<11, 1>>},            \*  7 Cu+2 + 2 NH3 = Cu(NH3)2+2
    {<<9, -1>>, <<3, -1>>, <<12, 1>>},            \*  8 Cu+2 + OH- = CuOH+
    {<<9, -2>>, <<3, -2>>, <<13, 1>>},            \*  9 2 Cu+2 + 2 OH- = Cu2(OH)2+2
    {<<14, -1>>, <<2, 1>>, <<15, 1>>},            \* 10 HAc = H+ + Ac-
    {<<1, -1>>, <<5, -1>>, <<4, 1>>, <<3, 1>>},   \* 11 H2O + NH3 = NH4+ + OH-
    {<<18, -1>>, <<16, 1>>, <<17, 1>>},           \* 12 AgCl(s) = Ag+ + Cl-
    {<<20, -1>>, <<19, 1>>, <<3, 2>>},            \* 13 Mg(OH)2(s) = Mg+2 + 2 OH-
    {<<23, -1>>, <<21, 1>>, <<22, 2>>},           \* 14 CaF2(s) = Ca+2 + 2 F-
    {<<16, -1>>, <<17, -1>>, <<18, 1>>},          \* 15 Ag+ + Cl- = AgCl(s)
    {<<19, -1>>, <<3, -2>>, <<20, 1>>},           \* 16 Mg+2 + 2 OH- = Mg(OH)2(s)
    {<<21, -1>>, <<22, -2>>, <<23, 1>>},          \* 17 Ca+2 + 2 F- = CaF2(s)
    \* single-equilibrium shapes beyond 1:1:1 (C08, comparison with the bracketing solver):
    \* coefficients 2 and 3 on either side, three products, two species on both sides
    {<<11, -1>>, <<9, 1>>, <<5, 2>>},             \* 18 Cu(NH3)2+2 = Cu+2 + 2 NH3
    {<<13, -1>>, <<9, 2>>, <<3, 2>>},             \* 19 Cu2(OH)2+2 = 2 Cu+2 + 2 OH-
    {<<24, -1>>, <<9, 1>>, <<5, 1>>, <<3, 1>>},   \* 20 CuNH3OH+ = Cu+2 + NH3 + OH-
    {<<25, -1>>, <<9, 1>>, <<5, 3>>},             \* 21 Cu(NH3)3+2 = Cu+2 + 3 NH3
    {<<9, -1>>, <<5, -3>>, <<25, 1>>},            \* 22 Cu+2 + 3 NH3 = Cu(NH3)3+2
    {<<7, -2>>, <<6, 1>>, <<8, 1>>},              \* 23 2 HCO3- = H2CO3 + CO3-2
    {<<5, -1>>, <<7, -1>>, <<4, 1>>, <<8, 1>>},   \* 24 NH3 + HCO3- = NH4+ + CO3-2
    {<<13, -1>>, <<2, -2>>, <<9, 2>>, <<1, 2>>},  \* 25 Cu2(OH)2+2 + 2 H+ = 2 Cu+2 + 2 H2O
    {<<11, -1>>, <<2, -2>>, <<9, 1>>, <<4, 2>>},  \* 26 Cu(NH3)2+2 + 2 H+ = Cu+2 + 2 NH4+
    {<<25, -1>>, <<10, 1>>, <<5, 2>>} >>          \* 27 Cu(NH3)3+2 = CuNH3+2 + 2 NH3
NRx == Len(RxNu)
HomogRx == 1..11
ShapeRx == 18..27

------------------------------------------------------------------------------
CompAt0(s, k) == LET m == {p \in SpComp[s] : p[1] = k} IN IF m = {} THEN 0 ELSE (CHOOSE p \in m : TRUE)[2]
Nu0(r, s) == LET m == {p \in RxNu[r] : p[1] = s} IN IF m = {} THEN 0 ELSE (CHOOSE p \in m : TRUE)[2]
\* constant tables (TLC evaluates zero-arity constant definitions once)
CompTab == [s \in 1..NSp |-> [k \in AllKeys |-> CompAt0(s, k)]]
NuTab == [r \in 1..NRx |-> [s \in 1..NSp |-> Nu0(r, s)]]
CompAt(s, k) == CompTab[s][k]
Nu(r, s) == NuTab[r][s]
RxSpecies(r) == {p[1] : p \in RxNu[r]}
IsPhaseTransfer(r) == RxSpecies(r) \cap Solids # {}
SolidOf(r) == CHOOSE s \in RxSpecies(r) \cap Solids : TRUE

\* species of a system = species of its reactions, in pool order
SysSpecies(R) == UNION {RxSpecies(r) : r \in R}
SpSeq(R) == SetToSortSeq(SysSpecies(R), <)
RxSeq(R) == SetToSortSeq(R, <)
\* composition keys present among the species of a system (charge key only if some species is charged)
KeysOf(sp) == {k \in AllKeys : \E s \in sp : CompAt(s, k) # 0}
KeySeq(sp) == SetToSortSeq(KeysOf(sp), <)

\* integer matrices (sequences of rows) over the system's species order
NuMatrix(R) == LET rs == RxSeq(R)  ss == SpSeq(R)
               IN [i \in 1..Len(rs) |-> [j \in 1..Len(ss) |-> Nu(rs[i], ss[j])]]
CompMatrix(sp) == LET ks == KeySeq(sp)  ss == SetToSortSeq(sp, <)
                  IN [i \in 1..Len(ks) |-> [j \in 1..Len(ss) |-> CompAt(ss[j], ks[i])]]

\* every reaction of the pool conserves every key (elements and charge)
RxBalanced(r) == \A k \in AllKeys : SumSeq([j \in 1..NSp |-> Nu(r, j) * CompAt(j, k)]) = 0
PoolBalanced == \A r \in 1..NRx : RxBalanced(r)
ASSUME PoolBalanced
ASSUME Len(SpComp) = NSp /\ \A r \in 1..NRx : RxSpecies(r) \subseteq 1..NSp

Independent(R) == Rank(NuMatrix(R)) = Cardinality(R)

(* Everything a state machine needs to know about a system, computed once when the system is  *)
(* chosen: ss species (pool indices, ascending), rs reactions, ks composition keys, nu the     *)
(* stoichiometry matrix (reactions x species), B the composition matrix (keys x species),     *)
(* rankB its rank, solid the positions (in ss) of second-phase species.                       *)
SysInfo(R) ==
    LET sp == SysSpecies(R)  B == CompMatrix(sp)  ss == SpSeq(R) IN
    [ss |-> ss, rs |-> RxSeq(R), ks |-> KeySeq(sp), nu |-> NuMatrix(R), B |-> B, rankB |-> Rank(B),
     solid |-> {j \in 1..Len(ss) : ss[j] \in Solids}]
NoSys == [ss |-> <<>>, rs |-> <<>>, ks |-> <<>>, nu |-> <<>>, B |-> <<>>, rankB |-> 0, solid |-> {}]

------------------------------------------------------------------------------
(* States are sequences of rationals <<n, d>> over the system's species (order ss).           *)
(* A quotient needs non-zero concentrations where nu < 0.                                     *)
Quotient(nurow, c) ==
    LET idx == SetToSortSeq({j \in 1..Len(nurow) : nurow[j] # 0}, <)
    IN  QProdSeq([t \in 1..Len(idx) |-> QPow(c[idx[t]], nurow[idx[t]])])
Total(brow, c) ==
    LET idx == SetToSortSeq({j \in 1..Len(brow) : brow[j] # 0}, <)
    IN  QSumSeq([t \in 1..Len(idx) |-> QMul(Q(brow[idx[t]]), c[idx[t]])])
IsEq(sys, c, K) == \A i \in 1..Len(sys.nu) : QEq(Quotient(sys.nu[i], c), K[i])
Conserves(sys, c, cinit) == \A i \in 1..Len(sys.B) : QEq(Total(sys.B[i], c), Total(sys.B[i], cinit))
ExpectedZero(sys, c, cinit, K) == IsEq(sys, c, K) /\ Conserves(sys, c, cinit)

\* number of equations of a residual formulation: one per reaction plus one per conservation
\* relation - all composition keys, or only independent ones when that block is row-reduced
NEq(sys, rrefPreserv) == Len(sys.nu) + (IF rrefPreserv THEN sys.rankB ELSE Len(sys.B))

AllPos(c) == \A j \in 1..Len(c) : c[j][1] > 0
AllNonNegQ(c) == \A j \in 1..Len(c) : c[j][1] >= 0
=============================================================================
