------------------------------- MODULE EqSolve -------------------------------
(* Equilibrium solving (property C08): "whenever a calculation reports success and a sane     *)
(* result, the returned concentrations are genuine".                                          *)
(*                                                                                            *)
(* Three things live here, one source of truth for all of them:                               *)
(*  (1) the PROBLEM POOL: PickSystem / ShiftK / PickInit enumerate acid-base / complexation   *)
(*      subsets of EqPool with constants shifted over decades and initial compositions, and   *)
(*      single-salt precipitation systems; every posed problem is one CASE for the binding    *)
(*      layer, with the class (well-conditioned or not) decided here;                         *)
(*  (2) the SOLVER RUN as a state machine mirroring pyneqsys.ConditionalNeqSys.solve as used  *)
(*      by EqSystem.root/_solve/roots: Begin, EvalFw / EvalBw (the two asymmetric switching   *)
(*      conditions), SolveWith (x' is whatever the numerical solver returned), Switch,        *)
(*      Terminate, GiveUp, Report (the public result x, success, sane);                       *)
(*  (3) the JUDGEMENT of observed numbers: Genuine, SaneOK, FwOK, BwOK, DissolveOK, Close,    *)
(*      RateOK - integer arithmetic over encoded floats with guard bands.                     *)
(* EqSolve_MC model-checks (2)+(3) on a coarse grid with an ideal solver (NoOscillation,      *)
(* TerminalIsGenuine); EqSolveTrace replays recorded executions of the real code through the  *)
(* same actions.                                                                              *)
(*                                                                                            *)
(* ENCODING of a float vector v (binding layer, eq_common.enc_vec), scale S = 10^s >= total   *)
(* initial concentration:   v_j / S * 10^12 = h_j * 10^6 + l_j  (nearest integer, 0 <= l_j <  *)
(* 10^6, h_j may be negative, |h_j| clipped to 10^7);  ln_j = round(10^6 ln v_j) if v_j > 0   *)
(* (pos_j), else 0.  One "unit" is 10^-12 S.  All sums below stay inside 32 bit.              *)
EXTENDS EqPool, TLC, Json

CONSTANTS
    HomogIds,     \* homogeneous reactions problems are drawn from
    MaxHomog,     \* maximal number of homogeneous reactions in a problem
    SaltIds,      \* phase-transfer reactions (a salt problem has exactly one of them)
    SaltWith,     \* set of sets of homogeneous reactions a salt may be combined with
    KShifts,      \* decades by which a constant is shifted
    SaltKShifts,  \* decades by which a solubility product is RAISED (both orientations): unsaturated salts
    InitSeq,      \* sequence of <<m, e>>: initial concentrations m * 10^e (solutes)
    InitPatterns, \* set of <<a, b>>: species s gets InitSeq[((a*s + b) % Len(InitSeq)) + 1]
    SolidInits,   \* set of <<m, e>> for the solid phase
    GuessShifts,  \* pattern shifts defining the explicit starting guess handed to the solver
    GridProblems, \* coarse-grid problems for the switching model (EqSolve_MC)
    GridStates,   \* coarse-grid encoded states the ideal solver may return
    MaxChain      \* number of conditional runs in a chain (model)

VARIABLES phase, sys, kshift, init, lnK, c0, x, conds, nconds, solved, succ, iter, maxiter, runs, out, sexp, guess
vars == <<phase, sys, kshift, init, lnK, c0, x, conds, nconds, solved, succ, iter, maxiter, runs, out, sexp, guess>>

LIMB == 1000000
BIG == 2000000000
NoVec == [h |-> <<>>, l |-> <<>>, ln |-> <<>>, pos |-> <<>>]
NoOut == [x |-> NoVec, ok |-> FALSE, sane |-> FALSE, exc |-> FALSE]
NS == Len(sys.ss)
NR == Len(sys.rs)
\* phase-transfer reactions of the system (positions in sys.rs), in order; conds is indexed alike
PT == SetToSortSeq({i \in 1..NR : IsPhaseTransfer(sys.rs[i])}, <)
Hom == {i \in 1..NR : ~IsPhaseTransfer(sys.rs[i])}
PTPos(i) == CHOOSE t \in 1..Len(PT) : PT[t] = i
SolidPos(i) == CHOOSE j \in sys.solid : sys.nu[i][j] # 0
Ions(i) == {j \in 1..NS : sys.nu[i][j] # 0 /\ j \notin sys.solid}

BaseK == << <<18, -17>>, <<55, -11>>, <<45, -8>>, <<47, -12>>, <<1, 4>>, <<3, 3>>, <<3, 7>>, <<1, 6>>,
            <<2, 17>>, <<18, -6>>, <<32, -8>>, <<18, -11>>, <<56, -13>>, <<35, -12>>, <<56, 8>>,
            <<18, 10>>, <<29, 9>>,
            <<33, -9>>, <<5, -18>>, <<1, -10>>, <<1, -10>>, <<1, 10>>, <<1, -4>>, <<85, -3>>, <<1, 6>>,
            <<1, 10>>, <<1, -6>> >>
Water == <<555, -1>>
ASSUME Len(BaseK) = NRx

Init ==
    /\ phase = "pick" /\ sys = NoSys /\ kshift = <<>> /\ init = <<>> /\ lnK = <<>> /\ c0 = NoVec /\ x = NoVec
    /\ conds = <<>> /\ nconds = <<>> /\ solved = FALSE /\ succ = FALSE /\ iter = 0 /\ maxiter = 20
    /\ runs = 0 /\ out = NoOut /\ sexp = 0 /\ guess = <<>>

------------------------------------------------------------------------------
(* (1) the problem pool *)
Admissible(S) ==
    /\ S # {} /\ Independent(S)
    /\ Cardinality({r \in S : IsPhaseTransfer(r)}) <= 1

\* the mass-action laws and the conservation relations together determine the state: as many
\* independent equations as species.  Otherwise a reaction the elements allow is missing from the
\* system (e.g. H+ and OH- present without the water equilibrium), Q = K, B c = B c0 has a continuum
\* of solutions and the problem is not posed.
DeterminedSys(si) == si.rankB + Len(si.rs) = Len(si.ss)

PickSystem(S) ==
    /\ phase = "pick" /\ Admissible(S) /\ DeterminedSys(SysInfo(S))
    /\ sys' = SysInfo(S) /\ phase' = "shift"
    /\ UNCHANGED <<kshift, init, lnK, c0, x, conds, nconds, solved, succ, iter, maxiter, runs, out, sexp, guess>>

ShiftK(d) ==
    /\ phase = "shift" /\ Len(kshift) < NR
    /\ kshift' = Append(kshift, d)
    /\ phase' = IF Len(kshift') = NR THEN "init" ELSE "shift"
    /\ UNCHANGED <<sys, init, lnK, c0, x, conds, nconds, solved, succ, iter, maxiter, runs, out, sexp, guess>>

\* initial composition: water 55.5, the solid from SolidInits, solutes by a pattern over InitSeq
\* every element of the system is present initially
ElementsPresent(ini) ==
    \A k \in 1..Len(sys.B) : sys.ks[k] # 0 => \E j \in 1..NS : sys.B[k][j] > 0 /\ ini[j][1] > 0

\* A starting guess x0 may accompany a problem (continuation / titration loops hand over the previous
\* solution): here the composition the NEXT pattern would give - a different mixture with different
\* elemental totals.  A guess is only a guess: the result is judged against init, never against it.
PickInit(a, b, sol, g) ==
    /\ phase = "init" /\ Len(InitSeq) > 0
    /\ LET pat(sh) == [j \in 1..NS |->
                          IF sys.ss[j] = 1 THEN Water
                          ELSE IF j \in sys.solid THEN sol
                          ELSE InitSeq[((a * sys.ss[j] + b + sh) % Len(InitSeq)) + 1]]
       IN  /\ ElementsPresent(pat(0)) = TRUE     \* (compared with TRUE: evaluated, not enumerated)
           /\ ElementsPresent(pat(g)) = TRUE     \* the guess doubles as a second problem for a re-used solver
           /\ init' = pat(0)
           /\ guess' = pat(g)
    /\ phase' = "posed"
    /\ UNCHANGED <<sys, kshift, lnK, c0, x, conds, nconds, solved, succ, iter, maxiter, runs, out, sexp>>

Posed == phase = "posed"
ProblemK == [i \in 1..NR |-> <<BaseK[sys.rs[i]][1], BaseK[sys.rs[i]][2] + kshift[i]>>]
Homogeneous == sys.solid = {}
\* "well-conditioned homogeneous system with strictly positive initial concentrations": every
\* solute between 1e-4 and 1e-1, constants within one decade of the tabulated ones
Determined == DeterminedSys(sys)
WellConditioned ==
    /\ Homogeneous /\ Determined
    /\ \A i \in 1..NR : kshift[i] \in {-1, 0, 1}
    /\ \A j \in 1..NS : init[j][1] > 0 /\ (sys.ss[j] # 1 => init[j][2] \in -4..-2 /\ init[j][1] \in 1..9)
(* Is the salt of a posed problem saturated?  Decided here, in decimal arithmetic on m * 10^e with   *)
(* two-digit mantissas rounded outwards: the ion product of the FULLY DISSOLVED initial state against *)
(* the solubility product.  "unsat": the upper bound of the ion product is below Ksp (no solid at     *)
(* equilibrium), "sat": the lower bound is above, "marginal" otherwise.                               *)
RECURSIVE TwoDigits(_, _, _)
TwoDigits(m, e, up) == IF m < 100 THEN <<m, e>> ELSE TwoDigits((m + (IF up THEN 9 ELSE 0)) \div 10, e + 1, up)
\* m1*10^e1 + k * m2*10^e2  (k >= 0), as <<m, e>> with e = min(e1, e2); exponent gaps stay small here
DecAdd(a, k, b) ==
    IF k = 0 \/ b[1] = 0 THEN a ELSE IF a[1] = 0 THEN <<k * b[1], b[2]>>
    ELSE LET e == IF a[2] < b[2] THEN a[2] ELSE b[2]
         IN  <<a[1] * IPow(10, a[2] - e) + k * b[1] * IPow(10, b[2] - e), e>>
DecLess(a, b) ==       \* a < b for non-negative decimals with mantissas < 10^7
    IF a[1] = 0 THEN b[1] > 0 ELSE IF b[1] = 0 THEN FALSE
    ELSE IF a[2] - b[2] > 7 THEN FALSE ELSE IF b[2] - a[2] > 7 THEN TRUE
    ELSE LET e == IF a[2] < b[2] THEN a[2] ELSE b[2]
         IN  a[1] * IPow(10, a[2] - e) < b[1] * IPow(10, b[2] - e)
IonProductBound(i, up) ==
    LET s == SolidPos(i)
        per == IF sys.nu[i][s] < 0 THEN -sys.nu[i][s] ELSE sys.nu[i][s]
        js == SetToSortSeq(Ions(i), <)
        d(j) == TwoDigits(DecAdd(init[j], Abs(sys.nu[i][j]) \div per, init[s])[1],
                          DecAdd(init[j], Abs(sys.nu[i][j]) \div per, init[s])[2], up)
        RECURSIVE Prod(_)
        Prod(t) == IF t = 0 THEN <<1, 0>>
                   ELSE LET p == Prod(t - 1)  dj == d(js[t])  n == Abs(sys.nu[i][js[t]])
                        IN  TwoDigits(p[1] * IPow(dj[1], n), p[2] + n * dj[2], up)
    IN  Prod(Len(js))
\* the solubility product as ion product constant, whichever way the salt is written
Ksp(i) == LET k == ProblemK[i] IN IF sys.nu[i][SolidPos(i)] < 0 THEN k ELSE <<1, -k[2] - 2>>  \* lower bound of 1/K
KspUp(i) == LET k == ProblemK[i] IN IF sys.nu[i][SolidPos(i)] < 0 THEN k ELSE <<1, -k[2]>>     \* upper bound of 1/K
Saturation ==
    IF Homogeneous THEN "none"
    ELSE LET i == PT[1] IN
         IF DecLess(IonProductBound(i, TRUE), Ksp(i)) THEN "unsat"
         ELSE IF DecLess(KspUp(i), IonProductBound(i, FALSE)) THEN "sat"
         ELSE "marginal"

\* required success rate of the default solver chain on well-conditioned problems
RateNum == 19
RateDen == 20
RateOK(nok, n) == n > 0 /\ RateDen * nok >= RateNum * n

GenPickHomog == phase = "pick" /\ \E k \in 1..MaxHomog : \E S \in kSubset(k, HomogIds) : PickSystem(S)
GenPickSalt == phase = "pick" /\ \E r \in SaltIds, W \in SaltWith : PickSystem({r} \cup W)
\* a solubility product is shifted towards "more soluble" whichever way the salt is written
GenShiftK ==
    /\ phase = "shift" /\ Len(kshift) < NR
    /\ LET i == Len(kshift) + 1 IN
       IF IsPhaseTransfer(sys.rs[i])
       THEN \E d \in SaltKShifts : ShiftK(IF sys.nu[i][SolidPos(i)] < 0 THEN d ELSE -d)
       ELSE \E d \in KShifts : ShiftK(d)
GenPickInit == \E p \in InitPatterns, sol \in SolidInits, g \in GuessShifts : PickInit(p[1], p[2], sol, g)

------------------------------------------------------------------------------
(* (3) judgement over encoded vectors *)
AbsI(n) == IF n < 0 THEN -n ELSE n
\* value (in units) of SUM_j a_j v_j as a pair <<H, L>>: H * 10^6 + L
LinForm(a, v) == << SumSeq([j \in 1..Len(a) |-> a[j] * v.h[j]]), SumSeq([j \in 1..Len(a) |-> a[j] * v.l[j]]) >>
\* the integer H * 10^6 + L, saturated at +-BIG (2e9) so that it always fits
ClipHL(H, L) ==
    LET H2 == H + (L \div LIMB)  L2 == L % LIMB
    IN  IF H2 >= 2000 THEN BIG ELSE IF H2 <= -2000 THEN -BIG ELSE H2 * LIMB + L2
LinDiff(a, v, b, w) == LET p == LinForm(a, v)  q == LinForm(b, w) IN ClipHL(p[1] - q[1], p[2] - q[2])
UnitsOf(v, j) == ClipHL(v.h[j], v.l[j])
AbsRow(row) == [j \in 1..Len(row) |-> AbsI(row[j])]
RowSum(row) == SumSeq(AbsRow(row))

\* micro-ln of the mass-action quotient of reaction i over the species in cols
LnQ(i, v, cols) == SumSeq([j \in 1..NS |-> IF j \in cols THEN sys.nu[i][j] * v.ln[j] ELSE 0])
AllPosIn(v, cols) == \A j \in cols : v.pos[j]
Participants(i) == {j \in 1..NS : sys.nu[i][j] # 0}

BandLnQ == 200      \* |ln Q - ln K| <= 2e-4 counts as Q = K
BandFw == 20        \* rounding of the micro-ln encoding around the switching threshold
BandZero == 2       \* |amount| <= 2 units (2e-12 of the scale) is rounding: sign not decidable
BandAbsent == 1000  \* a phase of at most 1e-9 of the scale counts as absent (NumSysLog keeps 2.3e-16 M)

NegSure(v) == \E j \in 1..NS : UnitsOf(v, j) < -BandZero
NonNeg(v) == ~NegSure(v)

\* element / charge totals: |SUM_j B_kj (v_j - c0_j)| <= 1e-6 * SUM_j |B_kj| c0_j  (+ rounding)
\* (the terms that are summed set the scale: those of the initial state and those of the result - ions that
\*  start at exactly zero still give a charge total formed from finite terms)
BandTot(k, v) == SumSeq([j \in 1..NS |-> AbsI(sys.B[k][j]) * (AbsI(c0.h[j]) + AbsI(v.h[j]) + 1)]) + RowSum(sys.B[k]) + 2
KeepsTotals(v) == \A k \in 1..Len(sys.B) : AbsI(LinDiff(sys.B[k], v, sys.B[k], c0)) <= BandTot(k, v)

\* upper bound of species j from element k (not charge): B_kj v_j <= T_k (1 + 1e-9)
ElemRows == {k \in 1..Len(sys.B) : sys.ks[k] # 0}
BandOver(k, j) == (SumSeq([i \in 1..NS |-> sys.B[k][i] * (AbsI(c0.h[i]) + 1)]) \div 1000) + RowSum(sys.B[k]) + sys.B[k][j] + 2
OverSure(v) ==
    \E k \in ElemRows, j \in 1..NS :
        /\ sys.B[k][j] > 0
        /\ LinDiff([i \in 1..NS |-> IF i = j THEN sys.B[k][j] ELSE 0], v, sys.B[k], c0) > BandOver(k, j)
\* the reported flag may only say "sane" when the result is in range (guard band: +-2 units)
SaneOK(v, sn) == sn => (~NegSure(v) /\ ~OverSure(v))

QEqK(i, v, cols) == AllPosIn(v, cols) /\ AbsI(LnQ(i, v, cols) - lnK[i]) <= BandLnQ
\* the ion product does not exceed the solubility product (direction depends on the side of the solid)
NotSupersat(i, v) ==
    LET d == LnQ(i, v, Ions(i)) - lnK[i] IN
    \/ ~AllPosIn(v, Ions(i))          \* an ion is absent: nothing can precipitate
    \/ IF sys.nu[i][SolidPos(i)] < 0 THEN d <= BandLnQ ELSE d >= -BandLnQ
SaltOK(i, v) ==
    LET u == UnitsOf(v, SolidPos(i)) IN
    \/ u >= 1 /\ QEqK(i, v, Ions(i))                      \* solid present, solubility product met
    \/ AbsI(u) <= BandAbsent /\ NotSupersat(i, v)         \* solid absent, not supersaturated

Genuine(v) ==
    /\ NonNeg(v)
    /\ KeepsTotals(v)
    /\ \A i \in Hom : QEqK(i, v, Participants(i))
    /\ \A t \in 1..Len(PT) : SaltOK(PT[t], v)
GenuineClause(v) ==
    IF ~NonNeg(v) THEN "negative"
    ELSE IF ~KeepsTotals(v) THEN "totals"
    ELSE IF ~(\A i \in Hom : QEqK(i, v, Participants(i))) THEN "quotient"
    ELSE IF ~(\A t \in 1..Len(PT) : SaltOK(PT[t], v)) THEN "salt"
    ELSE ""

\* what the numerical solver is asked to solve for a given vector of conditions
SolvesFor(cnd, v) ==
    /\ KeepsTotals(v)
    /\ \A i \in Hom : QEqK(i, v, Participants(i))
    /\ \A t \in 1..Len(PT) :
          IF cnd[t] THEN QEqK(PT[t], v, Ions(PT[t]))
          ELSE AbsI(UnitsOf(v, SolidPos(PT[t]))) <= BandZero

\* vd is v with the solid of reaction i dissolved completely:  vd_j = v_j - v_s nu_j / nu_s
DissolveOK(i, v, vd) ==
    LET s == SolidPos(i)  ns == sys.nu[i][s]
        unit(j) == [t \in 1..NS |-> IF t = j THEN 1 ELSE 0]
    IN  \A j \in 1..NS :
          IF j = s THEN AbsI(UnitsOf(vd, s)) <= BandZero
          ELSE LET a == [t \in 1..NS |-> IF t = j THEN ns ELSE IF t = s THEN -sys.nu[i][j] ELSE 0]
                   d == LinDiff([t \in 1..NS |-> IF t = j THEN ns ELSE 0], vd, a, v)
               IN  AbsI(d) <= AbsI(ns) + AbsI(sys.nu[i][j]) + 3 + (AbsI(v.h[j]) + AbsI(v.h[s])) \div 1000
InModel(v) == \A j \in 1..NS : AbsI(v.h[j]) < 10000000   \* not clipped by the encoder

\* forward condition (no precipitate so far): precipitate iff the fully dissolved state is supersaturated
Supersat(i, vd) ==
    /\ AllPosIn(vd, Ions(i))
    /\ LET d == LnQ(i, vd, Ions(i)) - lnK[i] IN IF sys.nu[i][SolidPos(i)] < 0 THEN d > 0 ELSE d < 0
FwOK(i, v, vd, verdict) ==
    \/ ~InModel(v) \/ NegSure(vd)                                  \* garbage state: no expectation
    \/ /\ DissolveOK(i, v, vd)
       /\ \/ verdict = Supersat(i, vd)
          \/ AllPosIn(vd, Ions(i)) /\ AbsI(LnQ(i, vd, Ions(i)) - lnK[i]) <= BandFw
\* backward condition (precipitate so far): it stays iff its amount is not negative
BwExpected(i, v) == UnitsOf(v, SolidPos(i)) >= 0
\* (guard band: an amount that counts as absent - at most 1e-9 of the scale, cf. SaltOK - may be
\* dropped or kept; the code compares with an absolute threshold of its own, 2.3e-16 mol/l for NumSysLog)
BwOK(i, v, verdict) ==
    LET u == UnitsOf(v, SolidPos(i)) IN
    \/ AbsI(u) <= BandAbsent
    \/ verdict = (u > 0)

\* The bracketing scalar solver (brentq on the reaction coordinate) locates the coordinate to an
\* ABSOLUTE tolerance (scipy xtol = 2e-12 mol/l, taken four-fold): every concentration carries that
\* absolute uncertainty.  In units of the encoding: 8e-12 / 10^(sexp-12) (+ rounding).
AbsTolUnits == IF sexp >= 0 THEN 2 ELSE 8 * IPow(10, -sexp) + 2
\* a concentration within ten tolerances of zero (the solver may return exactly 0.0 there) cannot
\* be held to a quotient at all
NearZero(w, j) == w.h[j] < 1 /\ AbsTolUnits * 10 >= w.l[j]
\* micro-ln uncertainty of concentration j of w caused by AbsTolUnits
LnSlack(w, j) ==
    IF w.h[j] >= 1 THEN (AbsTolUnits \div w.h[j]) + 1
    ELSE (((AbsTolUnits * 1000) \div w.l[j]) + 1) * 1000
QEqKAbs(i, w, dl) ==
    LET cols == Participants(i) IN
    \/ \E j \in cols : NearZero(w, j)
    \/ /\ AllPosIn(w, cols)
       /\ AbsI(LnQ(i, w, cols) - (lnK[i] - dl)) <=
              BandLnQ + SumSeq([j \in 1..NS |-> IF j \in cols THEN AbsI(sys.nu[i][j]) * LnSlack(w, j) ELSE 0])
\* Genuine, with Q = K held to the solver's absolute accuracy
GenuineAbs(w, dl) == NonNeg(w) /\ KeepsTotals(w) /\ \A i \in Hom : QEqKAbs(i, w, dl)

\* two results agree: every concentration within the absolute band (units) or 1e-3 relative
BandClose == 1000
Close(v, w, band) ==
    \A j \in 1..NS :
        \/ AbsI(LinDiff([t \in 1..NS |-> IF t = j THEN 1 ELSE 0], v, [t \in 1..NS |-> IF t = j THEN 1 ELSE 0], w)) <= band
        \/ v.pos[j] /\ w.pos[j] /\ AbsI(v.ln[j] - w.ln[j]) <= BandClose

------------------------------------------------------------------------------
(* (2) the solver run *)
\* se: decimal exponent of the encoding scale (one unit = 10^(se - 12) mol/l)
Pose(S, lnk, v0, se) ==
    /\ phase = "pick" /\ Admissible(S)
    /\ sys' = SysInfo(S) /\ lnK' = lnk /\ c0' = v0 /\ sexp' = se /\ phase' = "idle"
    /\ Len(lnk) = Cardinality(S)
    /\ UNCHANGED <<kshift, init, x, conds, nconds, solved, succ, iter, maxiter, runs, out, guess>>

AllFalse == [t \in 1..Len(PT) |-> FALSE]

\* a conditional run starts from guess v; the conditions are either handed over (chained runs)
\* or evaluated at v with the forward rules
Begin(v, given, cnd, mx) ==
    /\ phase \in {"idle", "term"}
    /\ x' = v /\ iter' = 0 /\ maxiter' = mx /\ solved' = FALSE /\ nconds' = <<>> /\ runs' = runs + 1
    /\ IF given THEN Len(cnd) = Len(PT) /\ conds' = cnd /\ phase' = "solve"
       ELSE conds' = AllFalse /\ phase' = "eval"
    /\ UNCHANGED <<sys, kshift, init, lnK, c0, succ, out, sexp, guess>>

\* the next condition to evaluate is number Len(nconds)+1; which rule applies depends on conds
EvalFw(i, vd, verdict) ==
    /\ phase = "eval" /\ Len(nconds) < Len(PT) /\ PT[Len(nconds) + 1] = i /\ ~conds[Len(nconds) + 1]
    /\ FwOK(i, x, vd, verdict)
    /\ nconds' = Append(nconds, verdict)
    /\ UNCHANGED <<phase, sys, kshift, init, lnK, c0, x, conds, solved, succ, iter, maxiter, runs, out, sexp, guess>>

EvalBw(i, verdict) ==
    /\ phase = "eval" /\ Len(nconds) < Len(PT) /\ PT[Len(nconds) + 1] = i /\ conds[Len(nconds) + 1]
    /\ BwOK(i, x, verdict)
    /\ nconds' = Append(nconds, verdict)
    /\ UNCHANGED <<phase, sys, kshift, init, lnK, c0, x, conds, solved, succ, iter, maxiter, runs, out, sexp, guess>>

Evaluated == phase = "eval" /\ Len(nconds) = Len(PT)

\* first evaluation of a run (nothing solved yet): adopt the conditions
Adopt ==
    /\ Evaluated /\ ~solved
    /\ conds' = nconds /\ nconds' = <<>> /\ phase' = "solve"
    /\ UNCHANGED <<sys, kshift, init, lnK, c0, x, solved, succ, iter, maxiter, runs, out, sexp, guess>>

\* the numerical solver returns vn for the system selected by cnd (several NumSys may be chained)
\* A STATIC run (neqsys type "static_conditions") never begins a conditional run (runs = 0): the
\* caller fixes the conditions - precipitates=(TRUE,) for a salt he knows to be saturated, (FALSE,) for an
\* unsaturated one - nothing is evaluated or switched, and several formulations may be chained.
SolveWith(cnd, vn, ok) ==
    IF runs = 0
    THEN /\ phase \in {"idle", "term"} /\ Len(cnd) = Len(PT)
         /\ phase = "term" => cnd = conds
         /\ conds' = cnd /\ x' = vn /\ succ' = ok /\ solved' = TRUE /\ nconds' = <<>> /\ phase' = "term"
         /\ UNCHANGED <<sys, kshift, init, lnK, c0, iter, maxiter, runs, out, sexp, guess>>
    ELSE /\ (phase = "solve" \/ (phase = "eval" /\ solved /\ nconds = <<>>))
         /\ iter < maxiter
         /\ cnd = conds
         /\ x' = vn /\ succ' = ok /\ solved' = TRUE /\ nconds' = <<>>
         /\ phase' = "eval"
         /\ UNCHANGED <<sys, kshift, init, lnK, c0, conds, iter, maxiter, runs, out, sexp, guess>>

Switch ==
    /\ Evaluated /\ solved /\ nconds # conds
    /\ conds' = nconds /\ nconds' = <<>> /\ iter' = iter + 1 /\ solved' = FALSE
    /\ phase' = "solve"
    /\ UNCHANGED <<sys, kshift, init, lnK, c0, x, succ, maxiter, runs, out, sexp, guess>>

Terminate ==
    /\ Evaluated /\ solved /\ nconds = conds
    /\ phase' = "term"
    /\ UNCHANGED <<sys, kshift, init, lnK, c0, x, conds, nconds, solved, succ, iter, maxiter, runs, out, sexp, guess>>

GiveUp ==
    /\ phase = "solve" /\ iter >= maxiter
    /\ phase' = "fail"
    /\ UNCHANGED <<sys, kshift, init, lnK, c0, x, conds, nconds, solved, succ, iter, maxiter, runs, out, sexp, guess>>

\* the public result.  Only "success and sane" is a claim.  judged: TRUE for the library's own
\* formulations (the claim implies Genuine), FALSE for a deliberately wrong stub formulation (the claim
\* only implies what "sane" means: non-negative and below the elemental upper bounds)
\* intact: the arguments of the call (initial concentrations, guess) and earlier results of the same object
\* are what they were before the call (frame property: a calculation changes only what it returns)
Report(vr, ok, sn, exc, isnan, judged, intact) ==
    /\ IF exc THEN phase \in {"fail", "solve", "eval", "idle", "term"}
       ELSE /\ phase = "term"
            /\ intact
            /\ isnan \/ (vr = x /\ ok = succ)
            /\ (ok /\ ~isnan) => SaneOK(vr, sn)
            /\ (ok /\ sn /\ judged) => (~isnan /\ Genuine(vr))
    /\ out' = [x |-> vr, ok |-> ok, sane |-> sn, exc |-> exc]
    /\ phase' = "done"
    /\ UNCHANGED <<sys, kshift, init, lnK, c0, x, conds, nconds, solved, succ, iter, maxiter, runs, sexp, guess>>

\* a second, independent solver (bracketing on the reaction coordinate) on a single-equilibrium
\* problem: its own output must be genuine (non-negative, same totals, Q = K to its absolute accuracy)
\* and it must agree with a result the library reported as success and sane
\* dl: micro-ln of a constant activity product g handed to the bracketing solver (0 = none): its law is then
\* Q g = K, i.e. ln Q = ln K - dl, and the result belongs to another problem than the library's
Bracket(w, dl) ==
    /\ phase \in {"done", "checked"} /\ ~out.exc
    /\ GenuineAbs(w, dl) = TRUE      \* (compared with TRUE: evaluated as an expression, short-circuit)
    /\ (out.ok /\ out.sane /\ dl = 0) => Close(out.x, w, IF AbsTolUnits > 1000 THEN AbsTolUnits ELSE 1000)
    /\ phase' = "checked"
    /\ UNCHANGED <<sys, kshift, init, lnK, c0, x, conds, nconds, solved, succ, iter, maxiter, runs, out, sexp, guess>>

------------------------------------------------------------------------------
(* the switching machine with an IDEAL solver on a coarse grid (EqSolve_MC): the exact         *)
(* switching rules (strict supersaturation, amount >= 0) and a solver that returns any grid    *)
(* state solving the selected system                                                          *)
GenPose == \E p \in GridProblems : Pose(p.S, p.lnK, p.c0, 0)
GenBegin ==
    /\ runs < MaxChain
    /\ \/ phase = "idle" /\ Begin(c0, FALSE, <<>>, 20)
       \/ phase = "term" /\ (Begin(x, TRUE, conds, 20) \/ Begin(x, FALSE, <<>>, 20))
GenEvalFw ==
    /\ phase = "eval" /\ Len(nconds) < Len(PT)
    /\ LET i == PT[Len(nconds) + 1] IN
       \E vd \in GridStates : Len(vd.h) = NS /\ DissolveOK(i, x, vd) /\ EvalFw(i, vd, Supersat(i, vd))
GenEvalBw ==
    /\ phase = "eval" /\ Len(nconds) < Len(PT)
    /\ LET i == PT[Len(nconds) + 1] IN EvalBw(i, BwExpected(i, x))
GenSolve ==
    /\ phase = "solve"
    /\ \E vn \in GridStates : Len(vn.h) = NS /\ SolvesFor(conds, vn) /\ SolveWith(conds, vn, TRUE)
GenReport == phase = "term" /\ Report(x, succ, TRUE, FALSE, FALSE, TRUE, TRUE)

NextPool == GenPickHomog \/ GenPickSalt \/ GenShiftK \/ GenPickInit
NextModel == GenPose \/ GenBegin \/ GenEvalFw \/ GenEvalBw \/ Adopt \/ GenSolve \/ Switch \/ Terminate \/ GiveUp \/ GenReport
Next == NextPool \/ NextModel

(* invariants of the model *)
TypeOK ==
    /\ phase \in {"pick", "shift", "init", "posed", "idle", "eval", "solve", "term", "fail", "done", "checked"}
    /\ Len(kshift) <= NR /\ iter <= maxiter /\ Len(nconds) <= Len(PT)
\* with exact rules and an exact solver the conditions never flip back and forth
NoOscillation == phase # "fail" /\ iter <= 1
\* whatever the run terminates with is a genuine equilibrium composition
TerminalIsGenuine == phase = "term" => Genuine(x)
\* the sane flag of a genuine state may be TRUE
GenuineIsSane == phase = "term" => SaneOK(x, TRUE)

------------------------------------------------------------------------------
(* case export *)
PairSeq(S) == SetToSortSeq(S, LAMBDA p, q : p[1] < q[1])
(* A grid calculation: two solutes varied over two levels each (EqSystem.solve(init, varied = {...})).   *)
(* The mapping lists the substances in an order of the caller's choice - here NOT the order of the   *)
(* system; the axes of the result follow the order of the system's substances.  Entry <<a, b>> of    *)
(* the result therefore belongs to the initial state with level a of the solute that comes first in  *)
(* the system and level b of the one that comes later: the grid is rebuilt here, never read back.    *)
Solutes == {j \in 1..NS : sys.ss[j] # 1 /\ j \notin sys.solid}
Levels(j) == IF init[j][1] > 0 THEN << <<2 * init[j][1], init[j][2]>>, <<5 * init[j][1], init[j][2]>> >>
             ELSE << <<1, -3>>, <<3, -3>> >>
VariedGrid ==
    IF Cardinality(Solutes) < 2 THEN [keys |-> <<>>, levels |-> <<>>, grid |-> <<>>]
    ELSE LET jA == CHOOSE j \in Solutes : \A k \in Solutes : j <= k
             jB == CHOOSE j \in Solutes : \A k \in Solutes : j >= k
             cell(a, b) == [idx |-> <<a, b>>,
                            init |-> [j \in 1..NS |-> IF j = jA THEN Levels(jA)[a]
                                                      ELSE IF j = jB THEN Levels(jB)[b] ELSE init[j]]]
         IN  [keys |-> <<jB, jA>>,                       \* listed later-first
              levels |-> <<Levels(jB), Levels(jA)>>,
              grid |-> <<cell(1, 1), cell(1, 2), cell(2, 1), cell(2, 2)>>]

PoolCase ==
    [in  |-> [rids |-> sys.rs, sidx |-> sys.ss,
              species |-> [j \in 1..NS |-> [name |-> SpName[sys.ss[j]], comp |-> PairSeq(SpComp[sys.ss[j]]),
                                            solid |-> j \in sys.solid]],
              nu |-> sys.nu, K |-> ProblemK, c0 |-> init, guess |-> guess, kshift |-> kshift,
              varied |-> VariedGrid],
     exp |-> [wellcond |-> WellConditioned, homog |-> Homogeneous, determined |-> Determined, single |-> (NR = 1 /\ Homogeneous /\ \A j \in 1..NS : init[j][1] > 0),
              rate |-> <<RateNum, RateDen>>, saturation |-> Saturation],
     cls |-> IF ~Homogeneous THEN (IF sys.nu[PT[1]][SolidPos(PT[1])] < 0 THEN "salt-reac" ELSE "salt-prod")
             ELSE IF WellConditioned THEN "homog-well-" \o ToString(NR) ELSE "homog-hard-" \o ToString(NR)]
ModelCase ==
    [in  |-> [rids |-> sys.rs, c0 |-> c0, lnK |-> lnK],
     exp |-> [x |-> out.x, conds |-> conds, iter |-> iter],
     cls |-> IF Len(PT) > 0 /\ conds[1] THEN "model-precipitate" ELSE "model-dissolved"]
Emit ==
    /\ Posed => PrintT(<<"CASE", ToJson(PoolCase)>>)
    /\ phase = "done" => PrintT(<<"CASE", ToJson(ModelCase)>>)
=============================================================================
