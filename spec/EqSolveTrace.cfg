INIT TInit
NEXT TNext
CONSTANTS
  HomogIds = {}
  MaxHomog = 0
  SaltIds = {}
  SaltWith = {}
  KShifts = {}
  SaltKShifts = {0}
  InitSeq <- EmptySeq
  InitPatterns = {}
  SolidInits = {}
  GuessShifts = {1}
  GridProblems <- EmptySet
  GridStates <- EmptySet
  MaxChain = 0
INVARIANT Verdict
CHECK_DEADLOCK FALSE
