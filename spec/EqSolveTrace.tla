----------------------------- MODULE EqSolveTrace -----------------------------
(* Trace validation for EqSolve (C08).  One trace = one equilibrium calculation of the real   *)
(* code (EqSystem.root / _solve / roots row) recorded from outside:                           *)
(*   problem  the system (pool reaction ids), micro-ln of the constants, encoded initial state*)
(*   begin    pyneqsys.ConditionalNeqSys.solve entered (guess, handed-over conditions)        *)
(*   cond     a forward / backward switching condition was evaluated (state, dissolved state, *)
(*            verdict)                                                                        *)
(*   solve    a numerical solve of one formulation returned (conditions, x, success)          *)
(*   result   what the public call returned (x, success, sane | exception)                    *)
(*   bracket  chempy._equilibrium.solve_equilibrium on the same single-equilibrium problem    *)
(* or a tally trace  rate(ok, n)  judged by RateOK.  Switch / Terminate / Adopt / GiveUp are  *)
(* not observable from outside: they are taken as internal steps when the next logged event   *)
(* is not enabled.  Batch protocol as in FormulaTrace.                                        *)
EXTENDS EqSolve, IOUtils

Traces == JsonDeserialize(IOEnv.TRACE_FILE)

VARIABLES tid, pos, verdict
tvars == <<vars, tid, pos, verdict>>

Ev == Traces[tid][pos]
SetOf(seq) == {seq[i] : i \in 1..Len(seq)}
EmptySeq == <<>>
EmptySet == {}

TInit == Init /\ tid \in 1..Len(Traces) /\ pos = 1 /\ verdict = "none"

\* ri is the 1-based position of the reaction in the system
Step(e) ==
    CASE e.ev = "problem" -> Pose(SetOf(e.rs), e.lnK, e.c0, e.sexp)
      [] e.ev = "begin"   -> Begin(e.x, e.given, e.conds, e.maxiter)
      [] e.ev = "cond"    -> /\ e.x = x
                             /\ IF e.kind = "fw" THEN EvalFw(e.ri, e.xd, e.verdict) ELSE EvalBw(e.ri, e.verdict)
      [] e.ev = "solve"   -> SolveWith(e.conds, e.x, e.ok)
      [] e.ev = "result"  -> Report(e.x, e.ok, e.sane, e.exc, e.nan, e.judged, e.intact)
      [] e.ev = "bracket" -> ~e.raised /\ Bracket(e.x, e.dl)
      [] e.ev = "rate"    -> phase = "pick" /\ RateOK(e.ok, e.n) /\ UNCHANGED vars
      [] OTHER            -> FALSE

TStep ==
    /\ verdict = "none" /\ pos <= Len(Traces[tid])
    /\ Step(Ev)
    /\ verdict' = IF pos = Len(Traces[tid]) THEN "accept" ELSE "none"
    /\ pos' = pos + 1 /\ UNCHANGED tid

\* unobservable control steps of the conditional solver, taken only when the logged event is not enabled
TInternal ==
    /\ verdict = "none" /\ pos <= Len(Traces[tid]) /\ ~ENABLED TStep
    /\ (Adopt \/ Switch \/ Terminate \/ GiveUp)
    /\ UNCHANGED <<tid, pos, verdict>>

TReject ==
    /\ verdict = "none" /\ ~ENABLED TStep /\ ~ENABLED TInternal
    /\ verdict' = "reject" /\ UNCHANGED <<vars, tid, pos>>

TNext == TStep \/ TInternal \/ TReject

Clause ==
    IF pos > Len(Traces[tid]) THEN "no-result-event"
    ELSE LET e == Ev IN
      IF e.ev = "cond" THEN
          (IF e.x # x \/ phase # "eval" THEN "step:cond"
           ELSE IF e.kind = "fw" THEN (IF ~DissolveOK(e.ri, x, e.xd) THEN "dissolved" ELSE "fw-verdict")
           ELSE "bw-verdict")
      ELSE IF e.ev = "result" THEN
          (IF e.exc THEN "step:result"
           ELSE IF phase # "term" THEN "step:result-phase"
           ELSE IF ~e.nan /\ (e.x # x \/ e.ok # succ) THEN "step:result-mismatch"
           ELSE IF ~e.intact THEN "argument-or-earlier-result-modified"
           ELSE IF e.nan THEN "genuine:nan"
           \* a judged result is named by the Genuine clause it misses; the sane flag by itself is what
           \* remains for an unjudged (stub) formulation
           ELSE IF e.judged /\ e.ok /\ e.sane /\ ~Genuine(e.x) THEN "genuine:" \o GenuineClause(e.x)
           ELSE "sane-flag")
      ELSE IF e.ev = "bracket" THEN
          (IF phase \notin {"done", "checked"} THEN "step:bracket"
           ELSE IF e.raised THEN "bracket-raises"
           ELSE IF ~NonNeg(e.x) THEN "bracket-negative"
           ELSE IF ~KeepsTotals(e.x) THEN "bracket-totals"
           ELSE IF ~GenuineAbs(e.x, e.dl) THEN "bracket-quotient"
           ELSE "bracket-agreement")
      ELSE IF e.ev = "rate" THEN "success-rate"
      ELSE "step:" \o e.ev

Verdict == verdict # "none" =>
    PrintT(<<"VERDICT", tid, verdict, pos, IF verdict = "accept" THEN "" ELSE Clause>>)
=============================================================================
