----------------------------- MODULE EqSolve_MC -----------------------------
(* Constant definitions for the configurations of EqSolve (C08): problem pool slices and the  *)
(* coarse-grid switching model.                                                               *)
EXTENDS EqSolve

H_All   == HomogRx
H_Shapes == HomogRx \cup ShapeRx
H_Mixed == ShapeRx \cup {1, 2, 5, 8}
S_All   == {12, 13, 14, 15, 16, 17}
W_None  == { {} }
W_Water == { {}, {1} }
KS_One  == {0}
KS_Dec  == {-1, 0, 1}
KS_Q    == {-2, 0, 1}
KS_Wide == {-3, -1, 0, 1, 3}
SK_Wide == {-2, 0, 3, 5, 8}
I_Few   == << <<1, -3>>, <<5, -3>>, <<2, -2>>, <<3, -4>>, <<8, -2>> >>
I_FewZ  == << <<1, -3>>, <<5, -3>>, <<2, -2>>, <<3, -4>>, <<8, -2>>, <<0, 0>> >>
I_Many  == << <<1, -3>>, <<5, -3>>, <<2, -2>>, <<3, -4>>, <<8, -2>>, <<1, -1>>, <<1, -6>>, <<0, 0>>, <<2, 0>> >>
I_Pos   == << <<1, -3>>, <<5, -3>>, <<2, -2>>, <<3, -4>>, <<8, -2>>, <<1, -1>>, <<1, -5>>, <<7, -1>>, <<4, -4>> >>
IP_Few  == { <<1, 0>>, <<2, 1>>, <<3, 2>> }
IP_Many == { <<1, 0>>, <<2, 1>>, <<3, 2>>, <<1, 3>>, <<4, 1>>, <<5, 4>>, <<7, 3>> }
SI_None == { <<0, 0>> }
SI_Few  == { <<0, 0>>, <<1, -2>>, <<1, -4>> }
SI_Many == { <<0, 0>>, <<1, -2>>, <<1, -4>>, <<1, -7>>, <<1, 0>> }
NoProblems == {}
NoStates == {}
NoSeq == <<>>

(* ---- the coarse grid of the switching model: one grid unit = 0.01 (h = 10^4 units), scale 1 *)
LnTab == << -4605170, -3912023, -3506558, -3218876, -2995732, -2813411 >>   \* 10^6 ln(a / 100), a = 1..6
GH(a) == a * 10000
GLn(a) == IF a > 0 THEN LnTab[a] ELSE 0
Vec3(a, b, s) == [h |-> <<GH(a), GH(b), GH(s)>>, l |-> <<0, 0, 0>>, ln |-> <<GLn(a), GLn(b), GLn(s)>>,
                  pos |-> <<a > 0, b > 0, s > 0>>]
GS_All == {Vec3(a, b, s) : a \in 0..5, b \in 0..5, s \in -2..3}
Inits3 == {Vec3(a, b, s) : a \in 0..3, b \in 0..3, s \in 0..2} \ {Vec3(0, 0, 0)}
\* AgCl(s) = Ag+ + Cl-  (species order Ag+, Cl-, solid):  K = a b  in grid units
\* Mg(OH)2(s) = Mg+2 + 2 OH-  (species order OH-, Mg+2, solid):  K = a^2 b
GP_All ==
    UNION {
      {[S |-> {12}, lnK |-> <<k>>, c0 |-> v] : v \in Inits3, k \in {2 * LnTab[2], LnTab[2] + LnTab[3]}},
      {[S |-> {15}, lnK |-> <<-k>>, c0 |-> v] : v \in Inits3, k \in {2 * LnTab[2]}},
      {[S |-> {13}, lnK |-> <<k>>, c0 |-> v] : v \in Inits3, k \in {2 * LnTab[2] + LnTab[1]}},
      {[S |-> {16}, lnK |-> <<-k>>, c0 |-> v] : v \in Inits3, k \in {2 * LnTab[2] + LnTab[1]}} }
=============================================================================
