INIT Init
NEXT NextPool
CONSTANTS
  HomogIds <- H_Shapes
  MaxHomog = 2
  SaltIds <- S_All
  SaltWith <- W_Water
  KShifts <- KS_Q
  SaltKShifts = {0, 4, 7}
  InitSeq <- I_FewZ
  InitPatterns <- IP_Few
  SolidInits <- SI_Few
  GuessShifts = {1}
  GridProblems <- NoProblems
  GridStates <- NoStates
  MaxChain = 0
INVARIANT TypeOK
INVARIANT Emit
CHECK_DEADLOCK FALSE
