INIT Init
NEXT NextPool
CONSTANTS
  HomogIds <- H_All
  MaxHomog = 3
  SaltIds <- S_All
  SaltWith <- W_Water
  KShifts <- KS_Wide
  SaltKShifts <- SK_Wide
  InitSeq <- I_Many
  InitPatterns <- IP_Many
  SolidInits <- SI_Many
  GuessShifts = {1, 3}
  GridProblems <- NoProblems
  GridStates <- NoStates
  MaxChain = 0
INVARIANT TypeOK
INVARIANT Emit
CHECK_DEADLOCK FALSE
