INIT Init
NEXT NextPool
CONSTANTS
  HomogIds <- H_Shapes
  MaxHomog = 1
  SaltIds = {}
  SaltWith = {}
  KShifts <- KS_Dec
  SaltKShifts = {0}
  InitSeq <- I_Few
  InitPatterns <- IP_Many
  SolidInits <- SI_None
  GuessShifts = {1}
  GridProblems <- NoProblems
  GridStates <- NoStates
  MaxChain = 0
INVARIANT TypeOK
INVARIANT Emit
CHECK_DEADLOCK FALSE
