INIT Init
NEXT NextModel
CONSTANTS
  HomogIds = {}
  MaxHomog = 0
  SaltIds = {}
  SaltWith = {}
  KShifts = {}
  SaltKShifts = {0}
  InitSeq <- NoSeq
  InitPatterns = {}
  SolidInits = {}
  GuessShifts = {1}
  GridProblems <- GP_All
  GridStates <- GS_All
  MaxChain = 2
INVARIANT TypeOK
INVARIANT NoOscillation
INVARIANT TerminalIsGenuine
INVARIANT GenuineIsSane
INVARIANT Emit
CHECK_DEADLOCK FALSE
