----------------------------- MODULE Equilibria -----------------------------
(* Equilibrium residual formulations (property C07).                                          *)
(*                                                                                            *)
(* "Every residual formulation offered to the root finder is zero at a state that satisfies   *)
(*  every mass-action quotient Q_i = K_i and carries the elements and charge of the initial   *)
(*  state, and non-zero at a state violating either; the number of equations is the number of *)
(*  reactions plus the number of (independent, if row-reduced) conservation relations."       *)
(*                                                                                            *)
(* The machine constructs a case BACKWARDS with exact rationals, so that the expected answer  *)
(* never depends on solving anything:                                                         *)
(*   ChooseSystem    a set R of linearly independent homogeneous equilibria from EqPool       *)
(*   SetConc/SetPattern  an equilibrium state ceq > 0 on a rational grid; this DEFINES        *)
(*                   K_r := Q_r(ceq)                                                          *)
(*   SetExtent       reaction extents xi; the initial state is cinit = ceq - SUM xi_j nu_j >= 0*)
(*   NoPerturb | BreakQuotient(j,d) | ScaleSpecies(s,f) | BreakConservation(s,d)              *)
(*                   the state c handed to the residual: ceq itself, ceq moved along reaction *)
(*                   j (conserves, off equilibrium), one species scaled (breaks both), or     *)
(*                   ceq with the INITIAL state shifted (at equilibrium, not conserving)      *)
(*   Residual(ns,re,rp)  the formulation: NumSys name, rref_equil, rref_preserv               *)
(*   Again           HISTORY: the same residual object is evaluated once more, for another    *)
(*                   equilibrium state of the same system - other constants K, other initial  *)
(*                   state, passed as parameters; every evaluation is judged by ITS parameters*)
(* A terminal state is one case: inputs + ExpectedZero + NEq + exact quotients and totals.    *)
(* Zero-ness of the real (symbolic, 50 digit) residual is decided in the binding layer with   *)
(* the thresholds carried in the case; PerturbationIsLarge shows nothing lies in between.     *)
EXTENDS EqPool, TLC, Json

CONSTANTS
    RxnIds,      \* reactions systems are drawn from (subset of HomogRx)
    MaxRxns,     \* maximal number of reactions in a system
    GridSeq,     \* sequence of positive rationals: the grid of equilibrium concentrations
    StateModes,  \* subset of {"full", "pattern"}
    Patterns,    \* set of <<a, b>>: species s gets GridSeq[((a*s + b) % Len(GridSeq)) + 1]
    Extents,     \* set of rationals (reaction extents linking cinit to ceq)
    Deltas,      \* set of non-zero rationals: extent perturbations (BreakQuotient)
    Factors,     \* set of positive rationals # 1: ScaleSpecies
    Shifts,      \* set of non-zero rationals: BreakConservation
    PertKinds,   \* subset of {"none", "extent", "scale", "shift0"}
    NumSyss,     \* subset of {"Lin", "Log", "Square", "LinRel", "LinTanh"}
    RrefFlags,   \* set of <<rref_equil, rref_preserv>>
    Options,     \* set of <<backend, new_eq_params, order, species form, written form>>: how the object is
                 \* built and called - backend "sympy" (exact parameters) / "numpy" / "math" (floats);
                 \* constants passed in params (TRUE) or taken from the system (FALSE); species in pool
                 \* order "asc" or reversed "rev"; species given by "comp"osition, by "formula", or by
                 \* formula under "alias" keys that differ from the names (mapping key # Substance.name);
                 \* the equilibria written with their "net" coefficients, or with a species on BOTH
                 \* sides ("self": a participant, "other": a catalyst that does not take part, "inact":
                 \* listed as inactive reactant and inactive product) - the law only sees the net
    MaxEvals,    \* number of evaluations of one residual object (1 = no history)
    TraceSpecies,\* pool species that may be put on the trace scale 10^TraceExp (constants over decades)
    TraceExp     \* decimal exponent of the trace scale (a negative integer, e.g. -9)

VARIABLES phase, sys, ceq, K, xi, cinit, pert, c, cfg, expd, hist, dexp
vars == <<phase, sys, ceq, K, xi, cinit, pert, c, cfg, expd, hist, dexp>>

NoPert == [kind |-> "unset", i |-> 0, a |-> QZero]
NoCfg == [ns |-> "", re |-> FALSE, rp |-> FALSE, opt |-> <<"", TRUE, "", "", "">>]
NS == Len(sys.ss)
NR == Len(sys.rs)

(* what the property says about a state st compared with the initial state ini: computed     *)
(* once, when the perturbation is chosen, and kept in expd                                    *)
QAbsDiff(a, b) == QAbs(QSub(a, b))
Hundredth == <<1, 100>>
(* SCALES.  A state is  c_j = m_j * 10^(dexp_j)  with the rational mantissa m_j of the grid and a    *)
(* decimal exponent that is 0 (macro species) or TraceExp (trace species): constants then range over *)
(* decades, K_i = Q_i(m) * 10^(SUM_j nu_ij dexp_j), down to 1e-18 and below.  All arithmetic stays   *)
(* on the mantissas: a quotient is a monomial (its exponent is fixed by dexp), a total is the pair   *)
(* (sum over macro species, sum over trace species) - the two parts are compared separately, which   *)
(* is exact because a macro part changes in steps >= 1e-3 and a trace part stays below 1e-6.         *)
HasTrace == \E j \in 1..Len(dexp) : dexp[j] # 0
TraceDue == \E j \in 1..NS : sys.ss[j] \in TraceSpecies
DExp(j) == IF j <= Len(dexp) THEN dexp[j] ELSE 0
Masked(brow, e) == [j \in 1..Len(brow) |-> IF DExp(j) = e THEN brow[j] ELSE 0]
KExp == [i \in 1..NR |-> SumSeq([j \in 1..NS |-> sys.nu[i][j] * DExp(j)])]
Judge(st, ini) ==
    LET q    == [i \in 1..NR |-> Quotient(sys.nu[i], st)]
        totc == [i \in 1..Len(sys.B) |-> Total(Masked(sys.B[i], 0), st)]
        tot0 == [i \in 1..Len(sys.B) |-> Total(Masked(sys.B[i], 0), ini)]
        totcT == [i \in 1..Len(sys.B) |-> IF HasTrace THEN Total(Masked(sys.B[i], TraceExp), st) ELSE QZero]
        tot0T == [i \in 1..Len(sys.B) |-> IF HasTrace THEN Total(Masked(sys.B[i], TraceExp), ini) ELSE QZero]
        ateq == \A i \in 1..NR : QEq(q[i], K[i])
        keeps == \A i \in 1..Len(sys.B) : QEq(totc[i], tot0[i]) /\ QEq(totcT[i], tot0T[i])
    IN  [ateq |-> ateq, keeps |-> keeps, zero |-> ateq /\ keeps, q |-> q, totc |-> totc, tot0 |-> tot0,
         totcT |-> totcT, tot0T |-> tot0T]
NoExp == [ateq |-> FALSE, keeps |-> FALSE, zero |-> FALSE, q |-> <<>>, totc |-> <<>>, tot0 |-> <<>>,
          totcT |-> <<>>, tot0T |-> <<>>]
\* margins by which a judged state misses a quotient (relative) / a macro total (absolute)
QuotientOff == \E i \in 1..NR : QLe(Hundredth, QAbsDiff(QDiv(expd.q[i], K[i]), QOne))
TotalOff == \E i \in 1..Len(sys.B) : QLe(Hundredth, QAbsDiff(expd.totc[i], expd.tot0[i]))
\* the constants the system object itself carries: those of the first evaluation, or - when they are
\* reassigned before every evaluation (own constants) - the current ones
SystemK == IF hist = <<>> \/ ~cfg.opt[2] THEN K ELSE hist[1].K

Init ==
    /\ phase = "sys" /\ sys = NoSys /\ ceq = <<>> /\ K = <<>> /\ xi = <<>>
    /\ cinit = <<>> /\ pert = NoPert /\ c = <<>> /\ cfg = NoCfg /\ expd = NoExp /\ hist = <<>> /\ dexp = <<>>

------------------------------------------------------------------------------
ChooseSystem(S) ==
    /\ phase = "sys" /\ S # {} /\ S \subseteq HomogRx /\ Independent(S)
    /\ sys' = SysInfo(S) /\ phase' = "state"
    /\ UNCHANGED <<ceq, K, xi, cinit, pert, c, cfg, expd, hist, dexp>>

DefineK(st) == [i \in 1..NR |-> Quotient(sys.nu[i], st)]

\* concentrations are chosen species by species, in the order of sys.ss
SetConc(v) ==
    /\ phase = "state" /\ Len(ceq) < NS /\ v[1] > 0 /\ v[2] > 0
    /\ ceq' = Append(ceq, Norm(v))
    /\ IF Len(ceq') = NS THEN K' = DefineK(ceq') /\ phase' = "extent" ELSE UNCHANGED <<K, phase>>
    /\ UNCHANGED <<sys, xi, cinit, pert, c, cfg, expd, hist, dexp>>

SetPattern(a, b) ==
    /\ phase = "state" /\ ceq = <<>> /\ Len(GridSeq) > 0
    /\ ceq' = [j \in 1..NS |-> Norm(GridSeq[((a * sys.ss[j] + b) % Len(GridSeq)) + 1])]
    /\ K' = DefineK(ceq') /\ phase' = "extent"
    /\ UNCHANGED <<sys, xi, cinit, pert, c, cfg, expd, hist, dexp>>

\* st + SUM_i ext_i nu_i
Along(st, ext) ==
    [j \in 1..NS |-> QAdd(st[j], QSumSeq([i \in 1..Len(ext) |-> QMul(ext[i], Q(sys.nu[i][j]))]))]
NegAll(ext) == [i \in 1..Len(ext) |-> QNeg(ext[i])]

\* put the species of T on the trace scale (before any extent is chosen)
SetTrace(T) ==
    /\ phase = "extent" /\ xi = <<>> /\ ~HasTrace /\ T # {} /\ T \subseteq 1..NS
    /\ dexp' = [j \in 1..NS |-> IF j \in T THEN TraceExp ELSE 0]
    /\ UNCHANGED <<phase, sys, ceq, K, xi, cinit, pert, c, cfg, expd, hist>>

SetExtent(x) ==
    /\ phase = "extent" /\ Len(xi) < NR
    /\ HasTrace => x[1] = 0        \* an extent would mix the scales inside one concentration
    /\ TraceDue => HasTrace        \* a configuration that names trace species uses them
    /\ xi' = Append(xi, Norm(x))
    /\ IF Len(xi') = NR
       THEN /\ cinit' = Along(ceq, NegAll(xi'))      \* cinit = ceq - SUM xi_i nu_i
            /\ AllNonNegQ(cinit')
            /\ phase' = "pert"
       ELSE UNCHANGED <<cinit, phase>>
    /\ UNCHANGED <<sys, ceq, K, pert, c, cfg, expd, hist, dexp>>

Hand(st, ini, p) ==
    /\ c' = st /\ cinit' = ini /\ pert' = p /\ expd' = Judge(st, ini) /\ phase' = "cfg"
    /\ UNCHANGED <<sys, ceq, K, xi, cfg, hist, dexp>>

NoPerturb ==
    /\ phase = "pert"
    /\ Hand(ceq, cinit, [kind |-> "none", i |-> 0, a |-> QZero])

\* move the state along reaction number i of the system (keeps every total, changes Q_i)
BreakQuotient(i, d) ==
    /\ phase = "pert" /\ i \in 1..NR /\ d[1] # 0 /\ ~HasTrace
    /\ LET st == Along(ceq, [t \in 1..NR |-> IF t = i THEN d ELSE QZero])
       IN  AllPos(st) /\ Hand(st, cinit, [kind |-> "extent", i |-> i, a |-> Norm(d)])

ScaleSpecies(j, f) ==
    /\ phase = "pert" /\ j \in 1..NS /\ f[1] > 0 /\ ~QEq(f, QOne)
    /\ Hand([ceq EXCEPT ![j] = QMul(ceq[j], f)], cinit, [kind |-> "scale", i |-> j, a |-> Norm(f)])

\* the state stays at ceq, the initial state it is compared with is shifted in one species
BreakConservation(j, d) ==
    /\ phase = "pert" /\ j \in 1..NS /\ d[1] # 0 /\ DExp(j) = 0   \* (an absolute margin needs the macro scale)
    /\ LET ini == [cinit EXCEPT ![j] = QAdd(cinit[j], d)]
       IN  ini[j][1] >= 0 /\ Hand(ceq, ini, [kind |-> "shift0", i |-> j, a |-> Norm(d)])

Residual(ns, re, rp, opt) ==
    /\ phase = "cfg"
    \* a re-used object keeps its formulation and options
    /\ hist = <<>> \/ (ns = cfg.ns /\ re = cfg.re /\ rp = cfg.rp /\ opt = cfg.opt)
    /\ cfg' = [ns |-> ns, re |-> re, rp |-> rp, opt |-> opt] /\ phase' = "done"
    /\ UNCHANGED <<sys, ceq, K, xi, cinit, pert, c, expd, hist, dexp>>

\* the evaluation just made, as it goes into the history
Evaluation == [K |-> K, c |-> c, c0 |-> cinit, pert |-> pert, dexp |-> [j \in 1..NS |-> DExp(j)], Kexp |-> KExp, totcT |-> expd.totcT,
               tot0T |-> expd.tot0T, zero |-> expd.zero, ateq |-> expd.ateq,
               keeps |-> expd.keeps, q |-> expd.q, totc |-> expd.totc, tot0 |-> expd.tot0]

\* the same residual object (same system, same formulation) is evaluated again with new parameters
Again ==
    /\ phase = "done" /\ Len(hist) + 1 < MaxEvals
    \* (with new_eq_params = FALSE the object takes its constants from the system: the new ones are then
    \*  ASSIGNED to the system's equilibria before the next evaluation - reassign a parameter, call again)
    /\ hist' = Append(hist, Evaluation)
    /\ ceq' = <<>> /\ K' = <<>> /\ xi' = <<>> /\ cinit' = <<>> /\ pert' = NoPert /\ c' = <<>> /\ expd' = NoExp
    /\ dexp' = <<>>
    /\ phase' = "state"
    /\ UNCHANGED <<sys, cfg>>

------------------------------------------------------------------------------
(* generators over the configured constants *)
GenSystem == phase = "sys" /\ \E k \in 1..MaxRxns : \E S \in kSubset(k, RxnIds) : ChooseSystem(S)
GenConc == "full" \in StateModes /\ \E i \in 1..Len(GridSeq) : SetConc(GridSeq[i])
GenPattern == "pattern" \in StateModes /\ \E p \in Patterns : SetPattern(p[1], p[2])
GenExtent == \E x \in Extents : SetExtent(x)
GenTrace == LET T == {j \in 1..NS : sys.ss[j] \in TraceSpecies} IN phase = "extent" /\ SetTrace(T)
GenNoPerturb == "none" \in PertKinds /\ NoPerturb
GenBreakQuotient == "extent" \in PertKinds /\ \E i \in 1..NR, d \in Deltas : BreakQuotient(i, d)
GenScale == "scale" \in PertKinds /\ \E j \in 1..NS, f \in Factors : ScaleSpecies(j, f)
GenBreakConservation == "shift0" \in PertKinds /\ \E j \in 1..NS, d \in Shifts : BreakConservation(j, d)
GenResidual == \E ns \in NumSyss, fl \in RrefFlags, o \in Options : Residual(ns, fl[1], fl[2], o)

Next ==
    \/ GenSystem \/ GenConc \/ GenPattern \/ GenExtent \/ GenTrace
    \/ GenNoPerturb \/ GenBreakQuotient \/ GenScale \/ GenBreakConservation
    \/ GenResidual \/ Again

Done == phase = "done"
\* the judgement of a perturbed state is made once, in the state reached by the perturbation
Perturbed == phase = "cfg"

------------------------------------------------------------------------------
(* invariants *)
TypeOK ==
    /\ phase \in {"sys", "state", "extent", "pert", "cfg", "done"}
    /\ Len(ceq) <= NS /\ Len(xi) <= NR
    /\ \A j \in 1..Len(ceq) : ceq[j][1] > 0 /\ ceq[j][2] > 0
    /\ phase \in {"pert", "cfg", "done"} => Len(cinit) = NS /\ AllNonNegQ(cinit)
    /\ phase \in {"cfg", "done"} => Len(c) = NS /\ AllPos(c)

\* the backward construction yields an equilibrium state that conserves the initial totals
BackwardConstructionIsEquilibrium ==
    /\ phase = "pert" => ExpectedZero(sys, ceq, cinit, K)
    /\ (Perturbed /\ pert.kind = "none") => expd.zero

\* every perturbation falsifies exactly the clause it targets
PerturbationBreaksOneClause ==
    Perturbed =>
        CASE pert.kind = "none"   -> expd.ateq /\ expd.keeps
          [] pert.kind = "extent" -> ~expd.ateq /\ expd.keeps
          [] pert.kind = "scale"  -> ~expd.ateq /\ ~expd.keeps
          [] pert.kind = "shift0" -> expd.ateq /\ ~expd.keeps

\* ... and by a margin (relative 1e-2 in a quotient, absolute 1e-2 in a total): no residual
\* of a perturbed case can be mistaken for rounding noise
PerturbationIsLarge ==
    Perturbed =>
        /\ pert.kind \in {"extent", "scale"} => QuotientOff
        /\ pert.kind = "shift0" => TotalOff
        /\ (pert.kind = "scale" /\ DExp(pert.i) = 0) => TotalOff
        /\ pert.kind = "none" => ~QuotientOff /\ ~TotalOff

\* balanced reactions lie in the null space of the composition matrix: the row-reduced
\* formulation never has more equations than unknowns
NeverOverdetermined ==
    phase = "state" /\ ceq = <<>> =>
        /\ NEq(sys, TRUE) <= NS
        /\ NEq(sys, TRUE) <= NEq(sys, FALSE)
        /\ \A i \in 1..NR, k \in 1..Len(sys.B) : Dot(sys.nu[i], sys.B[k]) = 0

(* How an equilibrium is WRITTEN does not change what it says: a species that stands on both sides  *)
(* contributes only its net coefficient.  Written(kind) names reaction i, species j (position in the *)
(* system) and the amount m added to both sides; any such triple is legal.                           *)
FirstIn(S) == CHOOSE j \in S : \A k \in S : j <= k
LastIn(S) == CHOOSE j \in S : \A k \in S : j >= k
PartOf(i) == {j \in 1..NS : sys.nu[i][j] # 0}
Written(kind) ==
    CASE kind = "self"  -> <<1, FirstIn(PartOf(1)), 1>>
      [] kind = "inact" -> <<1, LastIn(PartOf(1)), 1>>
      [] kind = "other" -> LET out == (1..NS) \ PartOf(NR)
                           IN  <<NR, IF out = {} THEN LastIn(PartOf(NR)) ELSE FirstIn(out), 2>>
      [] OTHER          -> <<0, 0, 0>>
WrittenLegal(kind, w) ==
    IF kind = "net" THEN w = <<0, 0, 0>> ELSE w[1] \in 1..NR /\ w[2] \in 1..NS /\ w[3] >= 1

------------------------------------------------------------------------------
(* case export *)
PairSeq(S) == SetToSortSeq(S, LAMBDA p, q : p[1] < q[1])

CaseIn ==
    [species |-> [j \in 1..NS |-> [name |-> SpName[sys.ss[j]], comp |-> PairSeq(SpComp[sys.ss[j]])]],
     nu      |-> sys.nu,
     rids    |-> sys.rs,
     sidx    |-> sys.ss,
     K       |-> K,
     ceq     |-> ceq,
     c0      |-> cinit,
     c       |-> c,
     xi      |-> xi,
     pert    |-> pert,
     hist    |-> hist,
     dexp    |-> [j \in 1..NS |-> DExp(j)], Kexp |-> KExp,
     written |-> Written(cfg.opt[5]),
     ns      |-> cfg.ns, re |-> cfg.re, rp |-> cfg.rp, opt |-> cfg.opt]

CaseExp ==
    [zero  |-> expd.zero, ateq |-> expd.ateq, keeps |-> expd.keeps,
     neq   |-> NEq(sys, cfg.rp),
     q     |-> expd.q,
     keys  |-> sys.ks,
     totc  |-> expd.totc,
     tot0  |-> expd.tot0,
     totcT |-> expd.totcT, tot0T |-> expd.tot0T, texp |-> TraceExp,
     \* argument forms of the public helpers: two states stacked (c, ceq) -> quotients (q, K);
     \* stoichs_constants without row reduction returns (nu, K); eq_constants() the system's own K
     qceq  |-> K, totceq |-> [i \in 1..Len(sys.B) |-> Total(sys.B[i], ceq)], sysK |-> SystemK,
     \* |f_i| < 10^-tolz for all i  <=> "zero";  some |f_i| > 10^-tolnz <=> "nonzero"
     tolz  |-> 10, tolnz |-> 6]

CaseRec == [in |-> CaseIn, exp |-> CaseExp,
            cls |-> cfg.ns \o (IF cfg.re THEN "-re" ELSE "") \o (IF cfg.rp THEN "-rp" ELSE "") \o "-" \o pert.kind
                    \o "-" \o cfg.opt[1] \o (IF cfg.opt[2] THEN "" ELSE "-ownK") \o "-" \o cfg.opt[3] \o "-" \o cfg.opt[4] \o "-" \o cfg.opt[5]
                    \o (IF hist = <<>> THEN "" ELSE "-again") \o (IF HasTrace THEN "-trace" ELSE "")]
Emit == Done => PrintT(<<"CASE", ToJson(CaseRec)>>)
=============================================================================
