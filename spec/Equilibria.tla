----------------------------- MODULE Equilibria -----------------------------
(* Equilibrium residual formulations (property C07).                                          *)
(*                                                                                            *)
(* "Every residual formulation offered to the root finder is zero at a state that satisfies   *)
(*  every mass-action quotient Q_i = K_i and carries the elements and charge of the initial   *)
(*  state, and non-zero at a state violating either; the number of equations is the number of *)
(*  reactions plus the number of (independent, if row-reduced) conservation relations."       *)
(*                                                                                            *)
(* The machine constructs a case BACKWARDS with exact rationals, so that the expected answer  *)
(* never depends on solving anything:                                                         *)
(*   ChooseSystem    a set R of linearly independent homogeneous equilibria from EqPool       *)
(*   SetConc/SetPattern  an equilibrium state ceq > 0 on a rational grid; this DEFINES        *)
(*                   K_r := Q_r(ceq)                                                          *)
(*   SetExtent       reaction extents xi; the initial state is cinit = ceq - SUM xi_j nu_j >= 0*)
(*   NoPerturb | BreakQuotient(j,d) | ScaleSpecies(s,f) | BreakConservation(s,d)              *)
(*                   the state c handed to the residual: ceq itself, ceq moved along reaction *)
(*                   j (conserves, off equilibrium), one species scaled (breaks both), or     *)
(*                   ceq with the INITIAL state shifted (at equilibrium, not conserving)      *)
(*   Residual(ns,re,rp)  the formulation: NumSys name, rref_equil, rref_preserv               *)
(* A terminal state is one case: inputs + ExpectedZero + NEq + exact quotients and totals.    *)
(* Zero-ness of the real (symbolic, 50 digit) residual is decided in the binding layer with   *)
(* the thresholds carried in the case; PerturbationIsLarge shows nothing lies in between.     *)
EXTENDS EqPool, TLC, Json

CONSTANTS
    RxnIds,      \* reactions systems are drawn from (subset of HomogRx)
    MaxRxns,     \* maximal number of reactions in a system
    GridSeq,     \* sequence of positive rationals: the grid of equilibrium concentrations
    StateModes,  \* subset of {"full", "pattern"}
    Patterns,    \* set of <<a, b>>: species s gets GridSeq[((a*s + b) % Len(GridSeq)) + 1]
    Extents,     \* set of rationals (reaction extents linking cinit to ceq)
    Deltas,      \* set of non-zero rationals: extent perturbations (BreakQuotient)
    Factors,     \* set of positive rationals # 1: ScaleSpecies
    Shifts,      \* set of non-zero rationals: BreakConservation
    PertKinds,   \* subset of {"none", "extent", "scale", "shift0"}
    NumSyss,     \* subset of {"Lin", "Log", "Square", "LinRel", "LinTanh"}
    RrefFlags    \* set of <<rref_equil, rref_preserv>>

VARIABLES phase, R, ceq, K, xi, cinit, pert, c, cfg
vars == <<phase, R, ceq, K, xi, cinit, pert, c, cfg>>

ZeroState == [s \in 1..NSp |-> QZero]
OneK == [r \in 1..NRx |-> QOne]
NoPert == [kind |-> "unset", i |-> 0, a |-> QZero]
NoCfg == [ns |-> "", re |-> FALSE, rp |-> FALSE]
Sp == SysSpecies(R)
Unset == {s \in Sp : ceq[s][1] = 0}

Init ==
    /\ phase = "sys" /\ R = {} /\ ceq = ZeroState /\ K = OneK /\ xi = <<>>
    /\ cinit = ZeroState /\ pert = NoPert /\ c = ZeroState /\ cfg = NoCfg

------------------------------------------------------------------------------
ChooseSystem(S) ==
    /\ phase = "sys" /\ S # {} /\ S \subseteq HomogRx /\ Independent(S)
    /\ R' = S /\ phase' = "state"
    /\ UNCHANGED <<ceq, K, xi, cinit, pert, c, cfg>>

DefineK(st) == [r \in 1..NRx |-> IF r \in R THEN Qr(r, st) ELSE QOne]

SetConc(s, v) ==
    /\ phase = "state" /\ Unset # {} /\ s = Min(Unset) /\ v[1] > 0 /\ v[2] > 0
    /\ ceq' = [ceq EXCEPT ![s] = Norm(v)]
    /\ IF Unset = {s} THEN K' = DefineK(ceq') /\ phase' = "extent" ELSE UNCHANGED <<K, phase>>
    /\ UNCHANGED <<R, xi, cinit, pert, c, cfg>>

SetPattern(a, b) ==
    /\ phase = "state" /\ Unset = Sp /\ Len(GridSeq) > 0
    /\ ceq' = [s \in 1..NSp |-> IF s \in Sp THEN Norm(GridSeq[((a * s + b) % Len(GridSeq)) + 1]) ELSE QZero]
    /\ K' = DefineK(ceq') /\ phase' = "extent"
    /\ UNCHANGED <<R, xi, cinit, pert, c, cfg>>

\* cinit = ceq - SUM_j xi_j nu_j
Backward(st, ext) ==
    LET rs == RxSeq(R) IN
    [s \in 1..NSp |-> IF s \in Sp
        THEN QSub(st[s], QSumSeq([j \in 1..Len(rs) |-> QMul(ext[j], Q(Nu(rs[j], s)))]))
        ELSE QZero]

SetExtent(x) ==
    /\ phase = "extent" /\ Len(xi) < Cardinality(R)
    /\ xi' = Append(xi, Norm(x))
    /\ IF Len(xi') = Cardinality(R)
       THEN /\ cinit' = Backward(ceq, xi')
            /\ AllNonNegQ(Sp, cinit')
            /\ phase' = "pert"
       ELSE UNCHANGED <<cinit, phase>>
    /\ UNCHANGED <<R, ceq, K, pert, c, cfg>>

NoPerturb ==
    /\ phase = "pert"
    /\ c' = ceq /\ pert' = [kind |-> "none", i |-> 0, a |-> QZero] /\ phase' = "cfg"
    /\ UNCHANGED <<R, ceq, K, xi, cinit, cfg>>

\* move the state along reaction number j of the system (keeps every total, changes Q_j)
BreakQuotient(j, d) ==
    /\ phase = "pert" /\ j \in 1..Cardinality(R) /\ d[1] # 0
    /\ LET r == RxSeq(R)[j] IN
       c' = [s \in 1..NSp |-> IF s \in Sp THEN QAdd(ceq[s], QMul(d, Q(Nu(r, s)))) ELSE QZero]
    /\ AllPos(Sp, c')
    /\ pert' = [kind |-> "extent", i |-> j, a |-> Norm(d)] /\ phase' = "cfg"
    /\ UNCHANGED <<R, ceq, K, xi, cinit, cfg>>

ScaleSpecies(s, f) ==
    /\ phase = "pert" /\ s \in Sp /\ f[1] > 0 /\ ~QEq(f, QOne)
    /\ c' = [ceq EXCEPT ![s] = QMul(ceq[s], f)]
    /\ pert' = [kind |-> "scale", i |-> s, a |-> Norm(f)] /\ phase' = "cfg"
    /\ UNCHANGED <<R, ceq, K, xi, cinit, cfg>>

\* the state stays at ceq, the initial state it is compared with is shifted in one species
BreakConservation(s, d) ==
    /\ phase = "pert" /\ s \in Sp /\ d[1] # 0
    /\ cinit' = [cinit EXCEPT ![s] = QAdd(cinit[s], d)]
    /\ cinit'[s][1] >= 0
    /\ c' = ceq
    /\ pert' = [kind |-> "shift0", i |-> s, a |-> Norm(d)] /\ phase' = "cfg"
    /\ UNCHANGED <<R, ceq, K, xi, cfg>>

Residual(ns, re, rp) ==
    /\ phase = "cfg"
    /\ cfg' = [ns |-> ns, re |-> re, rp |-> rp] /\ phase' = "done"
    /\ UNCHANGED <<R, ceq, K, xi, cinit, pert, c>>

------------------------------------------------------------------------------
(* generators over the configured constants *)
GenSystem == \E S \in SUBSET RxnIds : Cardinality(S) \in 1..MaxRxns /\ ChooseSystem(S)
GenConc == "full" \in StateModes /\ phase = "state" /\ Unset # {} /\ \E i \in 1..Len(GridSeq) : SetConc(Min(Unset), GridSeq[i])
GenPattern == "pattern" \in StateModes /\ \E p \in Patterns : SetPattern(p[1], p[2])
GenExtent == \E x \in Extents : SetExtent(x)
GenNoPerturb == "none" \in PertKinds /\ NoPerturb
GenBreakQuotient == "extent" \in PertKinds /\ \E j \in 1..Cardinality(R), d \in Deltas : BreakQuotient(j, d)
GenScale == "scale" \in PertKinds /\ \E s \in Sp, f \in Factors : ScaleSpecies(s, f)
GenBreakConservation == "shift0" \in PertKinds /\ \E s \in Sp, d \in Shifts : BreakConservation(s, d)
GenResidual == \E ns \in NumSyss, fl \in RrefFlags : Residual(ns, fl[1], fl[2])

Next ==
    \/ GenSystem \/ GenConc \/ GenPattern \/ GenExtent
    \/ GenNoPerturb \/ GenBreakQuotient \/ GenScale \/ GenBreakConservation
    \/ GenResidual

Done == phase = "done"
Perturbed == phase \in {"cfg", "done"}

------------------------------------------------------------------------------
(* what the property says about the state c                                                   *)
AtEq == IsEq(R, c, K)
Keeps == Conserves(Sp, c, cinit)
Zero == AtEq /\ Keeps

QAbsDiff(a, b) == QAbs(QSub(a, b))
Hundredth == <<1, 100>>
QuotientOff == \E r \in R : QLe(Hundredth, QAbsDiff(QDiv(Qr(r, c), K[r]), QOne))
TotalOff == \E k \in KeysOf(Sp) : QLe(Hundredth, QAbsDiff(Tot(k, c, Sp), Tot(k, cinit, Sp)))

(* invariants *)
TypeOK ==
    /\ phase \in {"sys", "state", "extent", "pert", "cfg", "done"}
    /\ R \subseteq HomogRx
    /\ \A s \in 1..NSp : ceq[s][2] > 0 /\ cinit[s][2] > 0 /\ c[s][2] > 0
    /\ Len(xi) <= Cardinality(R)

\* the backward construction yields an equilibrium state that conserves the initial totals
BackwardConstructionIsEquilibrium ==
    /\ phase = "pert" => ExpectedZero(R, ceq, cinit, K)
    /\ (Perturbed /\ pert.kind = "none") => Zero

\* every perturbation falsifies exactly the clause it targets
PerturbationBreaksOneClause ==
    Perturbed =>
        CASE pert.kind = "none"   -> AtEq /\ Keeps
          [] pert.kind = "extent" -> ~AtEq /\ Keeps
          [] pert.kind = "scale"  -> ~AtEq /\ ~Keeps
          [] pert.kind = "shift0" -> AtEq /\ ~Keeps

\* ... and by a margin (relative 1e-2 in a quotient, absolute 1e-2 in a total): no residual
\* of a perturbed case can be mistaken for rounding noise
PerturbationIsLarge ==
    Perturbed =>
        /\ pert.kind \in {"extent", "scale"} => QuotientOff
        /\ pert.kind \in {"scale", "shift0"} => TotalOff

\* balanced reactions span a subspace of the null space of the composition matrix: the
\* row-reduced formulation never has more equations than unknowns
NeverOverdetermined ==
    R # {} => /\ NEq(R, TRUE) <= Cardinality(Sp)
              /\ NEq(R, TRUE) <= NEq(R, FALSE)

------------------------------------------------------------------------------
(* case export *)
TakeAt(f, idx) == [j \in 1..Len(idx) |-> f[idx[j]]]
PairSeq(S) == SetToSortSeq(S, LAMBDA p, q : p[1] < q[1])
PosIn(seq, v) == CHOOSE j \in 1..Len(seq) : seq[j] = v

CaseIn ==
    LET ss == SpSeq(R)  rs == RxSeq(R) IN
    [species |-> [j \in 1..Len(ss) |-> [name |-> SpName[ss[j]], comp |-> PairSeq(SpComp[ss[j]])]],
     rxns    |-> [i \in 1..Len(rs) |-> PairSeq({<<PosIn(ss, p[1]), p[2]>> : p \in RxNu[rs[i]]})],
     rids    |-> rs,
     K       |-> TakeAt(K, rs),
     ceq     |-> TakeAt(ceq, ss),
     c0      |-> TakeAt(cinit, ss),
     c       |-> TakeAt(c, ss),
     xi      |-> xi,
     pert    |-> pert,
     ns      |-> cfg.ns, re |-> cfg.re, rp |-> cfg.rp]

CaseExp ==
    LET ss == SpSeq(R)  rs == RxSeq(R)  ks == KeySeq(Sp) IN
    [zero  |-> Zero, ateq |-> AtEq, keeps |-> Keeps,
     neq   |-> NEq(R, cfg.rp),
     q     |-> [i \in 1..Len(rs) |-> Qr(rs[i], c)],
     keys  |-> ks,
     totc  |-> [i \in 1..Len(ks) |-> Tot(ks[i], c, Sp)],
     tot0  |-> [i \in 1..Len(ks) |-> Tot(ks[i], cinit, Sp)],
     \* |f_i| < 10^-tolz for all i  <=> "zero";  some |f_i| > 10^-tolnz <=> "nonzero"
     tolz  |-> 10, tolnz |-> 6]

CaseRec == [in |-> CaseIn, exp |-> CaseExp,
            cls |-> cfg.ns \o (IF cfg.re THEN "-re" ELSE "") \o (IF cfg.rp THEN "-rp" ELSE "") \o "-" \o pert.kind]
Emit == Done => PrintT(<<"CASE", ToJson(CaseRec)>>)
=============================================================================
