INIT TInit
NEXT TNext
CONSTANTS
  RxnIds = {}
  MaxRxns = 0
  GridSeq <- EmptySeq
  StateModes = {}
  Patterns = {}
  Extents = {}
  Deltas = {}
  Factors = {}
  Shifts = {}
  PertKinds = {}
  NumSyss = {}
  RrefFlags = {}
  Options = {}
  MaxEvals = 3
  TraceSpecies = {}
  TraceExp <- TExp9
INVARIANT Verdict
INVARIANT BackwardConstructionIsEquilibrium
INVARIANT PerturbationBreaksOneClause
CHECK_DEADLOCK FALSE
