--------------------------- MODULE EquilibriaTrace ---------------------------
(* Trace validation for Equilibria (C07): evaluations of the real residual formulations on    *)
(* seeded systems and states beyond the exhaustive bounds (up to four reactions, finer        *)
(* grids) are replayed through the actions of Equilibria; TLC defines K, computes the         *)
(* expected judgement and compares it with what was observed.  A trace may contain several   *)
(* result events separated by "again": evaluations of ONE residual object with different      *)
(* parameters (history).  Batch protocol as in                                                *)
(* FormulaTrace.                                                                              *)
EXTENDS Equilibria, IOUtils

Traces == JsonDeserialize(IOEnv.TRACE_FILE)

VARIABLES tid, pos, verdict
tvars == <<vars, tid, pos, verdict>>

Ev == Traces[tid][pos]
SetOf(seq) == {seq[i] : i \in 1..Len(seq)}
EmptySeq == <<>>
TExp9 == -9

TInit == Init /\ tid \in 1..Len(Traces) /\ pos = 1 /\ verdict = "none"

Step(e) ==
    CASE e.ev = "sys"    -> ChooseSystem(SetOf(e.rs))
      [] e.ev = "conc"   -> SetConc(e.v)
      [] e.ev = "extent" -> SetExtent(e.x)
      [] e.ev = "pert"   -> CASE e.kind = "none"   -> NoPerturb
                              [] e.kind = "extent" -> BreakQuotient(e.i, e.a)
                              [] e.kind = "scale"  -> ScaleSpecies(e.i, e.a)
                              [] e.kind = "shift0" -> BreakConservation(e.i, e.a)
                              [] OTHER             -> FALSE
      [] e.ev = "again"  -> Again
      [] e.ev = "trace"  -> SetTrace(SetOf(e.T))
      [] OTHER           -> FALSE

\* the observation: number of equations, zero-ness class of the 50 digit residual, and the
\* public helpers equilibrium_quotients / composition_conservation at the judged state
ObsLen(e)   == ~e.obs.raised /\ e.obs.len = NEq(sys, e.rp) /\ WrittenLegal(e.opt[5], e.wr)
ObsZero(e)  == IF expd.zero THEN e.obs.cls = "zero" ELSE e.obs.cls = "nonzero"
ObsQ(e)     == e.obs.q = expd.q
ObsTot(e)   == /\ e.obs.keys = sys.ks /\ e.obs.totc = expd.totc /\ e.obs.tot0 = expd.tot0
               /\ e.obs.totcT = expd.totcT /\ e.obs.tot0T = expd.tot0T
\* argument forms: stacked float states (c, ceq), dict arguments, and the un-reduced (A, ks) / own constants
ObsForms(e) == /\ e.obs.qarr = <<expd.q, K>>
               /\ e.obs.totd = <<expd.totc, expd.tot0>>
               /\ e.obs.scA = sys.nu /\ e.obs.scK = K /\ e.obs.eqc = (IF e.opt[2] THEN SystemK ELSE K)
               \* options away from their default: a `small` without precipitates changes nothing, explicit
               \* eq_params are returned; frame: no argument is modified by a call
               /\ e.obs.eqcs = (IF e.opt[2] THEN SystemK ELSE K) /\ e.obs.eqcp = K /\ e.obs.mut = <<>>
ResultOK(e) == ObsLen(e) /\ ObsZero(e) /\ ObsQ(e) /\ ObsTot(e) /\ ObsForms(e)

TStep ==
    /\ verdict = "none" /\ pos <= Len(Traces[tid])
    /\ IF Ev.ev = "result"
       THEN Residual(Ev.ns, Ev.re, Ev.rp, Ev.opt) /\ ResultOK(Ev)
       ELSE Step(Ev)
    /\ verdict' = IF pos = Len(Traces[tid]) /\ Ev.ev = "result" THEN "accept" ELSE "none"
    /\ pos' = pos + 1 /\ UNCHANGED tid

TReject ==
    /\ verdict = "none" /\ ~ENABLED TStep
    /\ verdict' = "reject" /\ UNCHANGED <<vars, tid, pos>>

TNext == TStep \/ TReject

Clause ==
    IF pos > Len(Traces[tid]) THEN "no-result-event"
    ELSE LET e == Ev IN
      IF e.ev # "result" THEN "step:" \o e.ev
      ELSE IF phase # "cfg" THEN "notready"
      ELSE IF e.obs.raised THEN "raises"
      ELSE IF ~ObsLen(e) THEN "len"
      ELSE IF ~ObsZero(e) THEN (IF expd.zero THEN "zero-expected" ELSE "nonzero-expected")
      ELSE IF ~ObsQ(e) THEN "quotients"
      ELSE IF ~ObsTot(e) THEN "totals"
      ELSE IF e.obs.qarr # <<expd.q, K>> THEN "quotients-2d"
      ELSE IF e.obs.totd # <<expd.totc, expd.tot0>> THEN "totals-dict"
      ELSE "stoichs-constants"

Verdict == verdict # "none" =>
    PrintT(<<"VERDICT", tid, verdict, pos, IF verdict = "accept" THEN "" ELSE Clause>>)
=============================================================================
