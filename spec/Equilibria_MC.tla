--------------------------- MODULE Equilibria_MC ---------------------------
(* Constant definitions for the sliced exhaustive configurations of Equilibria (C07).        *)
EXTENDS Equilibria

R_All    == HomogRx
R_Acid   == {1, 2, 3, 4, 10, 11}
R_Cu     == {5, 6, 7, 8, 9}
G_Two    == << <<1, 2>>, <<2, 1>> >>
G_Three  == << <<1, 2>>, <<1, 1>>, <<2, 1>> >>
G_Four   == << <<1, 2>>, <<1, 1>>, <<2, 1>>, <<3, 1>> >>
G_Five   == << <<1, 4>>, <<1, 2>>, <<1, 1>>, <<3, 2>>, <<3, 1>> >>
M_Full   == {"full"}
M_Pat    == {"pattern"}
P_Few    == { <<1, 0>>, <<2, 1>> }
P_One    == { <<1, 0>> }
P_Many   == { <<1, 0>>, <<2, 1>>, <<3, 2>>, <<1, 3>>, <<4, 1>> }
P_Three  == { <<1, 0>>, <<2, 1>>, <<3, 2>> }
X_Zero   == { <<0, 1>> }
X_Few    == { <<0, 1>>, <<1, 4>> }
X_Signed == { <<0, 1>>, <<1, 4>>, <<-1, 4>>, <<1, 2>> }
D_Few    == { <<1, 8>>, <<-1, 8>> }
D_One    == { <<1, 8>> }
D_Many   == { <<1, 8>>, <<-1, 8>>, <<1, 16>>, <<-1, 5>> }
F_Few    == { <<2, 1>>, <<1, 2>> }
F_Many   == { <<2, 1>>, <<1, 2>>, <<3, 2>>, <<9, 10>> }
S_Few    == { <<1, 4>> }
S_Many   == { <<1, 4>>, <<-1, 8>>, <<1, 50>> }
K_All    == {"none", "extent", "scale", "shift0"}
K_None   == {"none"}
K_Two    == {"none", "extent"}
N_All    == {"Lin", "Log", "Square", "LinRel", "LinTanh"}
N_Lin    == {"Lin"}
N_Three  == {"Lin", "Log", "Square"}
N_Two    == {"Lin", "Log"}
FL_All   == { <<FALSE, FALSE>>, <<FALSE, TRUE>>, <<TRUE, FALSE>>, <<TRUE, TRUE>> }
FL_Plain == { <<FALSE, FALSE>> }
FL_Two   == { <<FALSE, FALSE>>, <<TRUE, TRUE>> }
O_Default == { <<"sympy", TRUE, "asc", "comp">> }
O_All    == {"sympy", "numpy", "math"} \X BOOLEAN \X {"asc", "rev"} \X {"comp", "formula"}
\* every value of every option at least once, and the plausible pairs
O_Hist   == { <<"sympy", TRUE, "asc", "comp">>, <<"numpy", TRUE, "rev", "formula">> }
O_Some   == { <<"sympy", TRUE, "asc", "comp">>, <<"numpy", TRUE, "rev", "formula">>, <<"math", TRUE, "asc", "formula">>,
              <<"sympy", FALSE, "rev", "comp">>, <<"numpy", FALSE, "asc", "comp">>, <<"sympy", TRUE, "rev", "formula">> }
=============================================================================
