--------------------------- MODULE Equilibria_MC ---------------------------
(* Constant definitions for the sliced exhaustive configurations of Equilibria (C07).        *)
EXTENDS Equilibria

R_All    == HomogRx
R_Acid   == {1, 2, 3, 4, 10, 11}
R_Cu     == {5, 6, 7, 8, 9}
G_Two    == << <<1, 2>>, <<2, 1>> >>
G_Three  == << <<1, 2>>, <<1, 1>>, <<2, 1>> >>
G_Four   == << <<1, 2>>, <<1, 1>>, <<2, 1>>, <<3, 1>> >>
G_Five   == << <<1, 4>>, <<1, 2>>, <<1, 1>>, <<3, 2>>, <<3, 1>> >>
M_Full   == {"full"}
M_Pat    == {"pattern"}
P_Few    == { <<1, 0>>, <<2, 1>> }
P_One    == { <<1, 0>> }
P_Many   == { <<1, 0>>, <<2, 1>>, <<3, 2>>, <<1, 3>>, <<4, 1>> }
P_Three  == { <<1, 0>>, <<2, 1>>, <<3, 2>> }
X_Zero   == { <<0, 1>> }
X_Few    == { <<0, 1>>, <<1, 4>> }
X_Half   == { <<0, 1>>, <<1, 2>> }
X_Signed == { <<0, 1>>, <<1, 4>>, <<-1, 4>>, <<1, 2>> }
D_Few    == { <<1, 8>>, <<-1, 8>> }
D_One    == { <<1, 8>> }
D_Many   == { <<1, 8>>, <<-1, 8>>, <<1, 16>>, <<-1, 5>> }
F_Few    == { <<2, 1>>, <<1, 2>> }
F_Many   == { <<2, 1>>, <<1, 2>>, <<3, 2>>, <<9, 10>> }
S_Few    == { <<1, 4>> }
S_Many   == { <<1, 4>>, <<-1, 8>>, <<1, 50>> }
K_All    == {"none", "extent", "scale", "shift0"}
K_None   == {"none"}
K_Two    == {"none", "extent"}
N_All    == {"Lin", "Log", "Square", "LinRel", "LinTanh"}
N_Lin    == {"Lin"}
N_Three  == {"Lin", "Log", "Square"}
N_Two    == {"Lin", "Log"}
N_NoTanh == {"Lin", "Log", "Square", "LinRel"}
FL_All   == { <<FALSE, FALSE>>, <<FALSE, TRUE>>, <<TRUE, FALSE>>, <<TRUE, TRUE>> }
FL_Plain == { <<FALSE, FALSE>> }
FL_Two   == { <<FALSE, FALSE>>, <<TRUE, TRUE>> }
O_Default == { <<"sympy", TRUE, "asc", "comp", "net">> }
O_Four   == {"sympy", "numpy", "math"} \X BOOLEAN \X {"asc", "rev"} \X {"comp", "formula", "alias"}
Idx(v, seq) == CHOOSE t \in 1..Len(seq) : seq[t] = v
\* a half-factorial selection of the first four options (every pair of values occurs), every written form
\* with the default bundle, and a few mixed ones
Half(o) == (Idx(o[1], <<"sympy", "numpy", "math">>) + (IF o[2] THEN 0 ELSE 1) + Idx(o[3], <<"asc", "rev">>)
            + Idx(o[4], <<"comp", "formula", "alias">>)) % 2 = 0
O_All    == { <<o[1], o[2], o[3], o[4], "net">> : o \in {p \in O_Four : Half(p)} } \cup
            { <<"sympy", TRUE, "asc", "comp", w>> : w \in {"net", "self", "other", "inact"} } \cup
            { <<"numpy", TRUE, "rev", "formula", "self">>, <<"math", FALSE, "asc", "alias", "other">>,
              <<"sympy", FALSE, "rev", "alias", "inact">> }
O_Hist   == { <<"sympy", TRUE, "asc", "comp", "net">>, <<"numpy", TRUE, "rev", "formula", "self">>,
              <<"sympy", FALSE, "asc", "alias", "net">> }
O_Some   == { <<"sympy", TRUE, "asc", "comp", "net">>, <<"numpy", TRUE, "rev", "formula", "other">>,
              <<"math", TRUE, "asc", "formula", "net">>, <<"sympy", FALSE, "rev", "comp", "self">>,
              <<"numpy", FALSE, "asc", "comp", "net">>, <<"sympy", TRUE, "rev", "formula", "inact">> }
T_Exp == -9
T_None == {}
T_Protons == {2, 3}        \* H+ and OH- on the 1e-9 scale: water-type constants around 1e-18
O_Trace == { <<"sympy", TRUE, "asc", "comp", "net">>, <<"sympy", FALSE, "asc", "comp", "net">>,
             <<"numpy", FALSE, "rev", "formula", "net">>, <<"math", TRUE, "rev", "formula", "self">> }
K_NoExtent == {"none", "scale", "shift0"}
O_Written == { <<"sympy", TRUE, "asc", "comp", w>> : w \in {"net", "self", "other", "inact"} }
=============================================================================
