INIT Init
NEXT Next
CONSTANTS
  RxnIds <- R_Acid
  MaxRxns = 2
  GridSeq <- G_Three
  StateModes <- M_Pat
  Patterns <- P_One
  Extents <- X_Zero
  Deltas <- D_Few
  Factors <- F_Few
  Shifts <- S_Few
  PertKinds <- K_All
  NumSyss <- N_All
  RrefFlags <- FL_All
  Options <- O_Default
  MaxEvals = 1
  TraceSpecies <- T_None
  TraceExp <- T_Exp
INVARIANT TypeOK
INVARIANT BackwardConstructionIsEquilibrium
INVARIANT PerturbationBreaksOneClause
INVARIANT PerturbationIsLarge
INVARIANT NeverOverdetermined
INVARIANT Emit
CHECK_DEADLOCK FALSE
