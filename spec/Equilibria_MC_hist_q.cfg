INIT Init
NEXT Next
CONSTANTS
  RxnIds <- R_Acid
  MaxRxns = 2
  GridSeq <- G_Three
  StateModes <- M_Pat
  Patterns <- P_Few
  Extents <- X_Zero
  Deltas <- D_One
  Factors <- F_Few
  Shifts <- S_Few
  PertKinds <- K_None
  NumSyss <- N_Two
  RrefFlags <- FL_Two
  Options <- O_Hist
  MaxEvals = 2
  TraceSpecies <- T_None
  TraceExp <- T_Exp
INVARIANT TypeOK
INVARIANT BackwardConstructionIsEquilibrium
INVARIANT PerturbationBreaksOneClause
INVARIANT PerturbationIsLarge
INVARIANT NeverOverdetermined
INVARIANT Emit
CHECK_DEADLOCK FALSE
