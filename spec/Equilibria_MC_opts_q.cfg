INIT Init
NEXT Next
CONSTANTS
  RxnIds <- R_Acid
  MaxRxns = 2
  GridSeq <- G_Four
  StateModes <- M_Pat
  Patterns <- P_One
  Extents <- X_Zero
  Deltas <- D_One
  Factors <- F_Few
  Shifts <- S_Few
  PertKinds <- K_Two
  NumSyss <- N_All
  RrefFlags <- FL_Two
  Options <- O_All
  MaxEvals = 1
  TraceSpecies <- T_None
  TraceExp <- T_Exp
INVARIANT TypeOK
INVARIANT BackwardConstructionIsEquilibrium
INVARIANT PerturbationBreaksOneClause
INVARIANT PerturbationIsLarge
INVARIANT NeverOverdetermined
INVARIANT Emit
CHECK_DEADLOCK FALSE
