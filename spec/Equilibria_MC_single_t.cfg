INIT Init
NEXT Next
CONSTANTS
  RxnIds <- R_All
  MaxRxns = 1
  GridSeq <- G_Three
  StateModes <- M_Full
  Patterns <- P_Few
  Extents <- X_Half
  Deltas <- D_Few
  Factors <- F_Few
  Shifts <- S_Many
  PertKinds <- K_All
  NumSyss <- N_Three
  RrefFlags <- FL_Plain
  Options <- O_Default
  MaxEvals = 1
  TraceSpecies <- T_None
  TraceExp <- T_Exp
INVARIANT TypeOK
INVARIANT BackwardConstructionIsEquilibrium
INVARIANT PerturbationBreaksOneClause
INVARIANT PerturbationIsLarge
INVARIANT NeverOverdetermined
INVARIANT Emit
CHECK_DEADLOCK FALSE
