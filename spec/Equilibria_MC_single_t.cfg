INIT Init
NEXT Next
CONSTANTS
  RxnIds <- R_All
  MaxRxns = 1
  GridSeq <- G_Four
  StateModes <- M_Full
  Patterns <- P_Few
  Extents <- X_Signed
  Deltas <- D_Many
  Factors <- F_Many
  Shifts <- S_Many
  PertKinds <- K_All
  NumSyss <- N_Three
  RrefFlags <- FL_Two
INVARIANT TypeOK
INVARIANT BackwardConstructionIsEquilibrium
INVARIANT PerturbationBreaksOneClause
INVARIANT PerturbationIsLarge
INVARIANT NeverOverdetermined
INVARIANT Emit
CHECK_DEADLOCK FALSE
