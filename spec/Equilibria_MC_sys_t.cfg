INIT Init
NEXT Next
CONSTANTS
  RxnIds <- R_All
  MaxRxns = 3
  GridSeq <- G_Five
  StateModes <- M_Pat
  Patterns <- P_Few
  Extents <- X_Few
  Deltas <- D_Few
  Factors <- F_Few
  Shifts <- S_Few
  PertKinds <- K_All
  NumSyss <- N_Lin
  RrefFlags <- FL_Two
  Options <- O_Default
  MaxEvals = 1
  TraceSpecies <- T_None
  TraceExp <- T_Exp
INVARIANT TypeOK
INVARIANT BackwardConstructionIsEquilibrium
INVARIANT PerturbationBreaksOneClause
INVARIANT PerturbationIsLarge
INVARIANT NeverOverdetermined
INVARIANT Emit
CHECK_DEADLOCK FALSE
