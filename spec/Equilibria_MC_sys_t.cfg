INIT Init
NEXT Next
CONSTANTS
  RxnIds <- R_All
  MaxRxns = 3
  GridSeq <- G_Five
  StateModes <- M_Pat
  Patterns <- P_Many
  Extents <- X_Few
  Deltas <- D_Many
  Factors <- F_Few
  Shifts <- S_Many
  PertKinds <- K_All
  NumSyss <- N_Three
  RrefFlags <- FL_All
INVARIANT TypeOK
INVARIANT BackwardConstructionIsEquilibrium
INVARIANT PerturbationBreaksOneClause
INVARIANT PerturbationIsLarge
INVARIANT NeverOverdetermined
INVARIANT Emit
CHECK_DEADLOCK FALSE
