INIT Init
NEXT Next
CONSTANTS
  RxnIds <- R_All
  MaxRxns = 2
  GridSeq <- G_Four
  StateModes <- M_Pat
  Patterns <- P_Few
  Extents <- X_Zero
  Deltas <- D_Few
  Factors <- F_Few
  Shifts <- S_Few
  PertKinds <- K_NoExtent
  NumSyss <- N_NoTanh
  RrefFlags <- FL_Two
  Options <- O_Trace
  MaxEvals = 1
  TraceSpecies <- T_Protons
  TraceExp <- T_Exp
INVARIANT TypeOK
INVARIANT BackwardConstructionIsEquilibrium
INVARIANT PerturbationBreaksOneClause
INVARIANT PerturbationIsLarge
INVARIANT NeverOverdetermined
INVARIANT Emit
CHECK_DEADLOCK FALSE
