---------------------------- MODULE ExprTree ----------------------------
(* Expression objects and rate-constant models (property C16): chempy.util._expr.Expr and its *)
(* subclasses in kinetics.rates, kinetics._rates, kinetics.arrhenius / eyring,                *)
(* thermodynamics.expressions, and the linearised fits.                                       *)
(*                                                                                            *)
(* Three machines share the variables (part selects one):                                     *)
(*  "resolve"  argument resolution.  A class with nargs <= 3 named arguments, some trailing   *)
(*             defaults, an instance with args (list / dict / scalar / absent), unique_keys   *)
(*             (absent or a prefix of the arguments) and a set of keys present in the         *)
(*             variables.  Resolve(i) says which SOURCE supplies argument i:                  *)
(*             override (variables[unique key]) > given argument > default; a given argument  *)
(*             that is a string names a variable, one that is an expression is evaluated.     *)
(*  "algebra"  expression trees built bottom-up (reverse Polish) with + - * / ** and          *)
(*             negation over Constant / Symbol leaves and raw Python ints / strings, together *)
(*             with the structure the operator overloads build (short-circuits x+0, x-0, x*1, *)
(*             x/1, -(-x), reflected operands); the value of the WRITTEN expression is        *)
(*             computed exactly by Terms!EvalQR at rational points.                           *)
(*  "laws"     the named rate-constant / equilibrium-constant models as TERMS (Terms.tla):    *)
(*             class x reaction order x override pattern x parameter set x temperature x      *)
(*             evaluation mode; TLC instantiates the defining formula, computes the value     *)
(*             exactly where it is rational and exports the term elsewhere.                   *)
(* Every terminal state is one case (Emit).                                                   *)
EXTENDS Integers, Sequences, FiniteSets, TLC, Json, Terms

CONSTANTS
    Parts,        \* subset of {"resolve", "algebra", "laws"}
    \* resolve
    MaxNArgs,     \* 1..3
    ArgKinds,     \* subset of {"num", "name", "expr"}
    \* algebra
    ConstLeaves,  \* integers wrapped as Constant(n)
    RawInts,      \* integers used as plain Python operands
    SymLeaves,    \* names wrapped as Symbol(unique_keys=(name,))
    RawStrs,      \* names used as plain Python strings (implicitly converted to Symbol)
    BinOps,       \* subset of {"add", "sub", "mul", "div", "pow"}
    AllowNeg,     \* BOOLEAN
    MaxLeaves, MaxDepth,
    Envs,         \* sequence of environments name -> <<n, d>>
    \* laws
    LawClasses,   \* subset of AllLawClasses
    Orders,       \* subset of 1..3 (reaction order / number of polynomial coefficients)
    Patterns,     \* subset of AllPatterns (override patterns)
    Modes,        \* subset of AllModes
    LawGrid,      \* class -> set of parameter sets [v |-> [arg -> Num], alt |-> [arg -> Num], env |-> [var -> Num]]
    TempGrid      \* set of Nums

VARIABLES part, stage, cfg, stack, out
vars == <<part, stage, cfg, stack, out>>

Init == part \in Parts /\ stage = "start" /\ cfg = [none |-> TRUE] /\ stack = <<>> /\ out = <<>>
Done == stage = "done"

(* Num: <<n, d, e>> = (n/d) * 10^e - decimal numbers over many decades within 32 bits *)
TNum(x) == IF x[3] = 0 THEN TQ(x[1], x[2]) ELSE TMul(TQ(x[1], x[2]), TPow(TC(10), TC(x[3])))
NumI(n) == <<n, 1, 0>>
Range(f) == { f[x] : x \in DOMAIN f }

------------------------------------------------------------------------------
(* PART (a): argument resolution                                                              *)
(*                                                                                            *)
(* cfg = [n: nargs, d: number of trailing defaults, g: number of given args (-1: args absent),*)
(*        form: "list" | "dict" | "scalar", kinds: <<kind of given arg i>>,                   *)
(*        u: number of unique keys (-1: absent), present: subset of 1..u in the variables]    *)
(* Values travel with their source: given number 10+i, default 20+i, override 30+i, variable  *)
(* named by a string argument 40+i, nested expression 50+i.                                   *)

CtorOK(c) ==    \* "Incorrect number of arguments / unique_keys" otherwise
    /\ (c.g = -1 \/ (c.g <= c.n /\ c.n - c.g <= c.d))
    /\ c.u <= c.n
HasDefault(c, i) == i > c.n - c.d

Source(c, i) ==
    IF c.u # -1 /\ i <= c.u /\ i \in c.present THEN "override"
    ELSE IF c.g # -1 THEN (IF i <= c.g THEN "arg" ELSE "default")
    ELSE \* args absent: only unique keys (Expr.fk) and defaults can supply the argument
         IF i <= c.u THEN (IF HasDefault(c, i) THEN "unspecified" ELSE "raise")
         ELSE (IF HasDefault(c, i) THEN "default" ELSE "unspecified")

(* every source supplies exactly 0 at one position (override 1, given number 2, default 3), so *)
(* that a falsy value is never mistaken for "absent"; at each position the sources stay distinct  *)
OvrVal(i)  == IF i = 1 THEN 0 ELSE 30 + i
ArgVal(i)  == IF i = 2 THEN 0 ELSE 10 + i
DefVal(i)  == IF i = 3 THEN 0 ELSE 20 + i
NameVal(i) == 40 + i
ExprVal(i) == 50 + i
ValueOf(c, i) ==
    LET s == Source(c, i) IN
    IF s = "override" THEN OvrVal(i)
    ELSE IF s = "default" THEN DefVal(i)
    ELSE IF s = "arg" THEN (IF c.kinds[i] = "num" THEN ArgVal(i) ELSE IF c.kinds[i] = "name" THEN NameVal(i) ELSE ExprVal(i))
    ELSE -1
Resolution(c) == [i \in 1..c.n |-> [src |-> Source(c, i), v |-> ValueOf(c, i)]]
(* arg(..., evaluate=False): a given argument that is an expression is handed back as the      *)
(* expression object itself, everything else as its value                                     *)
Unevaluated(c, i) == IF Source(c, i) = "arg" /\ c.kinds[i] = "expr" THEN "expr" ELSE "value"

SetClass(n, d) ==
    /\ part = "resolve" /\ stage = "start" /\ n \in 1..3 /\ d \in 0..n
    /\ cfg' = [n |-> n, d |-> d] /\ stage' = "args" /\ UNCHANGED <<part, stack, out>>

SetArgs(g, form, kinds) ==
    /\ part = "resolve" /\ stage = "args" /\ g \in (-1)..(cfg.n + 1)
    /\ form \in {"list", "dict", "scalar"}
    /\ Len(kinds) = (IF g = -1 THEN 0 ELSE g)
    /\ (form = "dict" => g = cfg.n) /\ (form = "scalar" => (g = 1 /\ cfg.n = 1 /\ cfg.d = 0 /\ kinds[1] # "name"))
    /\ cfg' = [n |-> cfg.n, d |-> cfg.d, g |-> g, form |-> form, kinds |-> kinds]
    /\ stage' = "keys" /\ UNCHANGED <<part, stack, out>>

SetKeys(u) ==
    /\ part = "resolve" /\ stage = "keys" /\ u \in (-1)..(cfg.n + 1)
    /\ ~(cfg.g = -1 /\ u = -1)        \* an instance without args and without keys denotes nothing
    /\ cfg' = [n |-> cfg.n, d |-> cfg.d, g |-> cfg.g, form |-> cfg.form, kinds |-> cfg.kinds, u |-> u]
    /\ stage' = "vars" /\ UNCHANGED <<part, stack, out>>

SetVars(S) ==
    /\ part = "resolve" /\ stage = "vars" /\ S \subseteq 1..cfg.u
    /\ cfg' = [n |-> cfg.n, d |-> cfg.d, g |-> cfg.g, form |-> cfg.form, kinds |-> cfg.kinds,
               u |-> cfg.u, present |-> S]
    /\ stage' = IF CtorOK(cfg) THEN "resolving" ELSE "done"
    /\ UNCHANGED <<part, stack, out>>

Resolve(i) ==
    /\ part = "resolve" /\ stage = "resolving" /\ i = Len(out) + 1 /\ i <= cfg.n
    /\ out' = Append(out, [src |-> Source(cfg, i), v |-> ValueOf(cfg, i)])
    /\ stage' = IF i = cfg.n THEN "done" ELSE "resolving"
    /\ UNCHANGED <<part, cfg, stack>>

KindSeqs(g) == IF g <= 0 THEN {<<>>} ELSE [1..g -> ArgKinds]
GenClass == \E n \in 1..MaxNArgs, d \in 0..MaxNArgs : SetClass(n, d)
GenArgs  == stage = "args" /\ \E g \in (-1)..(cfg.n + 1), form \in {"list", "dict", "scalar"} :
                \E ks \in KindSeqs(g) : SetArgs(g, form, ks)
GenKeys  == stage = "keys" /\ \E u \in (-1)..(cfg.n + 1) : SetKeys(u)
GenVars  == stage = "vars" /\ \E S \in SUBSET (1..(IF cfg.u > cfg.n THEN 0 ELSE cfg.u)) : SetVars(S)
GenResolve == stage = "resolving" /\ Resolve(Len(out) + 1)

(* "a named override replaces exactly that argument": switching one key on or off in the      *)
(* variables changes the resolution of that argument and of no other                          *)
WithPresent(c, S) == [c EXCEPT !.present = S]
OverrideReplacesExactlyOne ==
    (part = "resolve" /\ Done /\ CtorOK(cfg)) =>
        \A j \in 1..cfg.u :
            LET on  == Resolution(WithPresent(cfg, cfg.present \cup {j}))
                off == Resolution(WithPresent(cfg, cfg.present \ {j}))
            IN  /\ on[j] = [src |-> "override", v |-> OvrVal(j)]
                /\ off[j].src # "override"
                /\ \A i \in 1..cfg.n : i # j => on[i] = off[i]
(* and the recorded resolution is the one of the configuration *)
ResolutionRecorded == (part = "resolve" /\ Done /\ CtorOK(cfg)) => out = Resolution(cfg)
(* an override can only come from a key, a default only from the trailing defaults *)
SourcesSound ==
    (part = "resolve" /\ Done /\ CtorOK(cfg)) =>
        \A i \in 1..cfg.n :
            /\ (out[i].src = "override" => i <= cfg.u /\ i \in cfg.present)
            /\ (out[i].src = "default" => HasDefault(cfg, i))
            /\ (out[i].src = "arg" => cfg.g # -1 /\ i <= cfg.g)

------------------------------------------------------------------------------
(* PART (b): expression algebra                                                               *)
(*                                                                                            *)
(* Trees: [k |-> "C", v |-> n] Constant(n)   [k |-> "S", name |-> s] Symbol                  *)
(*        [k |-> "i", v |-> n] raw int       [k |-> "s", name |-> s] raw string               *)
(*        [k |-> "neg", a |-> t]             [k |-> op, a |-> t1, b |-> t2]                   *)
(* A stack entry carries the expression as WRITTEN (w) and the object the overloads BUILD (b).*)
LeafC(n) == [k |-> "C", v |-> n]
LeafS(s) == [k |-> "S", name |-> s]
RawI(n)  == [k |-> "i", v |-> n]
RawS(s)  == [k |-> "s", name |-> s]
IsRaw(t) == t.k \in {"i", "s"}
Bin(op, a, b) == [k |-> op, a |-> a, b |-> b]
NegT(a) == [k |-> "neg", a |-> a]

RECURSIVE ToTerm(_)
ToTerm(t) ==
    CASE t.k \in {"C", "i"} -> TC(t.v)
      [] t.k \in {"S", "s"} -> TVar(t.name)
      [] t.k = "neg" -> TNeg(ToTerm(t.a))
      [] t.k = "add" -> TAdd(ToTerm(t.a), ToTerm(t.b))
      [] t.k = "sub" -> TSub(ToTerm(t.a), ToTerm(t.b))
      [] t.k = "mul" -> TMul(ToTerm(t.a), ToTerm(t.b))
      [] t.k = "div" -> TDiv(ToTerm(t.a), ToTerm(t.b))
      [] t.k = "pow" -> TPow(ToTerm(t.a), ToTerm(t.b))
RECURSIVE Depth(_)
Depth(t) == IF t.k \in {"C", "S", "i", "s"} THEN 0
            ELSE IF t.k = "neg" THEN 1 + Depth(t.a)
            ELSE 1 + (IF Depth(t.a) > Depth(t.b) THEN Depth(t.a) ELSE Depth(t.b))

(* what the operator overloads construct *)
Conv(t) == IF t.k = "i" THEN LeafC(t.v) ELSE IF t.k = "s" THEN LeafS(t.name) ELSE t
RECURSIVE TriviallyZero(_)
TriviallyZero(t) == \/ (t.k = "C" /\ t.v = 0)
                    \/ (t.k = "mul" /\ (TriviallyZero(t.a) \/ TriviallyZero(t.b)))
IsRawInt(t, n) == t.k = "i" /\ t.v = n
BuildNeg(a) == IF a.k = "neg" THEN a.a ELSE NegT(a)                 \* -(-x) is x
BuildAddE(a, b) == IF TriviallyZero(Conv(b)) THEN a ELSE Bin("add", a, Conv(b))    \* a is an Expr
Build(op, a, b) ==
    IF ~IsRaw(a) THEN
        CASE op = "add" -> BuildAddE(a, b)
          [] op = "sub" -> IF IsRawInt(b, 0) THEN a ELSE Bin("sub", a, Conv(b))
          [] op = "mul" -> IF IsRawInt(b, 1) THEN a ELSE Bin("mul", a, Conv(b))
          [] op = "div" -> IF IsRawInt(b, 1) THEN a ELSE Bin("div", a, Conv(b))
          [] op = "pow" -> Bin("pow", a, Conv(b))
    ELSE \* reflected operand: a is a plain int / str, b an expression
        CASE op = "add" -> BuildAddE(b, a)                           \* b + a
          [] op = "sub" -> BuildAddE(BuildNeg(b), a)                 \* (-b) + a
          [] op = "mul" -> IF IsRawInt(a, 1) THEN b ELSE Bin("mul", b, Conv(a))      \* b * a
          [] op = "div" -> Bin("div", Conv(a), b)
          [] op = "pow" -> Bin("pow", Conv(a), b)

EnvCount == Len(Envs)
ValuesOf(t) == [e \in 1..EnvCount |-> EvalQR(ToTerm(t), Envs[e])]
(* values are carried with the stack entry and combined operation by operation (the            *)
(* compositional reading); at the end they must equal the value of the whole written term      *)
LeafValues(t) == [e \in 1..EnvCount |-> IF t.k \in {"C", "i"} THEN RQ(<<t.v, 1>>) ELSE RQ(Envs[e][t.name])]
NegR(x) == IF IsRQ(x) THEN RQ(QNeg(x.q)) ELSE x
ApplyOp(op, x, y) ==
    CASE op = "add" -> Lift2(SQAdd, x, y)
      [] op = "sub" -> Lift2(SQAdd, x, NegR(y))
      [] op = "mul" -> Lift2(SQMul, x, y)
      [] op = "div" -> RDivR(x, y)
      [] op = "pow" -> Lift2(RPow, x, y)
(* exponents stay small exact rationals (integers or halves) so that every value is a real     *)
(* number of moderate size under every backend                                                 *)
SmallExponentV(v) == \A e \in 1..EnvCount : v[e].st = "q" /\ v[e].q[2] \in {1, 2} /\ Abs(v[e].q[1]) <= 3 * v[e].q[2]

NLeaves == IF "nleaves" \in DOMAIN cfg THEN cfg.nleaves ELSE 0

Leaf(t) ==
    /\ part = "algebra" /\ stage \in {"start", "building"} /\ t.k \in {"C", "S", "i", "s"}
    /\ (t.k \in {"S", "s"} => \A e \in 1..EnvCount : t.name \in DOMAIN Envs[e])
    /\ stack' = Append(stack, [w |-> t, b |-> t, v |-> LeafValues(t)])
    /\ cfg' = [nleaves |-> NLeaves + 1] /\ stage' = "building" /\ UNCHANGED <<part, out>>

Op(op) ==
    /\ part = "algebra" /\ stage = "building" /\ Len(stack) >= 2
    /\ op \in {"add", "sub", "mul", "div", "pow"}
    /\ LET a == stack[Len(stack) - 1]
           b == stack[Len(stack)]
           nv == [e \in 1..EnvCount |-> ApplyOp(op, a.v[e], b.v[e])]
       IN  /\ ~(IsRaw(a.w) /\ IsRaw(b.w))          \* two plain Python operands are not an Expr operation
           /\ (op = "pow" => SmallExponentV(b.v))
           \* a value TLC does not compute exactly ("irr") could be zero or negative: divisors, and
           \* bases of negative or fractional powers, must be exact
           /\ (op = "div" => \A e \in 1..EnvCount : b.v[e].st = "q")
           /\ (op = "pow" => \A e \in 1..EnvCount :
                    (b.v[e].q[1] < 0 \/ b.v[e].q[2] # 1) => a.v[e].st = "q")
           /\ \A e \in 1..EnvCount : nv[e].st # "undef"
           /\ stack' = Append(SubSeq(stack, 1, Len(stack) - 2),
                              [w |-> Bin(op, a.w, b.w), b |-> Build(op, a.b, b.b), v |-> nv])
    /\ UNCHANGED <<part, stage, cfg, out>>

Negate ==
    /\ part = "algebra" /\ stage = "building" /\ Len(stack) >= 1
    /\ LET a == stack[Len(stack)]
       IN  /\ ~IsRaw(a.w) /\ (a.w.k = "neg" => a.w.a.k # "neg")                   \* at most -(-x)
           /\ stack' = Append(SubSeq(stack, 1, Len(stack) - 1),
                              [w |-> NegT(a.w), b |-> BuildNeg(a.b), v |-> [e \in 1..EnvCount |-> NegR(a.v[e])]])
    /\ UNCHANGED <<part, stage, cfg, out>>

FinishTree ==
    /\ part = "algebra" /\ stage = "building" /\ Len(stack) = 1 /\ ~IsRaw(stack[1].w)
    /\ out' = stack[1].v /\ stage' = "done" /\ UNCHANGED <<part, cfg, stack>>

AllLeaves == { LeafC(n) : n \in ConstLeaves } \cup { RawI(n) : n \in RawInts }
             \cup { LeafS(s) : s \in SymLeaves } \cup { RawS(s) : s \in RawStrs }
GenLeaf == \E t \in AllLeaves : NLeaves < MaxLeaves /\ Leaf(t)
GenOp   == \E op \in BinOps : Op(op)
            /\ Depth(Bin(op, stack[Len(stack) - 1].w, stack[Len(stack)].w)) <= MaxDepth
GenNeg  == AllowNeg /\ Negate /\ Depth(stack[Len(stack)].w) < MaxDepth

(* the overloads may restructure, never change the value: at every stage every entry of the   *)
(* stack denotes, at every sample point, the value of the expression as written               *)
ShortCircuitsPreserveValue ==
    (part = "algebra" /\ stack # <<>>) =>
        \* entries below the top were the top of an earlier state: checking the top is inductive
        LET top == stack[Len(stack)] IN
        \A e \in 1..EnvCount :
            LET vb == EvalQR(ToTerm(top.b), Envs[e])
            IN  (top.v[e].st = "q" /\ vb.st = "q") => top.v[e].q = vb.q
(* the value combined operation by operation is the value of the whole written term *)
CompositionalIsDenotational == (part = "algebra" /\ Done) => out = ValuesOf(stack[1].w)
(* the built object is an expression unless the entry is a single raw operand *)
BuiltIsExpr == (part = "algebra" /\ stack # <<>>) => (IsRaw(stack[Len(stack)].b) => IsRaw(stack[Len(stack)].w))

------------------------------------------------------------------------------
(* PART (c): named laws as terms                                                              *)
AllLawClasses == {"MassAction", "Arrhenius", "Eyring", "EyringHS", "Radiolytic", "RadiolyticAB",
    "TPoly", "RTPoly", "ShiftedTPoly", "ShiftedRTPoly", "Log10TPoly", "ShiftedLog10TPoly", "TPiecewise",
    "RampedTemp", "SinTemp", "Log10Wrap", "ExpWrap", "MassActionEq", "EqEquation", "GibbsEqConst",
    "ArrheniusParam", "EyringParam", "ArrheniusFromK", "ArrheniusAsRate", "EyringAsRate",
    "FitArrhenius", "FitEyring", "LeastSquares",
    \* factories: Expr.from_callback (the docstring's shifted polynomial), MassAction.from_callback,
    \* MassActionEq.from_callback
    "CallbackPoly", "MassActionCallback", "EqCallback",
    \* arithmetic on a UnaryWrapper (MassAction): ma*f, f*ma, ma/f with a number, ma*Expr, Expr*ma
    "MA_mul_num", "MA_rmul_num", "MA_div_num", "MA_mul_expr", "MA_rmul_expr",
    \* the pieces a parameter set hands to as_RateExpr: Ea/R ; kB/h*exp(dS/R), dH/R
    "ArrheniusParts", "EyringParts",
    \* create_Piecewise(..., nan_fallback=False) with three constant pieces
    "PiecewiseNum",
    \* Expr.from_callback(cb, argument_names=, argument_defaults=) and Expr.from_callback(cb, nargs=2)
    "CallbackDefault", "CallbackNargs",
    \* mk_Radiolytic(*names) for name sequences in GIVEN (not alphabetical) order
    "RadiolyticGA", "RadiolyticBA", "RadiolyticNGA"}
(* dose-rate names of the multi-dose radiolytic classes, in the order given to mk_Radiolytic: the i-th *)
(* yield argument belongs to the i-th name, whatever the alphabet says                                *)
DoseNames(c) == CASE c = "RadiolyticAB" -> <<"alpha", "beta">>
                  [] c = "RadiolyticGA" -> <<"gamma", "alpha">>
                  [] c = "RadiolyticBA" -> <<"beta", "alpha">>
                  [] c = "RadiolyticNGA" -> <<"n", "gamma", "alpha">>
                  [] OTHER -> <<>>
MultiDose == {"RadiolyticAB", "RadiolyticGA", "RadiolyticBA", "RadiolyticNGA"}
AllDoseNames == {"alpha", "beta", "gamma", "n"}
GNames == {"g"} \cup { "g_" \o n : n \in AllDoseNames }
DoseVars == {"doserate"} \cup { "doserate_" \o n : n \in AllDoseNames }
MAArith == {"MA_mul_num", "MA_rmul_num", "MA_div_num", "MA_mul_expr", "MA_rmul_expr"}
AllModes == {"math", "numpy", "nparray", "sympy", "units", "units-scaled"}    \* nparray: array-valued variables (two lanes)
AllPatterns == {"none", "first", "all", "absent", "second", "keys-only", "dict"}   \* dict: args given as {name: value}

(* arguments in order; the polynomial classes take Orders coefficients (after the shift) *)
Coefs(k) == [i \in 1..k |-> "c" \o ToString(i - 1)]
LawArgs(c, k) ==
    CASE c = "MassAction"   -> <<"k">>
      [] c = "Arrhenius"    -> <<"A", "Ea_over_R">>
      [] c = "Eyring"       -> <<"kB_h_times_exp_dS_R", "dH_over_R", "conc0">>
      [] c = "EyringHS"     -> <<"dH", "dS", "c0">>
      [] c = "Radiolytic"   -> <<"g">>
      [] c \in MultiDose    -> [i \in 1..Len(DoseNames(c)) |-> "g_" \o DoseNames(c)[i]]
      [] c \in {"TPoly", "RTPoly", "Log10TPoly", "Log10Wrap", "ExpWrap"} -> Coefs(k)
      [] c \in {"ShiftedTPoly", "ShiftedRTPoly", "ShiftedLog10TPoly"} -> <<"ref">> \o Coefs(k)
      [] c = "TPiecewise"   -> <<"lo", "p0", "p1", "mid", "q0", "q1", "hi">>
      [] c = "RampedTemp"   -> <<"T0", "dTdt">>
      [] c = "SinTemp"      -> <<"Tbase", "Tamp", "angvel", "phase">>
      [] c \in {"MassActionEq", "EqEquation"} -> <<"K">>
      [] c = "GibbsEqConst" -> <<"dH_over_R", "dS_over_R">>
      [] c \in {"ArrheniusParam", "ArrheniusAsRate"} -> <<"A", "Ea">>
      [] c = "EyringParam" -> <<"dH", "dS">>
      \* ordered like the arguments of the generated Eyring expression they feed: kB/h*exp(dS/R), dH/R
      [] c = "EyringAsRate" -> <<"dS", "dH">>
      [] c = "ArrheniusFromK" -> <<"Ea", "T0", "k0">>
      [] c = "FitArrhenius" -> <<"A", "B">>
      [] c = "FitEyring"    -> <<"a", "B">>
      [] c = "LeastSquares" -> <<"b0", "b1">>
      [] c = "CallbackPoly" -> <<"ref">> \o Coefs(k)
      [] c = "MassActionCallback" -> <<"A", "Ea_over_R">>
      [] c = "EqCallback"   -> <<"dH_over_R", "dS_over_R">>
      [] c \in MAArith      -> <<"k", "f">>
      [] c = "ArrheniusParts" -> <<"A", "Ea">>
      [] c = "EyringParts"  -> <<"dH", "dS">>
      [] c = "PiecewiseNum" -> <<"lo", "v0", "m1", "v1", "m2", "v2", "hi">>
      [] c \in {"CallbackDefault", "CallbackNargs"} -> <<"a", "b">>
(* classes whose instances are Expr objects with unique_keys (override patterns apply)        *)
ExprClasses == AllLawClasses \ ({"TPiecewise", "Log10Wrap", "ExpWrap", "ArrheniusParam", "EyringParam",
                                 "ArrheniusFromK", "FitArrhenius", "FitEyring", "LeastSquares",
                                 "ArrheniusParts", "EyringParts", "PiecewiseNum"} \cup MAArith)
(* classes that are rate expressions of a reaction: the value is multiplied by the mass-action *)
(* concentration product of the reaction of the given order                                    *)
RateClasses == {"MassAction", "Arrhenius", "Eyring", "EyringHS", "ArrheniusAsRate", "EyringAsRate",
                "MassActionCallback"} \cup MAArith
UsesOrder(c) == c \in RateClasses \cup {"TPoly", "RTPoly", "ShiftedTPoly", "ShiftedRTPoly", "Log10TPoly",
                                       "ShiftedLog10TPoly", "Log10Wrap", "ExpWrap", "CallbackPoly"}
UnitClasses == MultiDose \cup {"MassAction", "Arrhenius", "Eyring", "EyringHS", "Radiolytic", "RampedTemp",
                "GibbsEqConst", "ArrheniusParam", "EyringParam", "ArrheniusFromK", "ArrheniusAsRate",
                "EyringAsRate", "ArrheniusParts", "EyringParts"}
(* classes with variables besides the temperature (concentrations, dose rates, time): these are *)
(* evaluated with array-valued variables too                                                    *)
ArrayClasses == RateClasses \cup MultiDose \cup {"Radiolytic", "RampedTemp", "SinTemp", "EqEquation"}
ModesOf(c) == IF c \in {"FitArrhenius", "FitEyring", "LeastSquares"} THEN {"numpy"}
              ELSE (AllModes \ (IF c \in UnitClasses THEN {} ELSE {"units", "units-scaled"}))
                            \ (IF c \in ArrayClasses THEN {} ELSE {"nparray"})
(* array lanes: in mode nparray every variable in LaneVars is an array <<v * f : f in LaneFactors>> *)
LaneVars == {"X", "Y", "density", "time", "T"} \cup DoseVars
LaneFactors == <<<<1, 1>>, <<3, 2>>>>
ScaleNum(x, f) == <<x[1] * f[1], x[2] * f[2], x[3]>>

(* HISTORIES.  An expression is a pure function of the variables mapping it is given: evaluating *)
(* it again, evaluating it through Reaction.rate, or evaluating ANOTHER expression (a companion  *)
(* reaction X + Y -> Q with a plain mass-action constant) in between, all with the SAME mapping, *)
(* must give the same numbers, and the mapping must come back unchanged (frame condition).       *)
StepKinds == {"self", "rate", "companion", "update", "setarg"}
FullHistories == {<<"self">>, <<"self", "self">>, <<"companion", "self">>, <<"self", "companion", "rate">>,
                  <<"rate", "companion", "rate">>}
HistoriesOfForm(c, p, tf) ==
    IF tf = "expr" THEN {<<"self", "update", "self">>} \cup
                        (IF c \in RateClasses THEN {<<"rate", "update", "rate">>, <<"self", "update", "rate">>} ELSE {})
    ELSE IF c \in {"FitArrhenius", "FitEyring", "LeastSquares"} THEN {<<"self">>}
    ELSE IF c \in RateClasses /\ p \in {"none", "all"} THEN FullHistories
    \* the caller reassigns the first argument of the expression object between two evaluations
    ELSE IF c \in ExprClasses /\ c \notin {"ArrheniusAsRate", "EyringAsRate"} /\ p \in {"none", "first", "absent"}
         THEN {<<"self">>, <<"self", "self">>, <<"self", "setarg", "self">>}
    ELSE {<<"self">>, <<"self", "self">>}
IsPrefix(a, b) == Len(a) <= Len(b) /\ \A i \in 1..Len(a) : a[i] = b[i]
CompanionK == <<7, 4, 0>>
UsesTemp(c) == c \in {"Arrhenius", "Eyring", "EyringHS", "TPoly", "RTPoly", "ShiftedTPoly", "ShiftedRTPoly",
                      "TPiecewise", "Log10Wrap", "ExpWrap", "GibbsEqConst", "ArrheniusParam", "EyringParam",
                      "ArrheniusFromK", "ArrheniusAsRate", "EyringAsRate", "MassActionCallback", "EqCallback",
                      "PiecewiseNum", "CallbackDefault", "CallbackNargs"}

FixedNargs == MultiDose \cup {"MassAction", "Arrhenius", "Eyring", "EyringHS", "Radiolytic", "RampedTemp",
               "SinTemp", "MassActionEq", "EqEquation", "GibbsEqConst", "MassActionCallback", "EqCallback",
               "CallbackDefault"}
(* trailing defaults (Eyring / EyringHS: the standard-state concentration, 1 molar) *)
LawDefaults(c) == IF c = "Eyring" THEN [conc0 |-> NumI(1)] ELSE IF c = "EyringHS" THEN [c0 |-> NumI(1)]
                  ELSE IF c = "CallbackDefault" THEN [b |-> <<0, 1, 0>>]      \* a default that is exactly 0
                  ELSE <<>>

(* override patterns: number of unique keys (a prefix of the arguments) and which are present *)
PatternKeys(p, n) ==
    CASE p = "none"      -> [u |-> -1, present |-> {}]
      [] p = "first"     -> [u |-> 1, present |-> {1}]
      [] p = "all"       -> [u |-> n, present |-> 1..n]
      [] p = "absent"    -> [u |-> n, present |-> {}]
      [] p = "second"    -> [u |-> IF n >= 2 THEN 2 ELSE 1, present |-> IF n >= 2 THEN {2} ELSE {}]
      [] p = "keys-only" -> [u |-> n, present |-> 1..n]       \* Expr.fk(...): no args at all
      [] p = "dict"      -> [u |-> -1, present |-> {}]
PatternArgsAbsent(p) == p = "keys-only"

(* bracketed physical constants: either CODATA vintage in the code is accepted; every law is   *)
(* monotone in each of them, so the extreme values are attained at the corners                 *)
Brackets == [R_gas |-> <<"8.3144", "8.3145">>, kB_over_h |-> <<"2.08366e10", "2.08367e10">>]
RGas == TVar("R_gas")
KBH  == TVar("kB_over_h")

ConcProd(order, x) ==      \* X -> P ; X + Y -> P ; 2 X + Y -> P
    IF order = 1 THEN x["X"]
    ELSE IF order = 2 THEN TMul(x["X"], x["Y"])
    ELSE TMul(TSq(x["X"]), x["Y"])
PolyT(a, names, x) == TSum([i \in 1..Len(names) |-> TMul(a[names[i]], TPowI(x, i - 1))])
RPolyT(a, names, x) == TSum([i \in 1..Len(names) |-> TMul(a[names[i]], TPowI(x, 1 - i))])

(* the defining formulas.  a: argument name -> term (effective arguments), x: variable name -> *)
(* term, k: order.  One term per returned component.                                           *)
LawTerms(c, a, x, k) ==
    CASE c = "MassAction" -> <<TMul(a["k"], ConcProd(k, x))>>
      [] c = "Arrhenius"  -> <<TMul3(a["A"], TExp(TNeg(TDiv(a["Ea_over_R"], x["T"]))), ConcProd(k, x))>>
      [] c = "Eyring"     -> <<TProd(<<a["kB_h_times_exp_dS_R"], x["T"], TExp(TNeg(TDiv(a["dH_over_R"], x["T"]))),
                                       TPowI(a["conc0"], 1 - k), ConcProd(k, x)>>)>>
      [] c = "EyringHS"   -> <<TProd(<<TDiv(x["kB"], x["h"]), x["T"],
                                       TExp(TNeg(TDiv(TSub(a["dH"], TMul(x["T"], a["dS"])), TMul(x["R"], x["T"])))),
                                       TPowI(a["c0"], 1 - k), ConcProd(k, x)>>)>>
      [] c = "Radiolytic" -> <<TMul3(x["density"], x["doserate"], a["g"])>>
      [] c \in MultiDose  -> <<TMul(x["density"], TSum([i \in 1..Len(DoseNames(c)) |->
                                    TMul(x["doserate_" \o DoseNames(c)[i]], a["g_" \o DoseNames(c)[i]])]))>>
      [] c = "TPoly"      -> <<PolyT(a, Coefs(k), x["T"])>>
      [] c = "RTPoly"     -> <<RPolyT(a, Coefs(k), x["T"])>>
      [] c = "ShiftedTPoly"  -> <<PolyT(a, Coefs(k), TSub(x["T"], a["ref"]))>>
      [] c = "ShiftedRTPoly" -> <<RPolyT(a, Coefs(k), TSub(x["T"], a["ref"]))>>
      [] c = "Log10TPoly" -> <<PolyT(a, Coefs(k), x["log10_T"])>>
      [] c = "ShiftedLog10TPoly" -> <<PolyT(a, Coefs(k), TSub(x["log10_T"], a["ref"]))>>
      [] c = "Log10Wrap"  -> <<TLog10(PolyT(a, Coefs(k), x["T"]))>>
      [] c = "ExpWrap"    -> <<TExp(PolyT(a, Coefs(k), x["T"]))>>
      [] c = "RampedTemp" -> <<TAdd(a["T0"], TMul(a["dTdt"], x["time"]))>>
      [] c = "SinTemp"    -> <<TAdd(a["Tbase"], TMul(a["Tamp"], TSin(TAdd(TMul(a["angvel"], x["time"]), a["phase"]))))>>
      [] c = "MassActionEq" -> <<a["K"]>>
      [] c = "EqEquation" -> <<TSub(a["K"], TDiv(TSq(x["Y"]), x["X"]))>>     \* X = 2 Y : K - [Y]^2/[X]
      [] c = "GibbsEqConst" -> <<TExp(TSub(a["dS_over_R"], TDiv(a["dH_over_R"], x["T"])))>>
      [] c = "ArrheniusParam" -> <<TMul(a["A"], TExp(TNeg(TDiv(a["Ea"], TMul(RGas, x["T"])))))>>
      [] c = "ArrheniusAsRate" -> <<TMul3(a["A"], TExp(TNeg(TDiv(a["Ea"], TMul(RGas, x["T"])))), ConcProd(k, x))>>
      [] c = "EyringParam" -> <<TProd(<<KBH, x["T"], TExp(TDiv(a["dS"], RGas)),
                                        TExp(TNeg(TDiv(a["dH"], TMul(RGas, x["T"]))))>>)>>
      [] c = "EyringAsRate" -> <<TProd(<<a["pref"], x["T"],
                                         TExp(TNeg(TDiv(a["dH"], TMul(RGas, x["T"])))), ConcProd(k, x)>>)>>
      \* a parameter set constructed from the rate constant k0 known at T0: A = k0*exp(Ea/(R T0)),
      \* value at T; at T = T0 the construction must reproduce k0 itself
      [] c = "ArrheniusFromK" -> <<TMul(a["k0"], TExp(TMul(TDiv(a["Ea"], RGas),
                                                     TSub(TInv(a["T0"]), TInv(x["T"]))))),
                                   TMul(a["k0"], TExp(TDiv(a["Ea"], TMul(RGas, a["T0"]))))>>
      \* linearised fits on exact synthetic data k_i = A*exp(-B/T_i)  resp.  k_i = T_i*exp(a - B/T_i)
      [] c = "FitArrhenius" -> <<a["A"], TMul(a["B"], RGas)>>
      [] c = "FitEyring"  -> <<TMul(a["B"], RGas), TMul(RGas, TSub(a["a"], TLog(KBH)))>>
      [] c = "LeastSquares" -> <<a["b0"], a["b1"]>>
      [] c = "CallbackPoly" -> <<PolyT(a, Coefs(k), TSub(x["x"], a["ref"]))>>
      [] c = "MassActionCallback" -> <<TMul3(a["A"], TExp(TNeg(TDiv(a["Ea_over_R"], x["T"]))), ConcProd(k, x))>>
      [] c = "EqCallback" -> <<TExp(TSub(a["dS_over_R"], TDiv(a["dH_over_R"], x["T"])))>>
      [] c \in {"MA_mul_num", "MA_rmul_num", "MA_mul_expr", "MA_rmul_expr"} -> <<TMul3(a["k"], a["f"], ConcProd(k, x))>>
      [] c = "MA_div_num" -> <<TMul(TDiv(a["k"], a["f"]), ConcProd(k, x))>>
      [] c \in {"CallbackDefault", "CallbackNargs"} -> <<TAdd(TMul(a["a"], x["T"]), a["b"])>>
      [] c = "ArrheniusParts" -> <<TDiv(a["Ea"], RGas)>>
      [] c = "EyringParts" -> <<TMul(KBH, TExp(TDiv(a["dS"], RGas))), TDiv(a["dH"], RGas)>>

(* three constant pieces lo..m1..m2..hi, bounds inclusive; outside [lo, hi] evaluation must be refused *)
QOf(t) == EvalQR(t, <<>>).q
PiecewiseNumOut(a, x) == QLt(QOf(x["T"]), QOf(a["lo"])) \/ QLt(QOf(a["hi"]), QOf(x["T"]))
PiecewiseNumTerm(a, x) ==
    IF PiecewiseNumOut(a, x) THEN <<TC(0)>>
    ELSE IF QLe(QOf(x["T"]), QOf(a["m1"])) THEN <<a["v0"]>>
    ELSE IF QLe(QOf(x["T"]), QOf(a["m2"])) THEN <<a["v1"]>> ELSE <<a["v2"]>>

(* piecewise: lo <= T <= mid -> p0 + p1*T ; mid <= T <= hi -> q0 + q1*T (first matching piece) *)
PiecewiseTerm(a, x, env0) ==
    LET inFirst == LET t == EvalQR(x["T"], env0)  lo == EvalQR(a["lo"], env0)  mid == EvalQR(a["mid"], env0)
                   IN  QLe(lo.q, t.q) /\ QLe(t.q, mid.q)
    IN  IF inFirst THEN <<TAdd(a["p0"], TMul(a["p1"], x["T"]))>> ELSE <<TAdd(a["q0"], TMul(a["q1"], x["T"]))>>

(* synthetic data of the fits, as terms over the grid temperatures / abscissae *)
FitData(c, a, xs) ==
    CASE c = "FitArrhenius" -> [i \in 1..Len(xs) |-> TMul(a["A"], TExp(TNeg(TDiv(a["B"], xs[i]))))]
      [] c = "FitEyring"    -> [i \in 1..Len(xs) |-> TMul(xs[i], TExp(TSub(a["a"], TDiv(a["B"], xs[i]))))]
      [] c = "LeastSquares" -> [i \in 1..Len(xs) |-> TAdd(a["b0"], TMul(a["b1"], xs[i]))]
      [] OTHER -> <<>>
FitXs == <<TC(250), TC(300), TC(400), TC(500), TC(800)>>

(* units (mode "units"): unit of every input and of the result, by class and order             *)
ConcPow(k) == IF k = 1 THEN "1/s" ELSE IF k = 2 THEN "1/M/s" ELSE "1/M**2/s"
UnitOf(c, name, k) ==
    CASE name \in {"T", "T0", "Tbase", "Tamp", "Ea_over_R", "dH_over_R", "ref"} -> "K"
      [] name \in {"X", "Y", "conc0", "c0"} -> "M"
      [] name \in {"k", "A", "k0"} -> IF c \in {"ArrheniusParam", "ArrheniusFromK"} THEN "1/s" ELSE ConcPow(k)
      [] name = "kB_h_times_exp_dS_R" -> "1/s/K"     \* kB/h * exp(dS/R); the standard state supplies M^(1-order)
      [] name \in {"Ea", "dH"} -> "J/mol"
      [] name = "dS" -> "J/K/mol"
      [] name = "R" -> "J/K/mol"
      [] name = "kB" -> "J/K"
      [] name = "h" -> "J*s"
      [] name \in GNames -> "mol/J"
      [] name = "density" -> "kg/dm3"
      [] name \in DoseVars -> "Gy/s"
      [] name = "dTdt" -> "K/s"
      [] name = "time" -> "s"
      [] OTHER -> ""
(* mode "units-scaled": the same physical value handed over in a scaled / non-SI-coherent unit *)
(* (thermochemical calories, millimolar, milliseconds); f = size of the unit in coherent units, *)
(* exact.  The expected terms do not change: a quantity denotes its value whatever its unit.    *)
AltUnit(u) ==
    CASE u = "J/mol"   -> [u |-> "kcal/mol", f |-> <<4184, 1>>]
      [] u = "J/K/mol" -> [u |-> "cal/K/mol", f |-> <<523, 125>>]
      [] u = "M"       -> [u |-> "mM", f |-> <<1, 1000>>]
      [] u = "s"       -> [u |-> "ms", f |-> <<1, 1000>>]
      [] u = "K/s"     -> [u |-> "K/ms", f |-> <<1000, 1>>]
      [] OTHER         -> [u |-> u, f |-> <<1, 1>>]
UnitGiven(c, name, k, mode) == IF mode = "units-scaled" THEN AltUnit(UnitOf(c, name, k)) ELSE [u |-> UnitOf(c, name, k), f |-> <<1, 1>>]
ResultUnits(c, k) ==
    CASE c \in {"MassAction", "Arrhenius", "Eyring", "EyringHS", "ArrheniusAsRate", "EyringAsRate",
                "Radiolytic"} \cup MultiDose -> <<"M/s">>
      [] c \in {"ArrheniusParam", "EyringParam"} -> <<"1/s">>
      [] c = "ArrheniusFromK" -> <<"1/s", "1/s">>
      [] c = "RampedTemp" -> <<"K">>
      [] c = "ArrheniusParts" -> <<"K">>
      [] c = "EyringParts" -> <<"1/s/K", "K">>
      [] OTHER -> <<"">>

(* the ways a fit / regression entry point can be called on the same exact data *)
FitVariants(c) ==
    IF c = "FitArrhenius" THEN <<"kerr=None", "kerr=1%", "kerr=mixed", "nonlinear", "nonlinear-kerr", "from_fit_of_data">>
    ELSE IF c = "FitEyring" THEN <<"kerr=None", "kerr=1%", "kerr=mixed", "nonlinear", "nonlinear-kerr">>
    ELSE IF c = "LeastSquares" THEN <<"ols", "weighted", "weighted-mixed", "irls", "irls-gaussian-itermax3", "irls-exp", "units">>
    ELSE <<>>
(* the mapping's keys for the abstract species: real keys carry charges and phase marks *)
SpeciesKeys == [X |-> "Fe+3", Y |-> "SCN-(aq)", P |-> "FeSCN+2", Q |-> "Q*"]
(* cfg = [cls, order, pattern, pset (parameter set), temp, mode] *)
ChooseLaw(c, k, p) ==
    /\ part = "laws" /\ stage = "start" /\ c \in AllLawClasses /\ k \in 1..3 /\ p \in AllPatterns
    /\ (~UsesOrder(c) => k = 1)
    /\ (c \notin ExprClasses => p = "none")
    /\ (p \in {"keys-only", "dict"} => c \in FixedNargs)  \* Expr.fk / dict args need a class that names its arguments
    /\ (c \in {"ArrheniusAsRate", "EyringAsRate"} => p \in {"none", "first", "second", "all", "absent"})
    /\ cfg' = [cls |-> c, order |-> k, pattern |-> p] /\ stage' = "pset" /\ UNCHANGED <<part, stack, out>>

ChooseParams(ps) ==
    /\ part = "laws" /\ stage = "pset"
    /\ ps.ngiven >= Len(LawArgs(cfg.cls, cfg.order)) - Cardinality(DOMAIN LawDefaults(cfg.cls))
    /\ (PatternArgsAbsent(cfg.pattern) \/ cfg.pattern = "dict" => ps.ngiven >= Len(LawArgs(cfg.cls, cfg.order)))
       \* a dict names every argument ("converted to a list using argument_names")
    /\ cfg' = [cls |-> cfg.cls, order |-> cfg.order, pattern |-> cfg.pattern, pset |-> ps]
    /\ stage' = "temp" /\ UNCHANGED <<part, stack, out>>

(* PARAMETERS GIVEN AS EXPRESSIONS.  A parameter key of the variables mapping may itself hold an    *)
(* expression (Expr.all_params evaluates it): the temperature as a programme RampedTemp(T0, dTdt) of *)
(* the variable "time".  The caller may then change "time" between evaluations (step "update"); the  *)
(* next evaluation must see the new temperature, and the mapping still holds the programme.          *)
NestedTClasses == {"TPoly", "RTPoly", "ShiftedTPoly", "ShiftedRTPoly", "GibbsEqConst", "MassActionCallback",
                   "EqCallback", "ExpWrap", "Log10Wrap"}
RampRate == 2      \* K per unit time
Time0 == 10
Time1 == 25
ChooseTemp(t, tf) ==
    /\ part = "laws" /\ stage = "temp" /\ tf \in {"value", "expr"}
    /\ (tf = "expr" => cfg.cls \in NestedTClasses /\ t[3] = 0)
    /\ cfg' = [cls |-> cfg.cls, order |-> cfg.order, pattern |-> cfg.pattern, pset |-> cfg.pset, temp |-> t,
               tform |-> tf, time |-> Time0, argset |-> FALSE]
    /\ stage' = "mode" /\ UNCHANGED <<part, stack, out>>

Evaluate(m) ==
    /\ part = "laws" /\ stage = "mode" /\ m \in ModesOf(cfg.cls)
    \* a defaulted standard state is a quantity (1 molar): only meaningful with units
    /\ (cfg.pset.ngiven < Len(LawArgs(cfg.cls, cfg.order)) /\ cfg.cls \in {"Eyring", "EyringHS"}
          => m \in {"units", "units-scaled"})
    \* outside the bounds of a piecewise definition only the numeric backends refuse (ValueError)
    /\ (cfg.cls = "PiecewiseNum" => m \in {"math", "numpy"} \/
          LET a == [nm \in DOMAIN cfg.pset.v |-> TNum(cfg.pset.v[nm])] IN ~PiecewiseNumOut(a, [T |-> TNum(cfg.temp)]))
    /\ (cfg.tform = "expr" => m \in {"math", "numpy", "sympy", "units"})
    /\ cfg' = [cls |-> cfg.cls, order |-> cfg.order, pattern |-> cfg.pattern, pset |-> cfg.pset,
               temp |-> cfg.temp, tform |-> cfg.tform, time |-> cfg.time, argset |-> FALSE, mode |-> m]
    /\ stage' = "hist" /\ stack' = <<>> /\ UNCHANGED <<part, out>>

GenLaw   == \E c \in LawClasses, k \in Orders, p \in Patterns : ChooseLaw(c, k, p)
GenPset  == stage = "pset" /\ \E ps \in LawGrid[cfg.cls] : ChooseParams(ps)
GenTemp  == stage = "temp" /\ \E t \in (IF UsesTemp(cfg.cls) THEN TempGrid ELSE {NumI(0)}), tf \in {"value", "expr"} :
                                   ChooseTemp(t, tf)
GenMode  == \E m \in Modes : Evaluate(m)

(* the arguments that take effect: an argument whose key is present is replaced by its         *)
(* override value, every other argument keeps the given (or default) value                     *)
LawN == Len(LawArgs(cfg.cls, cfg.order))
LawKeys == PatternKeys(cfg.pattern, LawN)
ArgName(i) == LawArgs(cfg.cls, cfg.order)[i]
Overridden(i) == LawKeys.u # -1 /\ i <= LawKeys.u /\ i \in LawKeys.present
EffArgs == [nm \in Range(LawArgs(cfg.cls, cfg.order)) |->
              LET i == CHOOSE j \in 1..LawN : ArgName(j) = nm
              IN  IF Overridden(i) \/ (i = 1 /\ cfg.argset) THEN cfg.pset.alt[nm]
                  ELSE IF i > cfg.pset.ngiven THEN LawDefaults(cfg.cls)[nm] ELSE cfg.pset.v[nm]]
(* as_RateExpr(unique_keys): the keys name the arguments of the GENERATED expression - Arrhenius(A,   *)
(* Ea_over_R), Eyring(kB/h*exp(dS/R), dH_over_R).  A present key replaces exactly that derived        *)
(* argument (its override value is pset.alt of the parameter it is derived from), nothing else.       *)
EffTerms ==
    IF cfg.cls = "ArrheniusAsRate" THEN
        [A |-> TNum(EffArgs["A"]),
         Ea |-> IF Overridden(2) THEN TMul(TNum(cfg.pset.alt["Ea"]), RGas) ELSE TNum(cfg.pset.v["Ea"])]
    ELSE IF cfg.cls = "EyringAsRate" THEN
        [pref |-> IF Overridden(1) THEN TNum(cfg.pset.alt["dS"]) ELSE TMul(KBH, TExp(TDiv(TNum(cfg.pset.v["dS"]), RGas))),
         dH |-> IF Overridden(2) THEN TMul(TNum(cfg.pset.alt["dH"]), RGas) ELSE TNum(cfg.pset.v["dH"])]
    ELSE [nm \in DOMAIN EffArgs |-> TNum(EffArgs[nm])]
KeyUnit(c, nm, k) == IF c = "ArrheniusAsRate" /\ nm = "Ea" THEN "K"
                     ELSE IF c = "EyringAsRate" /\ nm = "dS" THEN "1/s/K"
                     ELSE IF c = "EyringAsRate" /\ nm = "dH" THEN "K" ELSE UnitOf(c, nm, k)
(* the variables mapping handed to every evaluation of the history (the caller's store) *)
(* cfg.temp is the temperature at Time0; under a programme it moves with cfg.time *)
TempNow == IF cfg.tform = "expr"
           THEN <<cfg.temp[1] + RampRate * (cfg.time - Time0) * cfg.temp[2], cfg.temp[2], 0>> ELSE cfg.temp
RampT0 == <<cfg.temp[1] - RampRate * Time0 * cfg.temp[2], cfg.temp[2], 0>>
Store == [nm \in DOMAIN cfg.pset.env \cup {"T"} \cup (IF cfg.tform = "expr" THEN {"time"} ELSE {}) |->
            IF nm = "T" THEN TempNow ELSE IF nm = "time" /\ cfg.tform = "expr" THEN NumI(cfg.time) ELSE cfg.pset.env[nm]]
NLanes == IF cfg.mode = "nparray" THEN Len(LaneFactors) ELSE 1
LaneValue(nm, l) == IF cfg.mode = "nparray" /\ nm \in LaneVars THEN ScaleNum(Store[nm], LaneFactors[l]) ELSE Store[nm]
VarTermsLane(l) == [nm \in DOMAIN Store |-> TNum(LaneValue(nm, l))]
VarTerms == [nm \in DOMAIN Store |-> TNum(Store[nm])]
LawValueTermsLane(l) ==
    IF cfg.cls = "PiecewiseNum" THEN PiecewiseNumTerm(EffTerms, VarTermsLane(l))
    ELSE IF cfg.cls = "TPiecewise" THEN PiecewiseTerm(EffTerms, VarTermsLane(l), <<>>)
    ELSE LawTerms(cfg.cls, EffTerms, VarTermsLane(l), cfg.order)
MustRaise == cfg.cls = "PiecewiseNum" /\ PiecewiseNumOut(EffTerms, VarTerms)
LawValueTerms ==
    IF cfg.cls = "PiecewiseNum" THEN PiecewiseNumTerm(EffTerms, VarTerms)
    ELSE IF cfg.cls = "TPiecewise" THEN PiecewiseTerm(EffTerms, VarTerms, <<>>)
    ELSE LawTerms(cfg.cls, EffTerms, VarTerms, cfg.order)
CompanionTermsLane(l) == LET x == VarTermsLane(l) IN <<TMul3(TNum(CompanionK), x["X"], x["Y"])>>
StepTermsLane(who, l) == IF who = "companion" THEN CompanionTermsLane(l) ELSE LawValueTermsLane(l)

(* one evaluation of the history; the store is only read (UNCHANGED cfg is the frame condition) *)
Whos == [i \in 1..Len(stack) |-> stack[i].who]
EvalStep(who) ==
    /\ part = "laws" /\ stage = "hist" /\ who \in StepKinds
    /\ (who \in {"rate", "companion"} => cfg.cls \in RateClasses)
    /\ who \notin {"update", "setarg"}
    /\ stack' = Append(stack, [who |-> who, store |-> Store,
                               lanes |-> [l \in 1..NLanes |-> StepTermsLane(who, l)]])
    /\ UNCHANGED <<part, stage, cfg, out>>
(* the CALLER changes a variable of the mapping between two evaluations (the only way the store moves) *)
UpdateStep ==
    /\ part = "laws" /\ stage = "hist" /\ cfg.tform = "expr" /\ cfg.time = Time0
    /\ cfg' = [cfg EXCEPT !.time = Time1]
    /\ stack' = Append(stack, [who |-> "update", store |-> [Store EXCEPT !["time"] = NumI(Time1), !["T"] =
                                   <<cfg.temp[1] + RampRate * (Time1 - Time0) * cfg.temp[2], cfg.temp[2], 0>>],
                               lanes |-> <<>>])
    /\ UNCHANGED <<part, stage, out>>
(* the CALLER assigns a new first argument to the expression object (expr.args = [new, ...]): the next *)
(* evaluation uses it; an override by key still wins                                                  *)
SetArgStep ==
    /\ part = "laws" /\ stage = "hist" /\ ~cfg.argset
    /\ cfg' = [cfg EXCEPT !.argset = TRUE]
    /\ stack' = Append(stack, [who |-> "setarg", store |-> Store, lanes |-> <<>>])
    /\ UNCHANGED <<part, stage, out>>
FinishHist ==
    /\ part = "laws" /\ stage = "hist" /\ Len(stack) >= 1
    /\ stage' = "done" /\ UNCHANGED <<part, cfg, stack, out>>
GenStep == \E who \in StepKinds :
              /\ stage = "hist"
              /\ \E h \in HistoriesOfForm(cfg.cls, cfg.pattern, cfg.tform) : IsPrefix(Append(Whos, who), h)
              /\ (IF who = "update" THEN UpdateStep ELSE IF who = "setarg" THEN SetArgStep ELSE EvalStep(who))
GenFinishHist == stage = "hist" /\ Whos \in HistoriesOfForm(cfg.cls, cfg.pattern, cfg.tform) /\ FinishHist

(* every evaluation saw the store that was passed in, and evaluations of the same expression    *)
(* are indistinguishable whatever happened before them                                           *)
EvaluationIsPure ==
    (part = "laws" /\ stage \in {"hist", "done"}) =>
        /\ (stack # <<>> => stack[Len(stack)].store = Store)
        \* between two updates by the caller nothing moves: same store, same terms for the same expression
        /\ \A i, j \in 1..Len(stack) :
              (i < j /\ \A m \in i..j : stack[m].who \notin {"update", "setarg"}) =>
                 /\ stack[i].store = stack[j].store
                 /\ ((stack[i].who = "companion") = (stack[j].who = "companion") => stack[i].lanes = stack[j].lanes)
        \* an update is seen by the evaluation that follows it
        /\ \A i \in 2..Len(stack) : stack[i].who = "update" => stack[i].store # stack[i - 1].store
UsedBrackets(ts) == (UNION { TermVars(ts[i]) : i \in 1..Len(ts) }) \cap DOMAIN Brackets

(* the law-level statement of "a named override replaces exactly that argument" *)
LawOverrideExact ==
    (part = "laws" /\ Done) =>
        \A i \in 1..LawN : EffArgs[ArgName(i)] = IF Overridden(i) \/ (i = 1 /\ cfg.argset) THEN cfg.pset.alt[ArgName(i)]
                                                 ELSE IF i > cfg.pset.ngiven THEN LawDefaults(cfg.cls)[ArgName(i)]
                                                 ELSE cfg.pset.v[ArgName(i)]
(* rate classes: the value is the rate constant times the concentration product; order 1 with  *)
(* unit concentration reduces to the rate constant (checked where the value is rational)       *)
TypeOK == stage \in {"start", "args", "keys", "vars", "resolving", "building", "pset", "temp", "mode", "hist", "done"}

------------------------------------------------------------------------------
Next ==
    \/ GenClass \/ GenArgs \/ GenKeys \/ GenVars \/ GenResolve
    \/ GenLeaf \/ GenOp \/ GenNeg \/ FinishTree
    \/ GenLaw \/ GenPset \/ GenTemp \/ GenMode \/ GenStep \/ GenFinishHist
Spec == Init /\ [][Next]_vars

------------------------------------------------------------------------------
(* case export *)
RECURSIVE OpsIn(_)
OpsIn(t) == IF t.k \in {"C", "S", "i", "s"} THEN {}
            ELSE IF t.k = "neg" THEN {"neg"} \cup OpsIn(t.a)
            ELSE {t.k} \cup OpsIn(t.a) \cup OpsIn(t.b)
RECURSIVE PlainBuild(_)
PlainBuild(t) == IF t.k \in {"C", "S", "i", "s"} THEN Conv(t)
                 ELSE IF t.k = "neg" THEN NegT(PlainBuild(t.a))
                 ELSE Bin(t.k, PlainBuild(t.a), PlainBuild(t.b))
AlgClass == LET w == stack[1].w IN
    "alg-d" \o ToString(Depth(w)) \o (IF stack[1].b # PlainBuild(w) THEN "-sc" ELSE "")
            \o (IF "pow" \in OpsIn(w) THEN "-pow" ELSE "") \o (IF "div" \in OpsIn(w) THEN "-div" ELSE "")
            \o (IF \E e \in 1..EnvCount : out[e].st # "q" THEN "-irr" ELSE "")

CaseRec ==
    IF part = "resolve" THEN
        [ in  |-> [part |-> "resolve", n |-> cfg.n, d |-> cfg.d, g |-> cfg.g, form |-> cfg.form,
                   values |-> [ovr |-> [i \in 1..4 |-> OvrVal(i)], arg |-> [i \in 1..4 |-> ArgVal(i)],
                               def |-> [i \in 1..4 |-> DefVal(i)], name |-> [i \in 1..4 |-> NameVal(i)],
                               expr |-> [i \in 1..4 |-> ExprVal(i)]],
                   kinds |-> cfg.kinds, u |-> cfg.u, present |-> [i \in 1..(IF cfg.u > 0 THEN cfg.u ELSE 0) |-> i \in cfg.present]],
          cls |-> IF ~CtorOK(cfg) THEN "ctor-raise"
                  ELSE "res-n" \o ToString(cfg.n) \o (IF cfg.g = -1 THEN "-noargs" ELSE "")
                       \o (IF cfg.u = -1 THEN "-nokeys" ELSE "") \o "-" \o cfg.form,
          exp |-> IF ~CtorOK(cfg) THEN [ctor_raises |-> TRUE, res |-> <<>>] ELSE [ctor_raises |-> FALSE, res |-> out,
                                                                                   unev |-> [i \in 1..cfg.n |-> Unevaluated(cfg, i)]] ]
    ELSE IF part = "algebra" THEN
        \* raw operands may be spelled int | float and str | sympy.Symbol: the implicit conversion
        \* gives Constant / Symbol either way, so every spelling denotes the same value
        [ in  |-> [part |-> "algebra", tree |-> stack[1].w, envs |-> Envs,
                   rawforms |-> <<[i |-> "int", s |-> "str", s_left |-> "str"],
                                 \* a sympy.Symbol on the LEFT would dispatch to sympy's own operator: str there
                                 [i |-> "float", s |-> "sympy.Symbol", s_left |-> "str"]>>],
          cls |-> AlgClass,
          \* the term is exported only where a value is not an exact rational (eval_term needs it)
          exp |-> [vals |-> [e \in 1..EnvCount |-> ResultView(out[e])],
                   term |-> IF \E e \in 1..EnvCount : out[e].st # "q" THEN ToTerm(stack[1].w) ELSE TC(0),
                   rtol |-> "1e-11"] ]
    ELSE
        LET ts == LawValueTerms
            br == UsedBrackets(ts)
            xs == IF cfg.cls = "LeastSquares" THEN <<TC(0), TC(1), TC(2), TQ(7, 2), TC(5)>> ELSE FitXs
        IN
        [ in  |-> [part |-> "laws", cls |-> cfg.cls, order |-> cfg.order, pattern |-> cfg.pattern,
                   argnames |-> LawArgs(cfg.cls, cfg.order), args |-> cfg.pset.v, alt |-> cfg.pset.alt,
                   ngiven |-> cfg.pset.ngiven,
                   vars |-> [nm \in DOMAIN cfg.pset.env \cup {"T"} |-> IF nm = "T" THEN cfg.temp ELSE cfg.pset.env[nm]],
                   keys |-> LawKeys.u, present |-> [i \in 1..(IF LawKeys.u > 0 THEN LawKeys.u ELSE 0) |-> i \in LawKeys.present],
                   args_absent |-> PatternArgsAbsent(cfg.pattern), mode |-> cfg.mode,
                   argform |-> (IF cfg.pattern = "dict" THEN "dict" ELSE "list"), variants |-> FitVariants(cfg.cls),
                   hist |-> Whos, tform |-> cfg.tform, species_keys |-> SpeciesKeys, defaults |-> LawDefaults(cfg.cls), dose_names |-> DoseNames(cfg.cls),
                   ramp |-> [T0 |-> RampT0, dTdt |-> NumI(RampRate), time0 |-> NumI(Time0), time1 |-> NumI(Time1)],
                   key_units |-> [nm \in Range(LawArgs(cfg.cls, cfg.order)) |->
                                    (IF cfg.mode = "units-scaled" THEN AltUnit(KeyUnit(cfg.cls, nm, cfg.order))
                                     ELSE [u |-> KeyUnit(cfg.cls, nm, cfg.order), f |-> <<1, 1>>])], lane_vars |-> (IF cfg.mode = "nparray" THEN LaneVars \cap DOMAIN Store ELSE {}),
                   lane_factors |-> [l \in 1..NLanes |-> LaneFactors[l]], companion_k |-> CompanionK,
                   units |-> [nm \in Range(LawArgs(cfg.cls, cfg.order)) \cup DOMAIN cfg.pset.env \cup {"T"} |->
                                UnitGiven(cfg.cls, nm, cfg.order, cfg.mode).u],
                   unit_factors |-> [nm \in Range(LawArgs(cfg.cls, cfg.order)) \cup DOMAIN cfg.pset.env \cup {"T"} |->
                                UnitGiven(cfg.cls, nm, cfg.order, cfg.mode).f],
                   data_x |-> xs, data_y |-> FitData(cfg.cls, EffTerms, xs)],
          cls |-> cfg.cls \o "-o" \o ToString(cfg.order) \o "-" \o cfg.pattern \o "-" \o cfg.mode
                  \o "-h" \o ToString(Len(stack)) \o stack[Len(stack)].who,
          exp |-> [terms |-> ts,
                   brackets |-> [b \in br |-> Brackets[b]],
                   exact |-> [i \in 1..Len(ts) |-> ResultView(IF br = {} THEN EvalQR(ts[i], <<>>) ELSE RIrr)],
                   \* per evaluation of the history and per array lane: the terms and, where rational, the value
                   steps |-> [i \in 1..Len(stack) |->
                                [who |-> stack[i].who,
                                 lanes |-> [l \in 1..Len(stack[i].lanes) |->
                                    LET lt == stack[i].lanes[l] IN
                                    [terms |-> lt,
                                     exact |-> [j \in 1..Len(lt) |->
                                                  ResultView(IF UsedBrackets(lt) = {} THEN EvalQR(lt[j], <<>>) ELSE RIrr)]]]]],
                   frame |-> "variables-unchanged", raises |-> MustRaise,
                   result_units |-> ResultUnits(cfg.cls, cfg.order),
                   rtol |-> IF cfg.cls \in {"FitArrhenius", "FitEyring", "LeastSquares"} THEN "1e-7" ELSE "1e-10"] ]
Emit == Done => PrintT(<<"CASE", ToJson(CaseRec)>>)
=============================================================================
