INIT TraceInit
NEXT TNext
CONSTANTS
  Parts <- OnlyAlgebra
  MaxNArgs = 0
  ArgKinds = {}
  ConstLeaves = {}
  RawInts = {}
  SymLeaves = {}
  RawStrs = {}
  BinOps = {}
  AllowNeg = FALSE
  MaxLeaves = 0
  MaxDepth = 0
  Envs <- TraceEnvs
  LawClasses = {}
  Orders = {}
  Patterns = {}
  Modes = {}
  LawGrid <- NoGrid
  TempGrid = {}
INVARIANT Verdict
INVARIANT ShortCircuitsPreserveValue
INVARIANT CompositionalIsDenotational
CHECK_DEADLOCK FALSE
