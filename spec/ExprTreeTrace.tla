---------------------------- MODULE ExprTreeTrace ----------------------------
(* Trace validation for the algebra machine of ExprTree (C16).  A trace is the reverse-Polish  *)
(* construction of an expression with the REAL operator overloads (leaf / op / neg / finish    *)
(* events), followed by what was observed: the structure of the object that was built          *)
(* (projected to a Terms term) and its value at the three sample points under each backend     *)
(* (math, numpy, sympy-then-substitute, quantities), encoded as exact rationals.  TLC replays  *)
(* the construction through the actions of ExprTree and judges with exact arithmetic:          *)
(*   - the built structure denotes the value of the expression as written,                     *)
(*   - every backend returned that value.                                                      *)
EXTENDS ExprTree, IOUtils

Traces == JsonDeserialize(IOEnv.TRACE_FILE)

VARIABLES tid, pos, verdict
tvars == <<vars, tid, pos, verdict>>

Ev == Traces[tid][pos]
TraceInit == Init /\ tid \in 1..Len(Traces) /\ pos = 1 /\ verdict = "none"

Step(e) ==
    CASE e.k = "leaf"   -> Leaf(e.t)
      [] e.k = "op"     -> Op(e.op)
      [] e.k = "neg"    -> Negate
      [] e.k = "finish" -> FinishTree
      [] OTHER          -> FALSE

ModeNames == <<"math", "numpy", "sympy", "units">>
ObsOf(e, m) == IF m = "math" THEN e.math ELSE IF m = "numpy" THEN e.numpy ELSE IF m = "sympy" THEN e.sympy ELSE e.units
Encodable(e, m) == \A i \in 1..EnvCount : ObsOf(e, m)[i][2] > 0
ValueOK(e, m) == \A i \in 1..EnvCount : out[i].st = "q" => Norm(ObsOf(e, m)[i]) = out[i].q
StructOK(e) == \A i \in 1..EnvCount :
                  LET r == EvalQR(e.struct, Envs[i]) IN (out[i].st = "q" /\ r.st # "irr") => (r.st = "q" /\ r.q = out[i].q)
FirstBad(e) ==      \* first mode that is un-encodable or disagrees, "" if none
    LET bad == { j \in 1..4 : ~Encodable(e, ModeNames[j]) \/ ~ValueOK(e, ModeNames[j]) }
    IN  IF bad = {} THEN 0 ELSE CHOOSE j \in bad : \A l \in bad : j <= l
ResultOK(e) ==
    /\ stage = "done"
    /\ ~e.raised
    /\ StructOK(e)
    /\ FirstBad(e) = 0

TStep ==
    /\ verdict = "none" /\ pos <= Len(Traces[tid])
    /\ IF Ev.k = "result"
       THEN ResultOK(Ev) /\ verdict' = "accept" /\ UNCHANGED vars
       ELSE Step(Ev) /\ verdict' = "none"
    /\ pos' = pos + 1 /\ UNCHANGED tid

TReject ==
    /\ verdict = "none" /\ ~ENABLED TStep
    /\ verdict' = "reject" /\ UNCHANGED <<vars, tid, pos>>

TNext == TStep \/ TReject

Clause ==
    IF pos > Len(Traces[tid]) THEN "no-result-event"
    ELSE LET e == Ev IN
      IF e.k # "result" THEN "step:" \o e.k
      ELSE IF stage # "done" THEN "step:notdone"
      ELSE IF e.raised THEN "raised"
      ELSE IF ~StructOK(e) THEN "structure"
      ELSE LET j == FirstBad(e) IN
           IF ~Encodable(e, ModeNames[j]) THEN "unencodable:" \o ModeNames[j] ELSE "value:" \o ModeNames[j]

TraceEnvs == << [x |-> <<2, 1>>, y |-> <<3, 1>>], [x |-> <<1, 2>>, y |-> <<-3, 1>>], [x |-> <<4, 9>>, y |-> <<1, 1>>] >>
OnlyAlgebra == {"algebra"}
NoGrid == [zz |-> {}]
Verdict == verdict # "none" =>
    PrintT(<<"VERDICT", tid, verdict, pos, IF verdict = "accept" THEN "" ELSE Clause>>)
=============================================================================
