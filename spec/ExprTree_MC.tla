---------------------------- MODULE ExprTree_MC ----------------------------
(* Constants for the exhaustive configurations of ExprTree (C16).                            *)
EXTENDS ExprTree

P_Resolve == {"resolve"}
P_Algebra == {"algebra"}
P_Laws    == {"laws"}
K_All == {"num", "name", "expr"}
K_Two == {"num", "expr"}

(* algebra *)
L_None == {}
CL_Q == {0, 2}
RI_Q == {0, 1}
CL_T == {0, 1, 2, -3}
RI_T == {0, 1, 2, -1}
CL_4 == {0, 2}
RI_4 == {0, 1}
S_X == {"x"}
S_Y == {"y"}
Ops_All == {"add", "sub", "mul", "div", "pow"}
Ops_NoPow == {"add", "sub", "mul", "div"}
EnvsDef == << [x |-> <<2, 1>>, y |-> <<3, 1>>], [x |-> <<1, 2>>, y |-> <<-3, 1>>], [x |-> <<4, 9>>, y |-> <<1, 1>>] >>

(* laws: parameter sets.  Num = <<n, d, e>> = n/d * 10^e *)
PS(v, alt, env) == [v |-> v, alt |-> alt, env |-> env, ngiven |-> 9]
PSG(v, alt, env, g) == [v |-> v, alt |-> alt, env |-> env, ngiven |-> g]
XY == [X |-> <<2, 1, 0>>, Y |-> <<3, 2, 0>>]
XY2 == [X |-> <<5, 1, -3>>, Y |-> <<12, 1, 0>>]
XY0 == [X |-> <<0, 1, 0>>, Y |-> <<3, 2, 0>>]
HSenv(xy) == [X |-> xy.X, Y |-> xy.Y, R |-> <<83145, 10000, 0>>, kB |-> <<1380649, 1000000, -23>>,
              h |-> <<662607015, 100000000, -34>>]
PolyV1 == [ref |-> <<298, 1, 0>>, c0 |-> <<3, 1, 0>>, c1 |-> <<-1, 4, 0>>, c2 |-> <<1, 100, 0>>]
PolyA1 == [ref |-> <<273, 1, 0>>, c0 |-> <<-7, 2, 0>>, c1 |-> <<2, 1, 0>>, c2 |-> <<3, 1000, 0>>]
PolyV2 == [ref |-> <<0, 1, 0>>, c0 |-> <<125, 1, 0>>, c1 |-> <<1, 2, 0>>, c2 |-> <<1, 1, -4>>]
PolyA2 == [ref |-> <<100, 1, 0>>, c0 |-> <<1, 1, 3>>, c1 |-> <<3, 1, 0>>, c2 |-> <<0, 1, 0>>]
PolyE1 == [c0 |-> <<1, 1, 0>>, c1 |-> <<1, 1, -3>>, c2 |-> <<-1, 1, -7>>]
PolyE2 == [c0 |-> <<0, 1, 0>>, c1 |-> <<-2, 1, -3>>, c2 |-> <<5, 1, -7>>]
L10 == [log10_T |-> <<5, 2, 0>>]
NoEnv == [zz |-> <<0, 1, 0>>]

GridDef == [
  MassAction |-> { PS([k |-> <<314, 100, 0>>], [k |-> <<5, 1, -2>>], XY),
                   PS([k |-> <<7, 1, 9>>], [k |-> <<1, 3, 0>>], XY2),
                   PS([k |-> <<0, 1, 0>>], [k |-> <<0, 1, 0>>], XY), PS([k |-> <<5, 1, 0>>], [k |-> <<0, 1, 0>>], XY0) },
  Arrhenius  |-> { PS([A |-> <<1, 1, 11>>, Ea_over_R |-> <<5000, 1, 0>>], [A |-> <<7, 2, 9>>, Ea_over_R |-> <<12025, 2, 0>>], XY),
                   PS([A |-> <<5, 2, -3>>, Ea_over_R |-> <<0, 1, 0>>], [A |-> <<4, 1, 0>>, Ea_over_R |-> <<25, 1, 3>>], XY2) },
  Eyring     |-> { PS([kB_h_times_exp_dS_R |-> <<1, 1, 10>>, dH_over_R |-> <<5000, 1, 0>>, conc0 |-> <<2, 1, 0>>],
                      [kB_h_times_exp_dS_R |-> <<3, 1, 12>>, dH_over_R |-> <<9000, 1, 0>>, conc0 |-> <<1, 2, 0>>], XY),
                   PSG([kB_h_times_exp_dS_R |-> <<2, 1, 8>>, dH_over_R |-> <<3000, 1, 0>>, conc0 |-> <<1, 1, 0>>],
                       [kB_h_times_exp_dS_R |-> <<3, 1, 12>>, dH_over_R |-> <<9000, 1, 0>>, conc0 |-> <<1, 2, 0>>], XY2, 2) },
  EyringHS   |-> { PS([dH |-> <<40, 1, 3>>, dS |-> <<-20, 1, 0>>, c0 |-> <<2, 1, 0>>],
                      [dH |-> <<72, 1, 3>>, dS |-> <<614, 10, 0>>, c0 |-> <<1, 2, 0>>], HSenv(XY)),
                   PSG([dH |-> <<95, 1, 3>>, dS |-> <<15, 1, 0>>, c0 |-> <<1, 1, 0>>],
                       [dH |-> <<72, 1, 3>>, dS |-> <<614, 10, 0>>, c0 |-> <<1, 2, 0>>], HSenv(XY2), 2) },
  Radiolytic |-> { PS([g |-> <<21, 10, -7>>], [g |-> <<45, 100, -7>>], [density |-> <<998, 1000, 0>>, doserate |-> <<15, 100, 0>>]),
                   PS([g |-> <<21, 10, -7>>], [g |-> <<0, 1, 0>>], [density |-> <<998, 1000, 0>>, doserate |-> <<0, 1, 0>>]) },
  RadiolyticAB |-> { PS([g_alpha |-> <<1, 1, -7>>, g_beta |-> <<2, 1, -7>>], [g_alpha |-> <<8, 10, -7>>, g_beta |-> <<45, 100, -7>>],
                        [density |-> <<998, 1000, 0>>, doserate_alpha |-> <<15, 100, 0>>, doserate_beta |-> <<3, 10, 0>>]) },
  RadiolyticGA |-> { PS([g_gamma |-> <<1, 1, -7>>, g_alpha |-> <<3, 1, -7>>], [g_gamma |-> <<8, 10, -7>>, g_alpha |-> <<45, 100, -7>>],
                        [density |-> <<998, 1000, 0>>, doserate_gamma |-> <<15, 100, 0>>, doserate_alpha |-> <<3, 10, 0>>]) },
  RadiolyticBA |-> { PS([g_beta |-> <<1, 1, -7>>, g_alpha |-> <<3, 1, -7>>], [g_beta |-> <<8, 10, -7>>, g_alpha |-> <<45, 100, -7>>],
                        [density |-> <<998, 1000, 0>>, doserate_beta |-> <<15, 100, 0>>, doserate_alpha |-> <<3, 10, 0>>]) },
  RadiolyticNGA |-> { PS([g_n |-> <<1, 1, -7>>, g_gamma |-> <<3, 1, -7>>, g_alpha |-> <<7, 1, -7>>],
                         [g_n |-> <<8, 10, -7>>, g_gamma |-> <<45, 100, -7>>, g_alpha |-> <<2, 1, -8>>],
                         [density |-> <<998, 1000, 0>>, doserate_n |-> <<15, 100, 0>>, doserate_gamma |-> <<3, 10, 0>>,
                          doserate_alpha |-> <<1, 20, 0>>]) },
  TPoly |-> { PS(PolyV1, PolyA1, NoEnv), PS(PolyV2, PolyA2, NoEnv) },
  RTPoly |-> { PS(PolyV1, PolyA1, NoEnv), PS(PolyV2, PolyA2, NoEnv) },
  ShiftedTPoly |-> { PS(PolyV1, PolyA1, NoEnv), PS(PolyV2, PolyA2, NoEnv) },
  ShiftedRTPoly |-> { PS(PolyV1, PolyA1, NoEnv), PS(PolyV2, PolyA2, NoEnv) },
  Log10TPoly |-> { PS(PolyV1, PolyA1, L10) },
  ShiftedLog10TPoly |-> { PS([PolyV1 EXCEPT !.ref = <<2, 1, 0>>], [PolyA1 EXCEPT !.ref = <<3, 1, 0>>], L10) },
  TPiecewise |-> { PS([lo |-> <<200, 1, 0>>, p0 |-> <<1, 1, 0>>, p1 |-> <<1, 100, 0>>, mid |-> <<1000, 1, 0>>,
                       q0 |-> <<-9, 1, 0>>, q1 |-> <<2, 100, 0>>, hi |-> <<2000, 1, 0>>], NoEnv, NoEnv),
                   PS([lo |-> <<0, 1, 0>>, p0 |-> <<5, 1, 0>>, p1 |-> <<0, 1, 0>>, mid |-> <<5963, 20, 0>>,
                       q0 |-> <<5, 1, 0>>, q1 |-> <<0, 1, 0>>, hi |-> <<3000, 1, 0>>], NoEnv, NoEnv) },
  RampedTemp |-> { PS([T0 |-> <<298, 1, 0>>, dTdt |-> <<1, 2, 0>>], [T0 |-> <<27315, 100, 0>>, dTdt |-> <<-1, 10, 0>>], [time |-> <<30, 1, 0>>]),
                   PS([T0 |-> <<298, 1, 0>>, dTdt |-> <<0, 1, 0>>], [T0 |-> <<0, 1, 0>>, dTdt |-> <<0, 1, 0>>], [time |-> <<0, 1, 0>>]) },
  SinTemp |-> { PS([Tbase |-> <<300, 1, 0>>, Tamp |-> <<10, 1, 0>>, angvel |-> <<1, 2, 0>>, phase |-> <<1, 10, 0>>],
                   [Tbase |-> <<350, 1, 0>>, Tamp |-> <<5, 2, 0>>, angvel |-> <<3, 1, 0>>, phase |-> <<-1, 1, 0>>], [time |-> <<5, 1, 0>>]),
                PS([Tbase |-> <<300, 1, 0>>, Tamp |-> <<10, 1, 0>>, angvel |-> <<1, 1, 0>>, phase |-> <<-5, 1, 0>>],
                   [Tbase |-> <<350, 1, 0>>, Tamp |-> <<5, 2, 0>>, angvel |-> <<2, 1, 0>>, phase |-> <<-10, 1, 0>>], [time |-> <<5, 1, 0>>]) },
  Log10Wrap |-> { PS(PolyV2, PolyA2, NoEnv) },
  ExpWrap |-> { PS(PolyE1, PolyE2, NoEnv), PS(PolyE2, PolyE1, NoEnv) },
  MassActionEq |-> { PS([K |-> <<4, 1, 0>>], [K |-> <<25, 1, -6>>], XY) },
  EqEquation |-> { PS([K |-> <<4, 1, 0>>], [K |-> <<25, 1, -6>>], XY) },
  GibbsEqConst |-> { PS([dH_over_R |-> <<-5000, 1, 0>>, dS_over_R |-> <<3, 1, 0>>], [dH_over_R |-> <<2500, 1, 0>>, dS_over_R |-> <<-7, 2, 0>>], NoEnv),
                     PS([dH_over_R |-> <<0, 1, 0>>, dS_over_R |-> <<0, 1, 0>>], [dH_over_R |-> <<2500, 1, 0>>, dS_over_R |-> <<-7, 2, 0>>], NoEnv) },
  ArrheniusParam |-> { PS([A |-> <<1, 1, 13>>, Ea |-> <<40, 1, 3>>], NoEnv, NoEnv), PS([A |-> <<5, 2, -3>>, Ea |-> <<150, 1, 3>>], NoEnv, NoEnv) },
  ArrheniusAsRate |-> { PS([A |-> <<1, 1, 13>>, Ea |-> <<40, 1, 3>>], [A |-> <<7, 2, 9>>, Ea |-> <<6000, 1, 0>>], XY),
                        PS([A |-> <<5, 2, -3>>, Ea |-> <<150, 1, 3>>], [A |-> <<7, 2, 9>>, Ea |-> <<25, 1, 2>>], XY2) },
  EyringParam |-> { PS([dH |-> <<72, 1, 3>>, dS |-> <<614, 10, 0>>], NoEnv, NoEnv), PS([dH |-> <<40, 1, 3>>, dS |-> <<-20, 1, 0>>], NoEnv, NoEnv) },
  EyringAsRate |-> { PS([dH |-> <<72, 1, 3>>, dS |-> <<614, 10, 0>>], [dS |-> <<3, 1, 12>>, dH |-> <<9000, 1, 0>>], XY),
                     PS([dH |-> <<40, 1, 3>>, dS |-> <<-20, 1, 0>>], [dS |-> <<2, 1, 8>>, dH |-> <<3000, 1, 0>>], XY2) },
  ArrheniusFromK |-> { PS([Ea |-> <<40, 1, 3>>, T0 |-> <<5963, 20, 0>>, k0 |-> <<1, 1, 6>>], NoEnv, NoEnv),
                       PS([Ea |-> <<125, 1, 3>>, T0 |-> <<1000, 1, 0>>, k0 |-> <<3, 1, -2>>], NoEnv, NoEnv) },
  FitArrhenius |-> { PS([A |-> <<1, 1, 10>>, B |-> <<5000, 1, 0>>], NoEnv, NoEnv), PS([A |-> <<3, 1, 0>>, B |-> <<250, 1, 0>>], NoEnv, NoEnv) },
  FitEyring |-> { PS([a |-> <<25, 1, 0>>, B |-> <<8000, 1, 0>>], NoEnv, NoEnv), PS([a |-> <<18, 1, 0>>, B |-> <<1200, 1, 0>>], NoEnv, NoEnv) },
  CallbackPoly |-> { PS(PolyV1, PolyA1, [x |-> <<7, 1, 0>>]), PS(PolyV2, PolyA2, [x |-> <<-5, 2, 0>>]) },
  MassActionCallback |-> { PS([A |-> <<1, 1, 11>>, Ea_over_R |-> <<5000, 1, 0>>], [A |-> <<7, 2, 9>>, Ea_over_R |-> <<12025, 2, 0>>], XY),
                           PS([A |-> <<5, 2, -3>>, Ea_over_R |-> <<0, 1, 0>>], [A |-> <<4, 1, 0>>, Ea_over_R |-> <<25, 1, 3>>], XY2) },
  EqCallback |-> { PS([dH_over_R |-> <<-5000, 1, 0>>, dS_over_R |-> <<3, 1, 0>>], [dH_over_R |-> <<2500, 1, 0>>, dS_over_R |-> <<-7, 2, 0>>], NoEnv) },
  MA_mul_num |-> { PS([k |-> <<314, 100, 0>>, f |-> <<5, 2, 0>>], NoEnv, XY), PS([k |-> <<7, 1, 9>>, f |-> <<1, 1, 0>>], NoEnv, XY2) },
  MA_rmul_num |-> { PS([k |-> <<314, 100, 0>>, f |-> <<5, 2, 0>>], NoEnv, XY), PS([k |-> <<7, 1, 9>>, f |-> <<1, 1, 0>>], NoEnv, XY2) },
  MA_div_num |-> { PS([k |-> <<314, 100, 0>>, f |-> <<5, 2, 0>>], NoEnv, XY), PS([k |-> <<7, 1, 9>>, f |-> <<1, 1, 0>>], NoEnv, XY2) },
  MA_mul_expr |-> { PS([k |-> <<314, 100, 0>>, f |-> <<5, 2, 0>>], NoEnv, XY), PS([k |-> <<7, 1, 9>>, f |-> <<1, 1, 0>>], NoEnv, XY2) },
  MA_rmul_expr |-> { PS([k |-> <<314, 100, 0>>, f |-> <<5, 2, 0>>], NoEnv, XY), PS([k |-> <<7, 1, 9>>, f |-> <<1, 1, 0>>], NoEnv, XY2) },
  ArrheniusParts |-> { PS([A |-> <<1, 1, 13>>, Ea |-> <<40, 1, 3>>], NoEnv, NoEnv) },
  EyringParts |-> { PS([dH |-> <<72, 1, 3>>, dS |-> <<614, 10, 0>>], NoEnv, NoEnv), PS([dH |-> <<40, 1, 3>>, dS |-> <<-20, 1, 0>>], NoEnv, NoEnv) },
  PiecewiseNum |-> { PS([lo |-> <<250, 1, 0>>, v0 |-> <<3, 2, 0>>, m1 |-> <<300, 1, 0>>, v1 |-> <<7, 1, 0>>, m2 |-> <<1200, 1, 0>>,
                         v2 |-> <<1, 4, 0>>, hi |-> <<1500, 1, 0>>], NoEnv, NoEnv),
                     PS([lo |-> <<100, 1, 0>>, v0 |-> <<-1, 1, 0>>, m1 |-> <<250, 1, 0>>, v1 |-> <<2, 1, 0>>, m2 |-> <<400, 1, 0>>,
                         v2 |-> <<9, 1, 0>>, hi |-> <<2000, 1, 0>>], NoEnv, NoEnv) },
  CallbackDefault |-> { PSG([a |-> <<3, 2, 0>>, b |-> <<7, 1, 0>>], [a |-> <<0, 1, 0>>, b |-> <<-2, 1, 0>>], NoEnv, 1),
                        PS([a |-> <<3, 2, 0>>, b |-> <<7, 1, 0>>], [a |-> <<0, 1, 0>>, b |-> <<-2, 1, 0>>], NoEnv) },
  CallbackNargs |-> { PS([a |-> <<3, 2, 0>>, b |-> <<0, 1, 0>>], [a |-> <<0, 1, 0>>, b |-> <<-2, 1, 0>>], NoEnv) },
  LeastSquares |-> { PS([b0 |-> <<3, 2, 0>>, b1 |-> <<-7, 4, 0>>], NoEnv, NoEnv), PS([b0 |-> <<0, 1, 0>>, b1 |-> <<1, 3, 0>>], NoEnv, NoEnv) }
]
TempsQ == { <<5963, 20, 0>>, <<2000, 1, 0>> }
TempsT == { <<200, 1, 0>>, <<5963, 20, 0>>, <<500, 1, 0>>, <<1000, 1, 0>>, <<2000, 1, 0>> }
LC_All == AllLawClasses
M_All == AllModes
Pat_All == AllPatterns
Pat_Q == {"none", "first", "all", "keys-only", "dict"}
=============================================================================
