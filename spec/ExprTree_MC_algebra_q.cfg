INIT Init
NEXT Next
CONSTANTS
  Parts <- P_Algebra
  MaxNArgs = 0
  ArgKinds <- K_Two
  ConstLeaves <- CL_Q
  RawInts <- RI_Q
  SymLeaves <- S_X
  RawStrs <- L_None
  BinOps <- Ops_All
  AllowNeg = TRUE
  MaxLeaves = 3
  MaxDepth = 2
  Envs <- EnvsDef
  LawClasses <- L_None
  Orders = {}
  Patterns <- L_None
  Modes <- L_None
  LawGrid <- GridDef
  TempGrid <- TempsQ
INVARIANT TypeOK
INVARIANT OverrideReplacesExactlyOne
INVARIANT ResolutionRecorded
INVARIANT SourcesSound
INVARIANT ShortCircuitsPreserveValue
INVARIANT BuiltIsExpr
INVARIANT CompositionalIsDenotational
INVARIANT LawOverrideExact
INVARIANT EvaluationIsPure
INVARIANT Emit
CHECK_DEADLOCK FALSE
