INIT Init
NEXT Next
CONSTANTS
  Parts <- P_Laws
  MaxNArgs = 0
  ArgKinds <- K_Two
  ConstLeaves <- L_None
  RawInts <- L_None
  SymLeaves <- L_None
  RawStrs <- L_None
  BinOps <- L_None
  AllowNeg = FALSE
  MaxLeaves = 0
  MaxDepth = 0
  Envs <- EnvsDef
  LawClasses <- LC_All
  Orders = {1, 2, 3}
  Patterns <- Pat_Q
  Modes <- M_All
  LawGrid <- GridDef
  TempGrid <- TempsQ
INVARIANT TypeOK
INVARIANT OverrideReplacesExactlyOne
INVARIANT ResolutionRecorded
INVARIANT SourcesSound
INVARIANT ShortCircuitsPreserveValue
INVARIANT BuiltIsExpr
INVARIANT CompositionalIsDenotational
INVARIANT LawOverrideExact
INVARIANT EvaluationIsPure
INVARIANT Emit
CHECK_DEADLOCK FALSE
