INIT Init
NEXT Next
CONSTANTS
  Parts <- P_Resolve
  MaxNArgs = 3
  ArgKinds <- K_All
  ConstLeaves <- L_None
  RawInts <- L_None
  SymLeaves <- L_None
  RawStrs <- L_None
  BinOps <- L_None
  AllowNeg = FALSE
  MaxLeaves = 0
  MaxDepth = 0
  Envs <- EnvsDef
  LawClasses <- L_None
  Orders = {}
  Patterns <- L_None
  Modes <- L_None
  LawGrid <- GridDef
  TempGrid <- TempsQ
INVARIANT TypeOK
INVARIANT OverrideReplacesExactlyOne
INVARIANT ResolutionRecorded
INVARIANT SourcesSound
INVARIANT ShortCircuitsPreserveValue
INVARIANT BuiltIsExpr
INVARIANT CompositionalIsDenotational
INVARIANT LawOverrideExact
INVARIANT EvaluationIsPure
INVARIANT Emit
CHECK_DEADLOCK FALSE
