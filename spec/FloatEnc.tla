---------------------------- MODULE FloatEnc ----------------------------
(* Exact judgement of IEEE doubles inside TLC (trace validation of C09/C10).                  *)
(*                                                                                            *)
(* The binding layer encodes an observed float EXACTLY: every finite double is s * m * 2^e    *)
(* with s in {-1,0,1}, m a natural below 2^53 and e an integer.  m travels as a little-endian *)
(* limb sequence in base 10^4 (BigNat), so nothing is rounded and no integer reaches 2^31.    *)
(*     [s |-> 1, m |-> <<..limbs..>>, e |-> -12]                                              *)
(* The specification side is an exact big rational [s, n, d] (n, d limb sequences).  The      *)
(* comparison "observed is within relative 10^-k of expected" is then decided with integer    *)
(* arithmetic only:  |on*ed - en*od| * 10^k <= en*od.                                          *)
EXTENDS Integers, Sequences, BigNat

BOne == <<1>>
BZero == <<>>

RECURSIVE BPowChunk(_, _, _, _)
\* base^e by multiplying with base^c (< 2*10^5) e \div c times, then the remainder one by one
BPowChunk(acc, base, e, chunk) ==
    IF e = 0 THEN acc
    ELSE IF e >= chunk[1] THEN BPowChunk(BMulSmall(acc, chunk[2]), base, e - chunk[1], chunk)
    ELSE BPowChunk(BMulSmall(acc, base), base, e - 1, chunk)

BPow2(e)  == BPowChunk(BOne, 2, e, <<17, 131072>>)
BPow3(e)  == BPowChunk(BOne, 3, e, <<11, 177147>>)
BPow5(e)  == BPowChunk(BOne, 5, e, <<7, 78125>>)
BPow10(e) == BPowChunk(BOne, 10, e, <<5, 100000>>)

RECURSIVE BPowBig(_, _)
BPowBig(b, e) == IF e = 0 THEN BOne ELSE BMul(b, BPowBig(b, e - 1))

Pos(x) == IF x > 0 THEN x ELSE 0

(* big rationals *)
BRat(s, n, d) == [s |-> s, n |-> n, d |-> d]
BRZero == BRat(0, BZero, BOne)
BRMul(a, b) == IF a.s = 0 \/ b.s = 0 THEN BRZero ELSE BRat(a.s * b.s, BMul(a.n, b.n), BMul(a.d, b.d))
\* signed sum
BRAdd(a, b) ==
    IF a.s = 0 THEN b ELSE IF b.s = 0 THEN a
    ELSE LET x == BMul(a.n, b.d)  y == BMul(b.n, a.d)  d == BMul(a.d, b.d)
         IN  IF a.s = b.s THEN BRat(a.s, BAdd(x, y), d)
             ELSE LET c == BCmp(x, y)
                  IN  IF c = 0 THEN BRZero
                      ELSE IF c > 0 THEN BRat(a.s, BSub(x, y), d) ELSE BRat(b.s, BSub(y, x), d)
BRNeg(a) == BRat(-a.s, a.n, a.d)
BRFromInt(k) == IF k = 0 THEN BRZero ELSE BRat(IF k < 0 THEN -1 ELSE 1, BFromInt(IF k < 0 THEN -k ELSE k), BOne)
BRFromQ(q) == IF q[1] = 0 THEN BRZero
              ELSE BRat(IF q[1] < 0 THEN -1 ELSE 1, BFromInt(IF q[1] < 0 THEN -q[1] ELSE q[1]), BFromInt(q[2]))
RECURSIVE BRSumSeq(_)
BRSumSeq(s) == IF s = <<>> THEN BRZero ELSE BRAdd(Head(s), BRSumSeq(Tail(s)))

(* the observed float as a big rational *)
IsFloatEnc(f) == /\ f.s \in {-1, 0, 1} /\ f.e \in Int
                 /\ \A i \in 1..Len(f.m) : f.m[i] \in 0..(Base - 1)
FloatRat(f) == IF f.s = 0 THEN BRZero
               ELSE BRat(f.s, BMul(f.m, BPow2(Pos(f.e))), BPow2(Pos(-f.e)))

(* |obs - exp| <= 10^-k * |exp|  (exp = 0 demands obs = 0) *)
BRWithin(obs, exp, k) ==
    IF exp.s = 0 THEN obs.s = 0
    ELSE /\ obs.s = exp.s
         /\ LET x == BMul(obs.n, exp.d)  y == BMul(exp.n, obs.d)
            IN  BLe(BMul(BAbsDiff(x, y), BPow10(k)), y)

(* |obs - exp| <= 10^-k * |exp| + 10^-a : used where a sum may cancel (rates) *)
BRWithinAbs(obs, exp, k, a) ==
    LET diff == BRAdd(obs, BRNeg(exp))
        \* |diff| <= |exp|/10^k + 1/10^a   <=>  dn * ed * 10^k * 10^a <= dd * (en * 10^a + ed * 10^k)
        lhs == BMul(BMul(diff.n, exp.d), BMul(BPow10(k), BPow10(a)))
        rhs == BMul(diff.d, BAdd(BMul(exp.n, BPow10(a)), BMul(exp.d, BPow10(k))))
    IN  diff.s = 0 \/ BLe(lhs, rhs)

FloatWithin(f, exp, k) == IsFloatEnc(f) /\ BRWithin(FloatRat(f), exp, k)

ASSUME BPow2(20) = BFromInt(1048576)
ASSUME BPow10(9) = BFromInt(1000000000)
ASSUME BPow3(13) = BFromInt(1594323)
ASSUME BPow5(9) = BFromInt(1953125)
\* 0.1 = 3602879701896397 * 2^-55 is within 1e-15 of 1/10 but not equal to it
ASSUME FloatWithin([s |-> 1, m |-> <<6397, 189, 8797, 3602>>, e |-> -55], BRFromQ(<<1, 10>>), 15)
ASSUME ~FloatWithin([s |-> 1, m |-> <<6397, 189, 8797, 3602>>, e |-> -55], BRFromQ(<<1, 10>>), 18)
ASSUME ~FloatWithin([s |-> -1, m |-> <<6397, 189, 8797, 3602>>, e |-> -55], BRFromQ(<<1, 10>>), 3)
ASSUME BRAdd(BRFromQ(<<1, 3>>), BRFromQ(<<-1, 3>>)).s = 0
ASSUME BRWithin(BRAdd(BRFromQ(<<1, 3>>), BRFromQ(<<1, 6>>)), BRFromQ(<<1, 2>>), 30)
=============================================================================
