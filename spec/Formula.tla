---------------------------- MODULE Formula ----------------------------
(* Chemical formulas as a generator/acceptor stack machine (properties C01, C13, C14).        *)
(*                                                                                            *)
(* A formula is built token by token; the state carries the surface text produced so far      *)
(* (txt), the abstract tokens (toks) and the denotation computed OPERATIONALLY by a stack of  *)
(* open groups (stack / total).  At "done" the operational denotation must equal the          *)
(* DECLARATIVE one ("sum over occurrences of the product of the enclosing multipliers",       *)
(* Denote(toks)) - the statement of C01 itself.  The same module is used three ways:          *)
(*   - exhaustive model checking of small alphabets (Formula_MC*.cfg),                        *)
(*   - case generation: every terminal state is one test (Emit),                              *)
(*   - trace validation of executions of the real parser (FormulaTrace.tla reuses the actions)*)
(*                                                                                            *)
(* Source text is ASCII: the middle dot U+00B7 (hydrate separator) is written "~" in txt;     *)
(* the harness substitutes it when it hands the string to the code.                           *)
EXTENDS Integers, Sequences, FiniteSets, FiniteSetsExt, TLC, Json, SequencesExt, Rational, BigNat, Periodic, Mass

CONSTANTS
    Elems,        \* atomic numbers atoms are drawn from
    AtomCounts,   \* count records allowed after an atom
    GroupCounts,  \* count records allowed after a closing bracket
    Brackets,     \* subset of {"(", "[", "{"}
    MaxDepth,     \* maximal nesting depth
    MaxGroups,    \* maximal number of groups
    MaxTerms,     \* maximal number of atom tokens
    MaxParts,     \* maximal number of hydrate parts
    HydSeps,      \* subset of {"..", "~"}
    HydCounts,    \* leading integers of hydrate parts (1 = not written)
    ChargeToks,   \* charge tokens as records [t, q]
    PrefixSet,     \* subset of AllPrefixes
    MaxPrefixes,   \* how many prefixes one formula may carry (greek letters, then the radical dot)
    SuffixSet,     \* subset of AllSuffixes
    PrimeMarks,   \* subset of {"*", "'", "**", "*'"}
    MaxPrimes,
    BadTokens,    \* capitalised tokens that are not element symbols
    FaultKinds    \* subset of {"badsymbol","unclosed","stray","mismatch","contradictory"}

VARIABLES txt, toks, stack, closers, total, partMult, nparts, sep, stage, fault, nterms, nprimes

vars == <<txt, toks, stack, closers, total, partMult, nparts, sep, stage, fault, nterms, nprimes>>

------------------------------------------------------------------------------
(* vocabulary *)
Greek == <<"alpha", "beta", "gamma", "delta", "epsilon", "zeta", "eta", "theta", "iota", "kappa",
           "lambda", "mu", "nu", "xi", "omicron", "pi", "rho", "sigma", "tau", "upsilon", "phi",
           "chi", "psi", "omega">>
AllPrefixes == {"."} \cup { Greek[i] \o "-" : i \in 1..Len(Greek) }
(* Several prefixes are written in the order of the notation's table: greek letters alphabetically, the    *)
(* radical dot last ("alpha-.NO2").  Other orders are not part of the notation and are not generated.      *)
PrefixRank(p) == IF p = "." THEN Len(Greek) + 1 ELSE CHOOSE i \in 1..Len(Greek) : Greek[i] \o "-" = p
AllSuffixes == {"(s)", "(l)", "(g)", "(aq)"}
CloserOf(b) == IF b = "(" THEN ")" ELSE IF b = "[" THEN "]" ELSE "}"
AllBrackets == {"(", "[", "{"}

(* counts: [shown, ip, fd, fp] denotes ip.fp with fd fractional digits; not shown = 1 *)
Pow10(n) == IPow(10, n)
IsCount(c) == /\ c.ip \in Nat /\ c.fd \in 0..4 /\ c.fp \in 0..(Pow10(c.fd) - 1)
              /\ (c.ip > 0 \/ c.fp > 0)
              /\ (~c.shown => (c.ip = 1 /\ c.fd = 0))
CountVal(c) == Norm(<<c.ip * Pow10(c.fd) + c.fp, Pow10(c.fd)>>)
Pad(n, w) == IF w = 0 THEN ""
             ELSE IF w = 1 THEN ToString(n)
             ELSE IF w = 2 THEN (IF n < 10 THEN "0" ELSE "") \o ToString(n)
             ELSE IF w = 3 THEN (IF n < 10 THEN "00" ELSE IF n < 100 THEN "0" ELSE "") \o ToString(n)
             ELSE (IF n < 10 THEN "000" ELSE IF n < 100 THEN "00" ELSE IF n < 1000 THEN "0" ELSE "") \o ToString(n)
CountText(c) == IF ~c.shown THEN ""
                ELSE ToString(c.ip) \o (IF c.fd = 0 THEN "" ELSE "." \o Pad(c.fp, c.fd))
NoCount == [shown |-> FALSE, ip |-> 1, fd |-> 0, fp |-> 0]
IntCount(n) == [shown |-> TRUE, ip |-> n, fd |-> 0, fp |-> 0]
DecCount(i, f, d) == [shown |-> TRUE, ip |-> i, fd |-> d, fp |-> f]

(* charge tokens: [t |-> "+3", q |-> 3] ; the text is sign followed by the magnitude (omitted for 1) *)
ChargeTok(q) == [t |-> (IF q > 0 THEN "+" ELSE "-") \o (IF Abs(q) = 1 THEN "" ELSE ToString(Abs(q))), q |-> q]
\* a unit charge may also be spelled out: "+1" / "-1" (same denotation, same rendering)
ChargeTokOne(q) == [t |-> (IF q > 0 THEN "+1" ELSE "-1"), q |-> q]
\* a charge of zero may be written out ("Fe+0", "Fe-0"): the species is neutral and says so
ChargeTokZero(sgn) == [t |-> sgn \o "0", q |-> 0]
IsChargeTok(c) == c.q \in Int /\ IF c.q = 0 THEN c.t \in {"+0", "-0"}
                                 ELSE (c.t = ChargeTok(c.q).t \/ (Abs(c.q) = 1 /\ c.t = ChargeTokOne(c.q).t))

(* compositions: functions from a set of atomic numbers to rationals *)
EmptyC == <<>>
Get(f, z) == IF z \in DOMAIN f THEN f[z] ELSE QZero
CAdd(f, g) == [z \in DOMAIN f \cup DOMAIN g |-> QAdd(Get(f, z), Get(g, z))]
CScale(f, q) == [z \in DOMAIN f |-> QMul(f[z], q)]
CSingle(z, q) == [y \in {z} |-> q]
CompSeq(f) == LET zs == SetToSortSeq(DOMAIN f, <) IN [i \in 1..Len(zs) |-> <<zs[i], f[zs[i]]>>]

------------------------------------------------------------------------------
Init ==
    /\ txt = "" /\ toks = <<>> /\ stack = <<EmptyC>> /\ closers = <<>> /\ total = EmptyC
    /\ partMult = 1 /\ nparts = 1 /\ sep = "" /\ stage = "start" /\ fault = "none"
    /\ nterms = 0 /\ nprimes = 0

Depth == Len(closers)
Top == stack[Len(stack)]
ReplaceTop(f) == [stack EXCEPT ![Len(stack)] = f]
InBody == stage \in {"start", "body"}
LastKind == IF toks = <<>> THEN "none" ELSE toks[Len(toks)].k
TermJustEnded == LastKind \in {"atom", "close", "prime", "bad", "stray"}
NOpens == Cardinality({ i \in 1..Len(toks) : toks[i].k = "open" })

Prefix(p) ==
    /\ stage = "start" /\ p \in AllPrefixes
    /\ \A i \in 1..Len(toks) : toks[i].k = "pre"
    /\ Len(toks) < MaxPrefixes
    /\ toks # <<>> => PrefixRank(toks[Len(toks)].t) < PrefixRank(p)
    /\ txt' = txt \o p
    /\ toks' = Append(toks, [k |-> "pre", t |-> p])
    /\ UNCHANGED <<stack, closers, total, partMult, nparts, sep, stage, fault, nterms, nprimes>>

Atom(z, c) ==
    /\ InBody /\ z \in Elems /\ IsCount(c)
    /\ txt' = txt \o Sym[z] \o CountText(c)
    /\ toks' = Append(toks, [k |-> "atom", z |-> z, c |-> c])
    /\ stack' = ReplaceTop(CAdd(Top, CSingle(z, CountVal(c))))
    /\ stage' = "body" /\ nterms' = nterms + 1
    /\ UNCHANGED <<closers, total, partMult, nparts, sep, fault, nprimes>>

Open(b) ==
    /\ InBody /\ b \in AllBrackets
    /\ txt' = txt \o b
    /\ toks' = Append(toks, [k |-> "open", b |-> b])
    /\ stack' = Append(stack, EmptyC)
    /\ closers' = Append(closers, CloserOf(b))
    /\ stage' = "body"
    /\ UNCHANGED <<total, partMult, nparts, sep, fault, nterms, nprimes>>

(* closing the innermost group: its content, multiplied by the count, joins the parent *)
Close(c) ==
    /\ stage = "body" /\ Depth > 0 /\ TermJustEnded /\ IsCount(c)
    /\ LET cl == closers[Len(closers)]
           popped == Top
           parent == stack[Len(stack) - 1]
       IN  /\ txt' = txt \o cl \o CountText(c)
           /\ toks' = Append(toks, [k |-> "close", b |-> cl, c |-> c])
           /\ stack' = [SubSeq(stack, 1, Len(stack) - 1) EXCEPT ![Len(stack) - 1] =
                            CAdd(parent, CScale(popped, CountVal(c)))]
           /\ closers' = SubSeq(closers, 1, Len(closers) - 1)
    /\ UNCHANGED <<total, partMult, nparts, sep, stage, fault, nterms, nprimes>>

AllPrimeMarks == {"*", "'", "**", "''", "*'", "'*", "***", "'''"}
Prime(m) ==
    /\ stage = "body" /\ LastKind \in {"atom", "close", "bad"} /\ m \in AllPrimeMarks
    /\ txt' = txt \o m
    /\ toks' = Append(toks, [k |-> "prime", t |-> m])
    /\ nprimes' = nprimes + 1
    /\ UNCHANGED <<stack, closers, total, partMult, nparts, sep, stage, fault, nterms>>

(* end of a hydrate part: the part, times its leading count, is added to the total *)
Hydrate(s, m) ==
    /\ stage = "body" /\ Depth = 0 /\ TermJustEnded /\ m \in Nat \ {0}
    /\ s \in {"..", "~"} /\ (sep = "" \/ sep = s)
    /\ txt' = txt \o s \o (IF m = 1 THEN "" ELSE ToString(m))
    /\ toks' = Append(toks, [k |-> "hyd", sep |-> s, m |-> m])
    /\ total' = CAdd(total, CScale(stack[1], Q(partMult)))
    /\ stack' = <<EmptyC>>
    /\ partMult' = m /\ nparts' = nparts + 1 /\ sep' = s
    /\ stage' = "start"      \* a part must contain a term before anything else may follow
    /\ UNCHANGED <<closers, fault, nterms, nprimes>>

Charge(c) ==
    /\ stage = "body" /\ Depth = 0 /\ TermJustEnded /\ IsChargeTok(c)
    /\ txt' = txt \o c.t
    /\ toks' = Append(toks, [k |-> "chg", t |-> c.t, q |-> c.q])
    /\ stage' = "charged"
    /\ UNCHANGED <<stack, closers, total, partMult, nparts, sep, fault, nterms, nprimes>>

Suffix(s) ==
    /\ stage \in {"body", "charged"} /\ Depth = 0 /\ (stage = "body" => TermJustEnded)
    /\ s \in AllSuffixes
    /\ txt' = txt \o s
    /\ toks' = Append(toks, [k |-> "suf", t |-> s])
    /\ stage' = "suffixed"
    /\ UNCHANGED <<stack, closers, total, partMult, nparts, sep, fault, nterms, nprimes>>

Finish ==
    /\ stage \in {"body", "charged", "suffixed"} /\ (stage = "body" => TermJustEnded)
    /\ (Depth = 0 \/ fault # "none")
    /\ total' = IF Depth = 0 THEN CAdd(total, CScale(stack[1], Q(partMult))) ELSE total
    /\ stage' = "done"
    /\ UNCHANGED <<txt, toks, stack, closers, partMult, nparts, sep, fault, nterms, nprimes>>

(* the electron: the only lower-case "formula" *)
Electron ==
    /\ stage = "start" /\ toks = <<>>
    /\ txt' = "e-"
    /\ toks' = <<[k |-> "electron"], [k |-> "chg", t |-> "-", q |-> -1]>>
    /\ stage' = "charged"
    /\ UNCHANGED <<stack, closers, total, partMult, nparts, sep, fault, nterms, nprimes>>

------------------------------------------------------------------------------
(* ill-formed strings: the three rejection classes of C01.  After a fault the rest of the    *)
(* string is still generated, the expected observation is "raises".                          *)
BadSymbol(t) ==
    /\ InBody /\ fault = "none" /\ t \notin Symbols
    /\ txt' = txt \o t
    /\ toks' = Append(toks, [k |-> "bad", t |-> t])
    /\ fault' = "badsymbol" /\ stage' = "body" /\ nterms' = nterms + 1
    /\ UNCHANGED <<stack, closers, total, partMult, nparts, sep, nprimes>>

StrayCloser(b) ==
    /\ stage = "body" /\ Depth = 0 /\ fault = "none" /\ TermJustEnded
    /\ txt' = txt \o CloserOf(b)
    /\ toks' = Append(toks, [k |-> "stray", b |-> CloserOf(b)])
    /\ fault' = "stray"
    /\ UNCHANGED <<stack, closers, total, partMult, nparts, sep, stage, nterms, nprimes>>

MismatchedCloser(b) ==
    /\ stage = "body" /\ Depth > 0 /\ fault = "none" /\ TermJustEnded
    /\ CloserOf(b) # closers[Len(closers)]
    /\ txt' = txt \o CloserOf(b)
    /\ toks' = Append(toks, [k |-> "stray", b |-> CloserOf(b)])
    /\ closers' = SubSeq(closers, 1, Len(closers) - 1)
    /\ stack' = SubSeq(stack, 1, Len(stack) - 1)
    /\ fault' = "mismatch"
    /\ UNCHANGED <<total, partMult, nparts, sep, stage, nterms, nprimes>>

Unclosed ==
    /\ stage = "body" /\ Depth > 0 /\ fault = "none" /\ TermJustEnded
    /\ fault' = "unclosed" /\ stage' = "done"      \* the string simply ends with a group still open
    /\ UNCHANGED <<txt, toks, stack, closers, total, partMult, nparts, sep, nterms, nprimes>>

(* "+" and "-" both present in the charge *)
Contradictory(t) ==
    /\ stage = "body" /\ Depth = 0 /\ fault = "none" /\ TermJustEnded
    /\ t \in {"+-", "-+", "+2-", "-3+", "+-2", "-+3"}
    /\ txt' = txt \o t
    /\ toks' = Append(toks, [k |-> "badchg", t |-> t])
    /\ fault' = "contradictory" /\ stage' = "charged"
    /\ UNCHANGED <<stack, closers, total, partMult, nparts, sep, nterms, nprimes>>

------------------------------------------------------------------------------
(* generation steps: the module actions, restricted to the alphabets of the configuration *)
GenPrefix == \E p \in PrefixSet : Prefix(p)
GenAtom == \E z \in Elems, c \in AtomCounts : nterms < MaxTerms /\ Atom(z, c)
GenOpen == \E b \in Brackets : Depth < MaxDepth /\ nterms < MaxTerms /\ NOpens < MaxGroups /\ Open(b)
GenClose == \E c \in GroupCounts : Close(c)
GenPrime == \E m \in PrimeMarks : nprimes < MaxPrimes /\ Prime(m)
GenHydrate == \E s \in HydSeps, m \in HydCounts : nparts < MaxParts /\ nterms < MaxTerms /\ Hydrate(s, m)
GenCharge == \E c \in ChargeToks : Charge(c)
GenSuffix == \E s \in SuffixSet : Suffix(s)
GenBadSymbol == "badsymbol" \in FaultKinds /\ \E t \in BadTokens : nterms < MaxTerms /\ BadSymbol(t)
GenStray == "stray" \in FaultKinds /\ \E b \in Brackets : StrayCloser(b)
GenMismatch == "mismatch" \in FaultKinds /\ \E b \in AllBrackets : MismatchedCloser(b)
GenUnclosed == "unclosed" \in FaultKinds /\ Unclosed
GenContradictory == "contradictory" \in FaultKinds /\ \E t \in {"+-", "-+", "+2-", "-3+", "+-2", "-+3"} : Contradictory(t)

Next ==
    \/ GenPrefix \/ GenAtom \/ GenOpen \/ GenClose \/ GenPrime \/ GenHydrate \/ GenCharge
    \/ GenSuffix \/ Finish \/ GenBadSymbol \/ GenStray \/ GenMismatch \/ GenUnclosed
    \/ GenContradictory

Spec == Init /\ [][Next]_vars

------------------------------------------------------------------------------
(* DECLARATIVE denotation, straight from the statement of C01: the entry of an element is    *)
(* the sum over its occurrences of the product of the enclosing multipliers.                  *)
Done == stage = "done"
WellFormed == fault = "none"

IsK(i, kind) == toks[i].k = kind
RECURSIVE Balance(_, _)
\* number of opens minus number of closes among toks[i..j]
Balance(i, j) == IF i > j THEN 0
                 ELSE (IF IsK(j, "open") THEN 1 ELSE IF IsK(j, "close") THEN -1 ELSE 0) + Balance(i, j - 1)
MatchClose(i) == CHOOSE j \in (i + 1)..Len(toks) :
                    /\ IsK(j, "close") /\ Balance(i, j) = 0
                    /\ \A l \in (i + 1)..(j - 1) : ~(IsK(l, "close") /\ Balance(i, l) = 0)
Enclosing(p) == { i \in 1..(p - 1) : IsK(i, "open") /\ MatchClose(i) > p }
PartMultAt(p) == LET hs == { i \in 1..(p - 1) : IsK(i, "hyd") }
                 IN  IF hs = {} THEN 1 ELSE toks[CHOOSE i \in hs : \A l \in hs : l <= i].m
QProdSet(S, f(_)) == FoldSet(LAMBDA x, acc : QMul(f(x), acc), QOne, S)
QSumSet(S, f(_)) == FoldSet(LAMBDA x, acc : QAdd(f(x), acc), QZero, S)
GroupMult(i) == CountVal(toks[MatchClose(i)].c)
Contribution(p) == QMul(QMul(CountVal(toks[p].c), QProdSet(Enclosing(p), GroupMult)), Q(PartMultAt(p)))
AtomPos == { p \in 1..Len(toks) : IsK(p, "atom") }
Denote == [z \in { toks[p].z : p \in AtomPos } |->
              QSumSet({ p \in AtomPos : toks[p].z = z }, Contribution)]
ChargePos == { p \in 1..Len(toks) : IsK(p, "chg") }
ChargeOf == IF ChargePos = {} THEN 0 ELSE toks[CHOOSE p \in ChargePos : TRUE].q
HasCharge == ChargePos # {}
RECURSIVE PrefixFrom(_)
PrefixFrom(i) == IF i <= Len(toks) /\ IsK(i, "pre") THEN toks[i].t \o PrefixFrom(i + 1) ELSE ""
PrefixOf == PrefixFrom(1)
(* the ignore lists a caller may pass explicitly: exactly the prefixes / the suffix this formula carries.   *)
(* With them the formula denotes what it denotes under the default lists.  (Nothing is demanded for a      *)
(* suffix that is NOT listed: the grammar itself knows the state symbols and accepts some such strings.)     *)
RECURSIVE PrefixListFrom(_)
PrefixListFrom(i) == IF i <= Len(toks) /\ IsK(i, "pre") THEN <<toks[i].t>> \o PrefixListFrom(i + 1) ELSE <<>>
PrefixList == PrefixListFrom(1)
SuffixOf == IF toks # <<>> /\ IsK(Len(toks), "suf") THEN toks[Len(toks)].t ELSE ""

(* design-level invariants *)
OperationalIsDeclarative == (Done /\ WellFormed) => total = Denote
KeysExact == (Done /\ WellFormed) => DOMAIN total = { toks[p].z : p \in AtomPos }
AllPositive == (Done /\ WellFormed) => \A z \in DOMAIN total : QLt(QZero, total[z])
ChargeOnlyFromToken == Cardinality(ChargePos) <= 1
PrefixesInTableOrder == \A i, j \in 1..Len(toks) :
    (i < j /\ IsK(i, "pre") /\ IsK(j, "pre")) => PrefixRank(toks[i].t) < PrefixRank(toks[j].t)
StackShape == Len(stack) = Len(closers) + 1 \/ fault # "none"
TypeOK == stage \in {"start", "body", "charged", "suffixed", "done"}

------------------------------------------------------------------------------
(* presentation tokens (C13): what a faithful rendering shows, independent of the format *)
SignMag(q) == IF q = 0 THEN "0" ELSE (IF Abs(q) = 1 THEN "" ELSE ToString(Abs(q))) \o (IF q > 0 THEN "+" ELSE "-")
RenderTok(t) ==
    CASE t.k = "pre"   -> <<[r |-> "Pre", t |-> t.t]>>
      [] t.k = "atom"  -> <<[r |-> "Sym", t |-> Sym[t.z]]>> \o
                          (IF t.c.shown THEN <<[r |-> "Sub", t |-> CountText(t.c)]>> ELSE <<>>)
      [] t.k = "open"  -> <<[r |-> "Br", t |-> t.b]>>
      [] t.k = "close" -> <<[r |-> "Br", t |-> t.b]>> \o
                          (IF t.c.shown THEN <<[r |-> "Sub", t |-> CountText(t.c)]>> ELSE <<>>)
      [] t.k = "prime" -> <<[r |-> "Plain", t |-> t.t]>>
      [] t.k = "hyd"   -> <<[r |-> "Infix", t |-> ".."]>> \o
                          (IF t.m = 1 THEN <<>> ELSE <<[r |-> "Plain", t |-> ToString(t.m)]>>)
      [] t.k = "chg"   -> <<[r |-> "Sup", t |-> SignMag(t.q)]>>
      [] t.k = "suf"   -> <<[r |-> "Suf", t |-> t.t]>>
      [] t.k = "electron" -> <<[r |-> "Sym", t |-> "e"]>>
      [] OTHER -> <<>>
RECURSIVE RenderFrom(_)
RenderFrom(i) == IF i > Len(toks) THEN <<>> ELSE RenderTok(toks[i]) \o RenderFrom(i + 1)
Render == RenderFrom(1)

(* phase index selected by the suffix (Species.from_formula): position in the phase list, 0 if none *)
PhaseIdx(sfx, phases) == IF \E i \in 1..Len(phases) : phases[i] = sfx
                         THEN CHOOSE i \in 1..Len(phases) : phases[i] = sfx ELSE 0

PhaseIdxMap(sfx, map, default) == IF sfx \in DOMAIN map THEN map[sfx] ELSE default
(* an explicitly given phase index wins over whatever suffix is written (which remains a suffix) *)
PhaseIdxGiven(sfx, n) == n

------------------------------------------------------------------------------
(* molar mass (C14): see Mass.tla - MassNumOf(comp, q), MassDenOf(comp) *)
------------------------------------------------------------------------------
(* case export *)
HasDec == \E p \in 1..Len(toks) : toks[p].k \in {"atom", "close"} /\ toks[p].c.fd > 0
MaxNest == LET ds == { Balance(1, p) : p \in 1..Len(toks) } IN CHOOSE d \in ds \cup {0} : \A e \in ds \cup {0} : e <= d
Class == IF fault # "none" THEN "fault-" \o fault
         ELSE "ok" \o (IF MaxNest > 0 THEN "-g" \o ToString(MaxNest) ELSE "")
                   \o (IF nparts > 1 THEN "-h" ELSE "") \o (IF HasDec THEN "-d" ELSE "")
                   \o (IF HasCharge THEN "-q" ELSE "") \o (IF PrefixOf # "" THEN "-p" ELSE "")
                   \o (IF SuffixOf # "" THEN "-s" ELSE "") \o (IF nprimes > 0 THEN "-m" ELSE "")
CaseRec ==
    [ in |-> [txt |-> txt], cls |-> Class,
      exp |-> IF fault # "none" THEN [raise |-> TRUE, fault |-> fault]
              ELSE [ raise |-> FALSE, comp |-> CompSeq(total), q |-> ChargeOf, hasq |-> HasCharge,
                     prefix |-> PrefixOf, suffix |-> SuffixOf, render |-> Render,
                     phase_default |-> PhaseIdx(SuffixOf, <<"(s)", "(l)", "(g)">>),
                     phase_alt |-> PhaseIdx(SuffixOf, <<"(aq)", "(g)">>),
                     \* phases given as a mapping suffix -> index, with default index 7 for the others
                     phase_dict |-> PhaseIdxMap(SuffixOf, ("(aq)" :> 0) @@ ("(s)" :> 5) @@ ("(g)" :> 2), 7),
                     \* default_phase_idx = None: an unknown (or missing) suffix must be refused
                     phase_given |-> PhaseIdxGiven(SuffixOf, 4),
                     prefix_list |-> PrefixList,
                     suffix_list |-> IF SuffixOf = "" THEN <<>> ELSE <<SuffixOf>>,
                     phase_none_raises |-> PhaseIdx(SuffixOf, <<"(s)", "(l)", "(g)">>) = 0,
                     massnum |-> MassNumOf(total, ChargeOf), massden |-> MassDenOf(total),
                     ntoks |-> Len(toks) ] ]
Emit == Done => PrintT(<<"CASE", ToJson(CaseRec)>>)
=============================================================================
