INIT TInit
NEXT TNext
CONSTANTS
  Elems <- E_All
  AtomCounts = {}
  GroupCounts = {}
  Brackets = {}
  MaxDepth = 0
  MaxGroups = 0
  MaxTerms = 0
  MaxParts = 0
  HydSeps = {}
  HydCounts = {}
  ChargeToks = {}
  PrefixSet = {}
  MaxPrefixes = 2
  SuffixSet = {}
  PrimeMarks = {}
  MaxPrimes = 0
  BadTokens = {}
  FaultKinds = {}
INVARIANT Verdict
INVARIANT OperationalIsDeclarative
CHECK_DEADLOCK FALSE
