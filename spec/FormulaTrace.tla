---------------------------- MODULE FormulaTrace ----------------------------
(* Trace validation for Formula (C01): executions of the real parser, recorded as the token  *)
(* events of the input followed by the observed result, are replayed through the actions of  *)
(* Formula.  A batch of traces is validated in one TLC run: Init picks a trace id, every     *)
(* chain ends in verdict "accept" or "reject" and prints exactly one VERDICT line.           *)
EXTENDS Formula, IOUtils

Traces == JsonDeserialize(IOEnv.TRACE_FILE)

VARIABLES tid, pos, verdict
tvars == <<vars, tid, pos, verdict>>

Ev == Traces[tid][pos]

TInit == Init /\ tid \in 1..Len(Traces) /\ pos = 1 /\ verdict = "none"

Step(e) ==
    CASE e.k = "pre"      -> Prefix(e.t)
      [] e.k = "atom"     -> Atom(e.z, e.c)
      [] e.k = "open"     -> Open(e.b)
      [] e.k = "close"    -> Close(e.c) /\ closers[Len(closers)] = e.b
      [] e.k = "prime"    -> Prime(e.t)
      [] e.k = "hyd"      -> Hydrate(e.sep, e.m)
      [] e.k = "chg"      -> Charge([t |-> e.t, q |-> e.q])
      [] e.k = "suf"      -> Suffix(e.t)
      [] e.k = "electron" -> Electron
      [] e.k = "bad"      -> BadSymbol(e.t)
      [] e.k = "stray"    -> (StrayCloser(e.o) \/ MismatchedCloser(e.o))
      [] e.k = "unclosed" -> Unclosed
      [] e.k = "badchg"   -> Contradictory(e.t)
      [] e.k = "finish"   -> Finish
      [] OTHER            -> FALSE

ResultOK(e) ==
    /\ stage = "done"
    /\ txt = e.txt
    /\ e.raised = (fault # "none")
    /\ (~e.raised => (e.comp = CompSeq(total) /\ e.q = ChargeOf))
    \* C13: every un-presented rendering that was recorded shows exactly the spec's tokens
    /\ (~e.raised => \A i \in 1..Len(e.shown) : e.shown[i] = Render)
    \* C14: a recorded mass (round(mass * 10^9) as limbs; <<>> = not recorded) is the exact one
    /\ (~e.raised => (e.mass9 = <<>> \/ MassClose(e.mass9, total, ChargeOf)))

TStep ==
    /\ verdict = "none" /\ pos <= Len(Traces[tid])
    /\ IF Ev.k = "result"
       THEN ResultOK(Ev) /\ verdict' = "accept" /\ UNCHANGED vars
       ELSE Step(Ev) /\ verdict' = "none"
    /\ pos' = pos + 1 /\ UNCHANGED tid

TReject ==
    /\ verdict = "none" /\ ~ENABLED TStep
    /\ verdict' = "reject" /\ UNCHANGED <<vars, tid, pos>>

TNext == TStep \/ TReject

Clause ==
    IF pos > Len(Traces[tid]) THEN "no-result-event"
    ELSE LET e == Ev IN
      IF e.k # "result" THEN "step:" \o e.k
      ELSE IF stage # "done" THEN "notdone"
      ELSE IF txt # e.txt THEN "text"
      ELSE IF e.raised /\ fault = "none" THEN "unexpected-raise"
      ELSE IF ~e.raised /\ fault # "none" THEN "missing-raise"
      ELSE IF e.comp # CompSeq(total) THEN "comp"
      ELSE IF e.q # ChargeOf THEN "charge"
      ELSE IF \E i \in 1..Len(e.shown) : e.shown[i] # Render THEN "render"
      ELSE "mass"

E_All == 1..118
Verdict == verdict # "none" =>
    PrintT(<<"VERDICT", tid, verdict, pos, IF verdict = "accept" THEN "" ELSE Clause>>)
=============================================================================
