---------------------------- MODULE Formula_MC ----------------------------
(* Constant definitions for the sliced exhaustive configurations of Formula.               *)
EXTENDS Formula

C_None  == {NoCount}
C_Two   == {NoCount, IntCount(2)}
C_Small == {NoCount, IntCount(2), IntCount(3)}
C_Wide  == {NoCount, IntCount(2), IntCount(10), IntCount(12), IntCount(100),
            DecCount(2, 5, 1), DecCount(0, 5, 1), DecCount(1, 25, 2), DecCount(2, 3, 1), DecCount(0, 125, 3),
            DecCount(12, 5, 1), DecCount(10, 25, 2)}
C_Dec   == {NoCount, IntCount(3), DecCount(2, 5, 1), DecCount(0, 25, 2), DecCount(12, 5, 1)}
G_Two   == {IntCount(2)}
\* simulation: deep random behaviours; multipliers small enough that depth 4 stays inside 32 bits
C_Sim   == {NoCount, IntCount(2), IntCount(3), IntCount(12), DecCount(2, 5, 1), DecCount(0, 5, 1),
            DecCount(1, 25, 2), DecCount(12, 5, 1)}

E_All == 1..118
Q_None == {}
Q_Few == {ChargeTok(1), ChargeTok(-2), ChargeTokOne(-1), ChargeTokZero("+")}
Q_All == {ChargeTok(1), ChargeTok(-1), ChargeTok(2), ChargeTok(-2), ChargeTok(3), ChargeTok(-3),
          ChargeTok(10), ChargeTok(-12), ChargeTokOne(1), ChargeTokOne(-1),
          ChargeTokZero("+"), ChargeTokZero("-")}
\* every decimal digit in every numeric position the renderers translate through a digit table (sub- and superscripts)
C_Digits == {NoCount, IntCount(3), IntCount(4), IntCount(56), IntCount(78), IntCount(90), DecCount(6, 75, 2), DecCount(9, 8, 1)}
\* decimals a hair away from an integer (four decimals): the written amount is exact, never rounded to the integer
C_Near == {NoCount, IntCount(2), DecCount(0, 9995, 4), DecCount(2, 4, 4), DecCount(1, 1, 4)}
Q_Digits == {ChargeTok(4), ChargeTok(-5), ChargeTok(6), ChargeTok(-7), ChargeTok(8), ChargeTok(-9), ChargeTok(18),
             ChargeTok(-29), ChargeTok(30), ChargeTok(-13), ChargeTokOne(1)}
P_All == AllPrefixes
\* prefixes that contain one another (eta in beta/zeta/theta), an irregular LaTeX form (omicron) and the radical dot
P_Few == {"alpha-", "beta-", "eta-", "theta-", "omicron-", "."}
S_All == AllSuffixes
Bad == {"Xx", "A", "Hx", "Q", "Zz", "Ab", "J", "Nax", "Cc"}
AllFaults == {"badsymbol", "unclosed", "stray", "mismatch", "contradictory"}
ASSUME Bad \cap Symbols = {}
=============================================================================
