INIT Init
NEXT Next
CONSTANTS
  Elems = {92, 8}
  AtomCounts <- C_Wide
  GroupCounts <- C_Wide
  Brackets = {"(", "["}
  MaxDepth = 1
  MaxGroups = 1
  MaxTerms = 2
  MaxParts = 1
  HydSeps = {}
  HydCounts = {}
  ChargeToks <- Q_None
  PrefixSet = {}
  MaxPrefixes = 1
  SuffixSet = {}
  PrimeMarks = {}
  MaxPrimes = 0
  BadTokens = {}
  FaultKinds = {}
INVARIANT OperationalIsDeclarative
INVARIANT KeysExact
INVARIANT AllPositive
INVARIANT ChargeOnlyFromToken
INVARIANT StackShape
INVARIANT TypeOK
INVARIANT Emit
CHECK_DEADLOCK FALSE
