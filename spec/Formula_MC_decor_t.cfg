INIT Init
NEXT Next
CONSTANTS
  Elems = {26, 8}
  AtomCounts <- C_Two
  GroupCounts <- G_Two
  Brackets = {"["}
  MaxDepth = 1
  MaxGroups = 1
  MaxTerms = 2
  MaxParts = 1
  HydSeps = {}
  HydCounts = {}
  ChargeToks <- Q_All
  PrefixSet <- P_All
  MaxPrefixes = 1
  SuffixSet <- S_All
  PrimeMarks = {"*", "'", "**"}
  MaxPrimes = 1
  BadTokens = {}
  FaultKinds = {}
INVARIANT OperationalIsDeclarative
INVARIANT KeysExact
INVARIANT AllPositive
INVARIANT ChargeOnlyFromToken
INVARIANT StackShape
INVARIANT TypeOK
INVARIANT Emit
CHECK_DEADLOCK FALSE
