INIT Init
NEXT Next
CONSTANTS
  Elems = {6, 8}
  AtomCounts <- C_Two
  GroupCounts <- G_Two
  Brackets = {"(", "["}
  MaxDepth = 1
  MaxGroups = 1
  MaxTerms = 2
  MaxParts = 1
  HydSeps = {}
  HydCounts = {}
  ChargeToks <- Q_Few
  PrefixSet = {}
  MaxPrefixes = 1
  SuffixSet = {"(aq)"}
  PrimeMarks = {}
  MaxPrimes = 0
  BadTokens <- Bad
  FaultKinds <- AllFaults
INVARIANT OperationalIsDeclarative
INVARIANT KeysExact
INVARIANT AllPositive
INVARIANT ChargeOnlyFromToken
INVARIANT StackShape
INVARIANT TypeOK
INVARIANT Emit
CHECK_DEADLOCK FALSE
