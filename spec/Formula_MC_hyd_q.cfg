INIT Init
NEXT Next
CONSTANTS
  Elems = {11, 1}
  AtomCounts <- C_Two
  GroupCounts <- G_Two
  Brackets = {"("}
  MaxDepth = 1
  MaxGroups = 1
  MaxTerms = 3
  MaxParts = 2
  HydSeps = {"..", "~"}
  HydCounts = {1, 7}
  ChargeToks <- Q_Few
  PrefixSet = {}
  MaxPrefixes = 1
  SuffixSet = {}
  PrimeMarks = {}
  MaxPrimes = 0
  BadTokens = {}
  FaultKinds = {}
INVARIANT OperationalIsDeclarative
INVARIANT KeysExact
INVARIANT AllPositive
INVARIANT ChargeOnlyFromToken
INVARIANT StackShape
INVARIANT TypeOK
INVARIANT Emit
CHECK_DEADLOCK FALSE
