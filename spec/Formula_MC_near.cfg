INIT Init
NEXT Next
CONSTANTS
  Elems = {26, 8}
  AtomCounts <- C_Near
  GroupCounts <- G_Two
  Brackets = {}
  MaxDepth = 0
  MaxGroups = 0
  MaxTerms = 2
  MaxParts = 1
  HydSeps = {}
  HydCounts = {}
  ChargeToks <- Q_Few
  PrefixSet = {}
  MaxPrefixes = 1
  SuffixSet = {}
  PrimeMarks = {}
  MaxPrimes = 0
  BadTokens = {}
  FaultKinds = {}
INVARIANT OperationalIsDeclarative
INVARIANT KeysExact
INVARIANT AllPositive
INVARIANT ChargeOnlyFromToken
INVARIANT StackShape
INVARIANT TypeOK
INVARIANT Emit
CHECK_DEADLOCK FALSE
