INIT Init
NEXT Next
CONSTANTS
  Elems = {6, 8}
  AtomCounts <- C_Two
  GroupCounts <- C_Two
  Brackets = {"(", "[", "{"}
  MaxDepth = 2
  MaxGroups = 2
  MaxTerms = 3
  MaxParts = 1
  HydSeps = {}
  HydCounts = {}
  ChargeToks <- Q_None
  PrefixSet = {}
  MaxPrefixes = 1
  SuffixSet = {}
  PrimeMarks = {}
  MaxPrimes = 0
  BadTokens = {}
  FaultKinds = {}
INVARIANT OperationalIsDeclarative
INVARIANT KeysExact
INVARIANT AllPositive
INVARIANT ChargeOnlyFromToken
INVARIANT StackShape
INVARIANT TypeOK
INVARIANT Emit
CHECK_DEADLOCK FALSE
