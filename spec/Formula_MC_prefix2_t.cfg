INIT Init
NEXT Next
CONSTANTS
  Elems = {7}
  AtomCounts <- C_Two
  GroupCounts <- G_Two
  Brackets = {}
  MaxDepth = 0
  MaxGroups = 0
  MaxTerms = 1
  MaxParts = 1
  HydSeps = {}
  HydCounts = {}
  ChargeToks <- Q_Few
  PrefixSet <- P_All
  MaxPrefixes = 2
  SuffixSet <- S_All
  PrimeMarks = {}
  MaxPrimes = 0
  BadTokens = {}
  FaultKinds = {}
INVARIANT OperationalIsDeclarative
INVARIANT KeysExact
INVARIANT AllPositive
INVARIANT ChargeOnlyFromToken
INVARIANT StackShape
INVARIANT TypeOK
INVARIANT PrefixesInTableOrder
INVARIANT Emit
CHECK_DEADLOCK FALSE
