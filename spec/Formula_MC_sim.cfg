INIT Init
NEXT Next
CONSTANTS
  Elems <- E_All
  AtomCounts <- C_Sim
  GroupCounts <- C_Sim
  Brackets = {"(", "[", "{"}
  MaxDepth = 4
  MaxGroups = 6
  MaxTerms = 8
  MaxParts = 3
  HydSeps = {"..", "~"}
  HydCounts = {1, 2, 7, 10}
  ChargeToks <- Q_All
  PrefixSet <- P_All
  MaxPrefixes = 2
  SuffixSet <- S_All
  PrimeMarks = {"*", "'", "**"}
  MaxPrimes = 2
  BadTokens <- Bad
  FaultKinds <- AllFaults
INVARIANT OperationalIsDeclarative
INVARIANT KeysExact
INVARIANT Emit
CHECK_DEADLOCK FALSE
