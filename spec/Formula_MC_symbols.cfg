INIT Init
NEXT Next
CONSTANTS
  Elems <- E_All
  AtomCounts <- C_None
  GroupCounts <- C_None
  Brackets = {}
  MaxDepth = 0
  MaxGroups = 0
  MaxTerms = 2
  MaxParts = 1
  HydSeps = {}
  HydCounts = {}
  ChargeToks <- Q_None
  PrefixSet = {}
  MaxPrefixes = 1
  SuffixSet = {}
  PrimeMarks = {}
  MaxPrimes = 0
  BadTokens = {}
  FaultKinds = {}
INVARIANT OperationalIsDeclarative
INVARIANT KeysExact
INVARIANT AllPositive
INVARIANT ChargeOnlyFromToken
INVARIANT StackShape
INVARIANT TypeOK
INVARIANT Emit
CHECK_DEADLOCK FALSE
