---------------------------- MODULE Integrated ----------------------------
(* Closed-form integrated rate laws (property C17): chempy.kinetics.integrated.               *)
(*                                                                                            *)
(* For each of the seven functions the module holds what the DOCUMENTATION says the function  *)
(* is: the mechanism (reactions with mass-action rates, a species held constant for the       *)
(* pseudo-first-order forms, feed terms for the stirred tank), which argument is the initial  *)
(* concentration of which species, which species is returned and which backends are           *)
(* advertised.  From that - not from the closed forms - it derives                            *)
(*   * the rate equation of every returned species after the mechanism's conservation         *)
(*     closure (batch mechanisms have a single extent of reaction, so every concentration is  *)
(*     c0 + nu * xi with xi read off the returned species), as a term over y1, y2 (Terms),    *)
(*   * the initial value (exact rational) and the initial slope RHS(initial) (exact rational),*)
(* and enumerates function x backend x rational parameter grid x time by actions.  Each       *)
(* terminal state is one case.  The binding layer differentiates the real function (sympy     *)
(* backend) and evaluates  d/dt f - RHS(f)  at the case's point with 40 digits, compares      *)
(* f(t_init) with the initial value and every advertised backend with the 40-digit value.     *)
(*                                                                                            *)
(* Convention (property C03, chempy's own): a reaction with rate constant k and reactant      *)
(* stoichiometry nu has rate r = k * prod c^nu and contributes (net stoichiometry) * r.       *)
EXTENDS Integers, Sequences, FiniteSets, TLC, Json, Terms

CONSTANTS
    Fns,          \* subset of AllFns
    BackendSet,   \* subset of AllBackends
    Grid,         \* function: argument name -> set of rationals <<n, d>>
    Times         \* set of rationals: time elapsed since the initial time

VARIABLES fn, backend, par, dt, stage
vars == <<fn, backend, par, dt, stage>>

AllFns == {"dimerization_irrev", "pseudo_irrev", "pseudo_rev", "binary_irrev", "binary_rev",
           "unary_irrev_cstr", "binary_irrev_cstr"}
(* "backend : module or str.  Default is 'numpy', can also be e.g. sympy"; the fallback of    *)
(* get_backend is math.  :str = given by name, :mod = the module object, default = omitted.   *)
AllBackends == {"default", "numpy:str", "numpy:mod", "math:str", "math:mod", "sympy:str", "sympy:mod"}
Advertised(f) == IF f = "dimerization_irrev" THEN {"plain"} ELSE AllBackends

------------------------------------------------------------------------------
(* signatures: positional arguments after t *)
Sig(f) ==
    CASE f = "dimerization_irrev" -> <<"kf", "initial_C", "t0">>
      [] f = "pseudo_irrev"       -> <<"kf", "prod", "major", "minor">>
      [] f = "pseudo_rev"         -> <<"kf", "kb", "prod", "major", "minor">>
      [] f = "binary_irrev"       -> <<"kf", "prod", "major", "minor">>
      [] f = "binary_rev"         -> <<"kf", "kb", "prod", "major", "minor">>
      [] f = "unary_irrev_cstr"   -> <<"k", "r", "p", "fr", "fp", "fv">>
      [] f = "binary_irrev_cstr"  -> <<"k", "r", "p", "fr", "fp", "fv", "n">>

(* mechanisms.  Stoichiometries are sequences of <<species, coefficient term>>; reactant      *)
(* coefficients are integers (they are exponents of the rate law).                            *)
Rxn(reac, prod, k) == [reac |-> reac, prod |-> prod, k |-> k]
One == TC(1)
AB_P(k)  == Rxn(<<<<"A", One>>, <<"B", One>>>>, <<<<"P", One>>>>, k)      \* A + B -> P
P_AB(k)  == Rxn(<<<<"P", One>>>>, <<<<"A", One>>, <<"B", One>>>>, k)      \* P -> A + B

(* c0: species -> name of the argument holding its initial concentration                      *)
(* held: species whose concentration is treated as constant (pseudo-first-order)              *)
(* feed: species -> argument holding its feed concentration (stirred tank), fv: feed rate /   *)
(* volume; ret: the species whose concentration(s) the function returns, in order             *)
Mech(f) ==
    CASE f = "dimerization_irrev" ->      \* 2 A -> P, returns [A]; initial time t0
            [rxns |-> <<Rxn(<<<<"A", TC(2)>>>>, <<<<"P", One>>>>, "kf")>>,
             c0 |-> [A |-> "initial_C"], held |-> {}, flow |-> FALSE, feed |-> [A |-> ""], fv |-> "",
             ret |-> <<"A">>, tinit |-> "t0"]
      [] f = "pseudo_irrev" ->            \* A + B -> P, [A] (major) constant, returns [P]
            [rxns |-> <<AB_P("kf")>>,
             c0 |-> [A |-> "major", B |-> "minor", P |-> "prod"], held |-> {"A"}, flow |-> FALSE,
             feed |-> [A |-> ""], fv |-> "", ret |-> <<"P">>, tinit |-> ""]
      [] f = "pseudo_rev" ->              \* A + B <-> P, [A] constant, returns [P]
            [rxns |-> <<AB_P("kf"), P_AB("kb")>>,
             c0 |-> [A |-> "major", B |-> "minor", P |-> "prod"], held |-> {"A"}, flow |-> FALSE,
             feed |-> [A |-> ""], fv |-> "", ret |-> <<"P">>, tinit |-> ""]
      [] f = "binary_irrev" ->            \* A + B -> P, returns [P]
            [rxns |-> <<AB_P("kf")>>,
             c0 |-> [A |-> "major", B |-> "minor", P |-> "prod"], held |-> {}, flow |-> FALSE,
             feed |-> [A |-> ""], fv |-> "", ret |-> <<"P">>, tinit |-> ""]
      [] f = "binary_rev" ->              \* A + B <-> P, returns [P]
            [rxns |-> <<AB_P("kf"), P_AB("kb")>>,
             c0 |-> [A |-> "major", B |-> "minor", P |-> "prod"], held |-> {}, flow |-> FALSE,
             feed |-> [A |-> ""], fv |-> "", ret |-> <<"P">>, tinit |-> ""]
      [] f = "unary_irrev_cstr" ->        \* A -> B in a stirred tank, returns ([A], [B])
            [rxns |-> <<Rxn(<<<<"A", One>>>>, <<<<"B", One>>>>, "k")>>,
             c0 |-> [A |-> "r", B |-> "p"], held |-> {}, flow |-> TRUE,
             feed |-> [A |-> "fr", B |-> "fp"], fv |-> "fv", ret |-> <<"A", "B">>, tinit |-> ""]
      [] f = "binary_irrev_cstr" ->       \* 2 A -> n B in a stirred tank, returns ([A], [B])
            [rxns |-> <<Rxn(<<<<"A", TC(2)>>>>, <<<<"B", TVar("n")>>>>, "k")>>,
             c0 |-> [A |-> "r", B |-> "p"], held |-> {}, flow |-> TRUE,
             feed |-> [A |-> "fr", B |-> "fp"], fv |-> "fv", ret |-> <<"A", "B">>, tinit |-> ""]

(* documented preconditions on the arguments *)
Positive(q) == q[1] > 0
Admissible(f, p) ==
    \* degenerate but legal: no initial product, no backward reaction (kb = 0), an empty tank at the start
    \* (r = 0), a feed without reactant or product (fr = 0, fp = 0); forward constants, the reactant
    \* amounts of the batch forms and the feed rate stay positive
    /\ \A k \in DOMAIN p : k \in {"prod", "p", "t0", "kb", "r", "fr", "fp"} \/ Positive(p[k])
    /\ \A k \in DOMAIN p : p[k][1] >= 0
    /\ (f = "binary_irrev" /\ {"major", "minor"} \subseteq DOMAIN p) => p["major"] # p["minor"]
       \* "major: the more abundant reactant": equal amounts are outside the documented domain
       \* (the closed form is 0/0 there)

------------------------------------------------------------------------------
(* rate equations *)
StoichT(side, s) ==
    IF \E i \in 1..Len(side) : side[i][1] = s
    THEN side[CHOOSE i \in 1..Len(side) : side[i][1] = s][2] ELSE TC(0)
NetT(r, s) == TSub(StoichT(r.prod, s), StoichT(r.reac, s))
YVar(i) == TVar("y" \o ToString(i))
RetIdx(m, s) == IF \E i \in 1..Len(m.ret) : m.ret[i] = s
                THEN CHOOSE i \in 1..Len(m.ret) : m.ret[i] = s ELSE 0

(* concentration of species s expressed by the returned concentrations (conservation closure) *)
Conc(m, s) ==
    IF RetIdx(m, s) > 0 THEN YVar(RetIdx(m, s))
    ELSE IF s \in m.held THEN TVar(m.c0[s])
    ELSE \* batch, single extent xi = (y1 - c0[ret1]) / net(rxn1, ret1);  c_s = c0_s + net(rxn1, s) * xi
         LET r1 == m.rxns[1]
             xi == TDiv(TSub(YVar(1), TVar(m.c0[m.ret[1]])), NetT(r1, m.ret[1]))
         IN  TAdd(TVar(m.c0[s]), TMul(NetT(r1, s), xi))

RateT(m, r) ==
    TProd(<<TVar(r.k)>> \o [i \in 1..Len(r.reac) |-> TPow(Conc(m, r.reac[i][1]), r.reac[i][2])])

RhsT(m, i) ==
    LET s == m.ret[i]
        chem == TSum([j \in 1..Len(m.rxns) |-> TMul(NetT(m.rxns[j], s), RateT(m, m.rxns[j]))])
    IN  IF m.flow THEN TAdd(chem, TMul(TVar(m.fv), TSub(TVar(m.feed[s]), YVar(i)))) ELSE chem

(* environment binding y_i to the initial concentrations *)
InitEnv(m, p) == [k \in DOMAIN p \cup { "y" \o ToString(i) : i \in 1..Len(m.ret) } |->
                    IF k \in DOMAIN p THEN p[k]
                    ELSE p[m.c0[m.ret[CHOOSE i \in 1..Len(m.ret) : k = "y" \o ToString(i)]]]]
InitialValue(f, p) == LET m == Mech(f) IN [i \in 1..Len(m.ret) |-> p[m.c0[m.ret[i]]]]
InitialSlope(f, p) == LET m == Mech(f) IN [i \in 1..Len(m.ret) |-> EvalQR(RhsT(m, i), InitEnv(m, p))]
RhsInst(f, p)      == LET m == Mech(f) IN [i \in 1..Len(m.ret) |-> TInst(RhsT(m, i), p)]
InitTime(f, p)     == IF Mech(f).tinit = "" THEN QZero ELSE p[Mech(f).tinit]

------------------------------------------------------------------------------
Init == fn = "" /\ backend = "" /\ par = <<>> /\ dt = QZero /\ stage = "fn"

ChooseFn(f) ==
    /\ stage = "fn" /\ f \in AllFns
    /\ fn' = f /\ stage' = "backend" /\ UNCHANGED <<backend, par, dt>>

ChooseBackend(b) ==
    /\ stage = "backend" /\ b \in Advertised(fn)
    /\ backend' = b /\ stage' = "par" /\ UNCHANGED <<fn, par, dt>>

NextArg == Sig(fn)[Cardinality(DOMAIN par) + 1]
ChooseParam(v) ==
    /\ stage = "par" /\ Cardinality(DOMAIN par) < Len(Sig(fn))
    /\ LET p2 == par @@ (NextArg :> v) IN Admissible(fn, p2) /\ par' = p2
    /\ stage' = IF Cardinality(DOMAIN par) + 1 = Len(Sig(fn)) THEN "time" ELSE "par"
    /\ UNCHANGED <<fn, backend, dt>>

ChooseTime(d) ==
    /\ stage = "time" /\ d[1] >= 0
    /\ dt' = d /\ stage' = "done" /\ UNCHANGED <<fn, backend, par>>

GenFn      == \E f \in Fns : ChooseFn(f)
GenBackend == \E b \in BackendSet \cup {"plain"} : ChooseBackend(b)
GenParam   == stage = "par" /\ \E v \in Grid[NextArg] : ChooseParam(v)
GenTime    == \E d \in Times : ChooseTime(d)
Next == GenFn \/ GenBackend \/ GenParam \/ GenTime
Spec == Init /\ [][Next]_vars

------------------------------------------------------------------------------
(* design-level invariants, checked on every terminal state *)
Done == stage = "done"
M == Mech(fn)

(* the closure reproduces every initial concentration when the returned species is at its     *)
(* initial value (so RHS(initial) is the rate of the documented mechanism at time zero)       *)
ClosureConsistent ==
    Done => \A j \in 1..Len(M.rxns) : \A i \in 1..Len(M.rxns[j].reac) :
                LET s == M.rxns[j].reac[i][1]
                IN  EvalQR(Conc(M, s), InitEnv(M, par)) = RQ(par[M.c0[s]])
(* a reversible pair shares one extent: the backward reaction is the forward one negated *)
ReverseIsNegated ==
    Done /\ Len(M.rxns) = 2 =>
        \A s \in {"A", "B", "P"} :
            LET a == EvalQR(NetT(M.rxns[1], s), par)  b == EvalQR(NetT(M.rxns[2], s), par)
            IN  IsRQ(a) /\ IsRQ(b) /\ QAdd(a.q, b.q) = QZero
(* initial values and slopes are exact rationals: TLC decides them *)
InitialDataRational ==
    Done => \A i \in 1..Len(M.ret) : InitialSlope(fn, par)[i].st \in {"q", "irr"}
(* a batch mechanism at its initial state consumes reactants iff the forward rate wins:       *)
(* for the irreversible forms the product can only grow, the reactant only decay              *)
IrreversibleMonotone ==
    Done /\ ~M.flow /\ Len(M.rxns) = 1 /\ IsRQ(InitialSlope(fn, par)[1]) =>
        LET s0 == InitialSlope(fn, par)[1].q
        IN  IF M.ret[1] = "P" THEN s0[1] >= 0 ELSE s0[1] <= 0
TypeOK == stage \in {"fn", "backend", "par", "time", "done"}

------------------------------------------------------------------------------
(* case export *)
SlopeSign(r) == IF ~IsRQ(r) THEN "unknown" ELSE IF r.q[1] > 0 THEN "rising"
                ELSE IF r.q[1] < 0 THEN "falling" ELSE "steady"
HasInitialProduct ==
    IF "prod" \in DOMAIN par THEN par["prod"][1] > 0
    ELSE IF "p" \in DOMAIN par THEN par["p"][1] > 0 ELSE FALSE
Regime == SlopeSign(InitialSlope(fn, par)[1])
(* a <= b for non-negative rationals without forming cross products (they overflow 32 bits for  *)
(* 55.4 against 1e-9): compare integer parts, then the reciprocals of the fractional parts        *)
RECURSIVE QLeS(_, _)
QLeS(a, b) ==
    LET fa == a[1] \div a[2]  fb == b[1] \div b[2]  ra == a[1] % a[2]  rb == b[1] % b[2] IN
    IF fa # fb THEN fa < fb
    ELSE IF ra = 0 THEN TRUE
    ELSE IF rb = 0 THEN FALSE
    ELSE QLeS(<<b[2], rb>>, <<a[2], ra>>)
(* the size of the problem: the largest initial / feed concentration among the arguments (rate  *)
(* constants and times are not concentrations).  Absolute tolerances are relative to it.         *)
ConcArgs(f) == LET m == Mech(f) IN { m.c0[s] : s \in DOMAIN m.c0 } \cup (IF m.flow THEN { m.feed[s] : s \in DOMAIN m.feed } ELSE {})
Scale == LET S == { par[k] : k \in ConcArgs(fn) \cap DOMAIN par }
         IN  CHOOSE m \in S : \A x \in S : QLeS(x, m)
(* the size of each RETURNED concentration: a batch product can at most reach its initial value *)
(* plus what the limiting (not held) reactant can still form; a batch reactant starts at its     *)
(* maximum; stirred-tank concentrations are bounded by the problem's Scale.  Values are judged    *)
(* relative to this size, so a trace product next to a reactant in huge excess still has to be    *)
(* right to the case's relative tolerance.                                                        *)
QMinSet(S) == CHOOSE m \in S : \A x \in S : QLeS(m, x)
CompScale(i) ==
    LET s == M.ret[i]  r1 == M.rxns[1] IN
    IF M.flow THEN Scale
    ELSE IF \E j \in 1..Len(r1.reac) : r1.reac[j][1] = s THEN par[M.c0[s]]
    ELSE LET lim == { par[M.c0[r1.reac[j][1]]] : j \in { j2 \in 1..Len(r1.reac) : r1.reac[j2][1] \notin M.held } }
         IN  QAdd(par[M.c0[s]], QMinSet(lim))
Class == fn \o (IF HasInitialProduct THEN ":p+" ELSE ":p0") \o ":" \o Regime \o ":" \o backend
          \o (IF dt = QZero THEN ":t0" ELSE "")
(* CALL FORMS.  Different spellings of one call denote the same value: arguments by position or *)
(* by keyword, defaulted arguments (t0 = 0, n = 1) left out, integral values as native ints,      *)
(* an array of times instead of a scalar (numpy family; element-wise the scalar values, and the   *)
(* array itself is not modified), all arguments symbolic and substituted afterwards (sympy).      *)
Defaults(f) == IF f = "dimerization_irrev" THEN [t0 |-> <<0, 1>>]
               ELSE IF f = "binary_irrev_cstr" THEN [n |-> <<1, 1>>] ELSE <<>>
AtDefaults == \A k \in DOMAIN Defaults(fn) : par[k] = Defaults(fn)[k]
CallForms == {"positional", "keyword", "native-ints"}
             \cup (IF DOMAIN Defaults(fn) # {} /\ AtDefaults THEN {"implicit-defaults"} ELSE {})
             \cup (IF backend \in {"default", "numpy:str", "numpy:mod", "plain"}
                   \* arrays for t, or for every positional argument (floats / native dtype), called TWICE on
                   \* the same objects: both calls give the scalar values element-wise, no array is modified
                   THEN {"array-t", "array-args", "array-args-native"} ELSE {})
             \cup (IF backend \in {"sympy:mod", "plain"} THEN {"symbolic-args"} ELSE {})
CaseRec ==
    [ in  |-> [fn |-> fn, backend |-> backend, sig |-> Sig(fn), args |-> par,
               t |-> QAdd(InitTime(fn, par), dt), tinit |-> InitTime(fn, par),
               callforms |-> CallForms, defaulted |-> DOMAIN Defaults(fn),
               tarray |-> <<QAdd(InitTime(fn, par), dt), InitTime(fn, par)>>],
      cls |-> Class,
      exp |-> [ ret |-> M.ret, regime |-> Regime, product0 |-> HasInitialProduct,
                init |-> InitialValue(fn, par),
                slope0 |-> [i \in 1..Len(M.ret) |-> ResultView(InitialSlope(fn, par)[i])],
                rhs |-> RhsInst(fn, par),
                \* tolerances are part of the case: residual relative to the size of the two
                \* sides (40-digit arithmetic), initial value likewise; float backends against the
                \* 40-digit value
                rtol_residual |-> "1e-25", rtol_init |-> "1e-25", rtol_backend |-> "1e-9", scale |-> Scale,
                comp_scale |-> [i \in 1..Len(M.ret) |-> CompScale(i)],
                raises |-> FALSE ] ]
Emit == Done => PrintT(<<"CASE", ToJson(CaseRec)>>)
=============================================================================
