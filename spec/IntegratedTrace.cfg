INIT TraceInit
NEXT TNext
CONSTANTS
  Fns = {}
  BackendSet = {}
  Grid <- AnyGrid
  Times = {}
INVARIANT Verdict
INVARIANT ClosureConsistent
CHECK_DEADLOCK FALSE
