---------------------------- MODULE IntegratedTrace ----------------------------
(* Trace validation for Integrated (C17): the real function was called (sympy backend) on     *)
(* seeded rational arguments outside the exhaustive grid; the trace is the choice events of   *)
(* Integrated followed by the observed f(t_init) and f'(t_init) as exact rationals.  TLC      *)
(* replays the choices through the actions of Integrated and judges the observation against   *)
(* InitialValue / RHS(initial) computed by the specification (exact rational comparison).     *)
EXTENDS Integrated, IOUtils

Traces == JsonDeserialize(IOEnv.TRACE_FILE)

VARIABLES tid, pos, verdict
tvars == <<vars, tid, pos, verdict>>

Ev == Traces[tid][pos]

TraceInit == Init /\ tid \in 1..Len(Traces) /\ pos = 1 /\ verdict = "none"

Step(e) ==
    CASE e.k = "fn"      -> ChooseFn(e.fn)
      [] e.k = "backend" -> ChooseBackend(e.b)
      [] e.k = "par"     -> stage = "par" /\ NextArg = e.name /\ e.v[2] > 0 /\ ChooseParam(<<e.v[1], e.v[2]>>)
      [] e.k = "time"    -> ChooseTime(<<e.d[1], e.d[2]>>)
      [] OTHER           -> FALSE

Encodable(e) == \A i \in 1..Len(e.f0) : e.f0[i][2] > 0 /\ e.d0[i][2] > 0
InitOK(e)  == \A i \in 1..Len(M.ret) : Norm(e.f0[i]) = Norm(InitialValue(fn, par)[i])
SlopeOK(e) == \A i \in 1..Len(M.ret) :
                 LET s == InitialSlope(fn, par)[i] IN IsRQ(s) => Norm(e.d0[i]) = s.q
ResultOK(e) ==
    /\ stage = "done"
    /\ Len(e.f0) = Len(M.ret) /\ Len(e.d0) = Len(M.ret)
    /\ Encodable(e)
    /\ InitOK(e)
    /\ SlopeOK(e)

TStep ==
    /\ verdict = "none" /\ pos <= Len(Traces[tid])
    /\ IF Ev.k = "result"
       THEN ResultOK(Ev) /\ verdict' = "accept" /\ UNCHANGED vars
       ELSE Step(Ev) /\ verdict' = "none"
    /\ pos' = pos + 1 /\ UNCHANGED tid

TReject ==
    /\ verdict = "none" /\ ~ENABLED TStep
    /\ verdict' = "reject" /\ UNCHANGED <<vars, tid, pos>>

TNext == TStep \/ TReject

Clause ==
    IF pos > Len(Traces[tid]) THEN "no-result-event"
    ELSE LET e == Ev IN
      IF e.k # "result" THEN "step:" \o e.k
      ELSE IF stage # "done" THEN "step:notdone"
      ELSE IF Len(e.f0) # Len(M.ret) \/ Len(e.d0) # Len(M.ret) THEN "arity"
      ELSE IF ~Encodable(e) THEN "unencodable"
      ELSE IF ~InitOK(e) THEN "init"
      ELSE "slope0"

AnyGrid == [a \in {"kf", "kb", "k", "prod", "major", "minor", "initial_C", "t0", "r", "p", "fr", "fp", "fv", "n"} |-> {}]
Verdict == verdict # "none" =>
    PrintT(<<"VERDICT", tid, verdict, pos, IF verdict = "accept" THEN "" ELSE Clause>>)
=============================================================================
