---------------------------- MODULE Integrated_MC ----------------------------
(* Grids for the exhaustive configurations of Integrated (C17).  All values are positive      *)
(* rationals; the initial product (prod / p) includes 0 and non-zero values; major/minor      *)
(* include both orders (and, for the reversible forms, equality).                             *)
EXTENDS Integrated

H == <<1, 2>>
GridQ == [ kf |-> {<<1, 2>>, <<3, 1>>}, kb |-> {<<1, 3>>, <<2, 1>>}, k |-> {<<1, 2>>, <<2, 1>>},
           prod |-> {<<0, 1>>, <<1, 2>>}, major |-> {<<7, 2>>, <<1, 1>>}, minor |-> {<<1, 1>>, <<5, 4>>},
           initial_C |-> {<<1, 2>>, <<3, 1>>}, t0 |-> {<<0, 1>>, <<1, 2>>},
           r |-> {<<1, 10>>, <<3, 1>>}, p |-> {<<0, 1>>, <<1, 2>>}, fr |-> {<<1, 1>>, <<5, 2>>},
           fp |-> {<<1, 4>>}, fv |-> {<<1, 2>>, <<2, 1>>}, n |-> {<<1, 1>>, <<2, 1>>} ]
GridT == [ kf |-> {<<1, 2>>, <<3, 1>>, <<1, 10>>}, kb |-> {<<1, 3>>, <<2, 1>>, <<7, 1>>},
           k |-> {<<1, 2>>, <<2, 1>>, <<1, 10>>},
           prod |-> {<<0, 1>>, <<1, 2>>, <<3, 1>>}, major |-> {<<7, 2>>, <<1, 1>>, <<11, 1>>},
           minor |-> {<<1, 1>>, <<5, 4>>, <<1, 8>>},
           initial_C |-> {<<1, 2>>, <<3, 1>>, <<1, 100>>}, t0 |-> {<<0, 1>>, <<1, 2>>},
           r |-> {<<1, 10>>, <<3, 1>>, <<1, 1>>}, p |-> {<<0, 1>>, <<1, 2>>},
           fr |-> {<<1, 1>>, <<5, 2>>, <<1, 5>>}, fp |-> {<<2, 1>>},
           fv |-> {<<1, 2>>, <<2, 1>>, <<1, 10>>}, n |-> {<<1, 1>>, <<2, 1>>} ]
(* stiff / late slice: diffusion-limited rate constants, millimolar concentrations, times from *)
(* half a millisecond to a thousand seconds - every exponential of the closed forms has long     *)
(* saturated (k*c*t from 1e2 to 1e9); major is the more abundant reactant as documented          *)
GridS == [ kf |-> {<<1000000000, 1>>}, kb |-> {<<1000, 1>>}, k |-> {<<2, 1>>, <<1000000, 1>>},
           prod |-> {<<0, 1>>, <<1, 2000>>}, major |-> {<<1, 500>>}, minor |-> {<<1, 10000>>},
           initial_C |-> {<<1, 1000>>}, t0 |-> {<<0, 1>>},
           r |-> {<<1, 10000>>, <<1, 500>>}, p |-> {<<1, 2000>>}, fr |-> {<<1, 1000>>},
           fp |-> {<<1, 2000>>}, fv |-> {<<2, 1>>}, n |-> {<<1, 1>>, <<2, 1>>} ]
TimesS == {<<1, 2000>>, <<1, 1>>, <<1000, 1>>}
(* excess slice: one reactant in huge excess over the other (solvent against a nanomolar solute, *)
(* pseudo-first-order conditions), ratios 5e10 and 2e12                                          *)
GridX == [ kf |-> {<<1, 100>>}, kb |-> {<<1, 10>>}, k |-> {<<1, 1>>},
           prod |-> {<<0, 1>>, <<1, 1000000000>>}, major |-> {<<554, 10>>, <<2000, 1>>}, minor |-> {<<1, 1000000000>>},
           initial_C |-> {<<1, 1000000000>>}, t0 |-> {<<0, 1>>},
           r |-> {<<1, 1000000000>>}, p |-> {<<0, 1>>}, fr |-> {<<554, 10>>}, fp |-> {<<1, 1000000000>>},
           fv |-> {<<1, 10>>}, n |-> {<<1, 1>>} ]
TimesX == {<<1, 2>>, <<3, 1>>}
(* zero slice: every argument for which exactly 0 is legal is 0 somewhere (kb, prod, r, fr, fp; t = t_init *)
(* is in every slice); p stays positive so that the problem keeps a size                                  *)
GridZ == [ kf |-> {<<1, 2>>}, kb |-> {<<0, 1>>}, k |-> {<<1, 2>>},
           prod |-> {<<0, 1>>}, major |-> {<<2, 1>>}, minor |-> {<<1, 1>>},
           initial_C |-> {<<1, 2>>}, t0 |-> {<<0, 1>>},
           r |-> {<<0, 1>>, <<1, 1>>}, p |-> {<<1, 2>>}, fr |-> {<<0, 1>>, <<1, 1>>}, fp |-> {<<0, 1>>},
           fv |-> {<<1, 2>>}, n |-> {<<1, 1>>, <<2, 1>>} ]
TimesZ == {<<0, 1>>, <<3, 2>>}
TimesQ == {<<0, 1>>, <<1, 3>>, <<2, 1>>}
TimesT == {<<0, 1>>, <<1, 3>>, <<2, 1>>, <<5, 1>>}
B_All == AllBackends
F_All == AllFns
F_Batch == {"dimerization_irrev", "pseudo_irrev", "pseudo_rev", "binary_irrev", "binary_rev"}
F_Cstr == {"unary_irrev_cstr", "binary_irrev_cstr"}
=============================================================================
