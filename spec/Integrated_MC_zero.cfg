INIT Init
NEXT Next
CONSTANTS
  Fns <- F_All
  BackendSet <- B_All
  Grid <- GridZ
  Times <- TimesZ
INVARIANT TypeOK
INVARIANT ClosureConsistent
INVARIANT ReverseIsNegated
INVARIANT InitialDataRational
INVARIANT IrreversibleMonotone
INVARIANT Emit
CHECK_DEADLOCK FALSE
