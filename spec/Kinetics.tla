---------------------------- MODULE Kinetics ----------------------------
(* Mass-action kinetics of a reaction system (property C03; extended by OdeBuild for C04 and  *)
(* by Conservation for C05/C06).                                                              *)
(*                                                                                            *)
(* A reaction is a record [reac, prod, ireac, iprod, k, kv]: four coefficient maps            *)
(* (species -> Nat, sparse: an absent species has coefficient 0) for the active reactants,    *)
(* active products, inactive reactants and inactive products, the index k of its rate         *)
(* constant (its position in the system when it was added) and the value kv of the constant   *)
(* (an exact rational <<n, d>>).  A system is a SEQUENCE of reactions.                        *)
(*                                                                                            *)
(* The statement of C03 is written twice, independently:                                      *)
(*   - as numbers: Contribution(r, c) = Net(r) * kv * prod_s c[s]^reac[s], and Rates is the   *)
(*     fold of the contributions over the sequence (plus the feed term F*(cf - c) under       *)
(*     stirred-tank conditions);                                                              *)
(*   - as a polynomial identity: RatePoly(sys, s) is the normal form (a set of monomials      *)
(*     <<coef, p, e>> with pairwise distinct <<p, e>> and non-zero coef) of                   *)
(*     sum_r Net(r)[s] * k_r * prod c^reac_r, where p is the index of a FREE rate constant    *)
(*     (0 = none, the constant is part of coef) and e the sparse exponent vector over         *)
(*     variable names (species, and the feed variables "feedratio", "fc_<s>").                *)
(* The invariants relate the two (PolyAgreesWithFold) and state the clauses of the property   *)
(* on the model: permutation invariance, inactive reactants never in an exponent vector,      *)
(* untouched species get the empty polynomial, the feed term is exactly F*(cf - c).           *)
(*                                                                                            *)
(* All values are exact rationals (Rational.tla).  The model-checking configurations use      *)
(* pairwise distinct primes for concentrations, rate constants and feed values, so that a     *)
(* wrong sign, exponent or coefficient changes the unique factorisation of a result; all      *)
(* numbers stay far below 2^31 (documented at Kinetics_MC).                                   *)
EXTENDS Integers, Sequences, FiniteSets, FiniteSetsExt, SequencesExt, TLC, Json, Rational

CONSTANTS
    Species,    \* set of species names (strings)
    Catalog,    \* set of reaction shapes [reac, prod, ireac, iprod] the generator draws from
    MaxR,       \* maximal number of reactions in a generated system
    KVals,      \* sequence of rationals: the i-th reaction added by the generator gets KVals[i]
    Orders,     \* set of candidate substance orders (sequences of species, no repetition)
    FullOrder,  \* TRUE: the substance list is the whole order; FALSE: restricted to touched species
    Points,     \* set of concentration states [Species -> rational]
    Feeds,      \* set of stirred-tank conditions [F |-> rational, cf |-> [Species -> rational],
                \*   kind |-> "all" | "map" | "rev" | "sub"] (which substances get a feed term and in
                \*   which order the caller's substance -> feed-key mapping lists them, see FeedOrderOf)
    PhaseMaps,  \* set of maps Species -> Nat: phase index of the object standing for each substance
    ReKVals,    \* rate-constant values used when a constant is re-assigned after an evaluation
    MaxHist,    \* maximal number of re-assignments
    \* how the calls are made (the expected results do not depend on any of these):
    NameMap,    \* Species -> the actual substance key handed to the code ("A" -> "H+", ...)
    PForms,     \* forms in which a reaction carries its constant: "plain" number, "ma" MassAction([k]),
                \*   "str" the key 'k<i>' looked up in the variables
    Containers, \* containers for the array form: "list", "tuple", "ndarray"
    SForms,     \* forms of the constructor's `substances` argument: "list", "str", "odict", "alias" (keys
                \*   differ from Substance.name), and - when the order is the sorted one - "set", "none",
                \*   "sortlist" (the constructor sorts)
    KeySortSeq,    \* the species in the lexicographic order of their ACTUAL keys (NameMap)
    OvKVals     \* sequence of constants used when per-reaction rate expressions are passed explicitly

VARIABLES
    rsys,       \* the system: sequence of reactions
    subst,      \* substance order of the system (sequence of species names)
    c,          \* concentration state: species -> rational (<<>> before SetState)
    feed,       \* NoFeed or [on |-> TRUE, F |-> q, cf |-> map, order |-> seq, usermap |-> BOOLEAN]
    sphase,     \* phase index of each substance (0 = plain substance); irrelevant to every rate
    hist,       \* history of re-assignments <<i, old kv, new kv>> made after the state was evaluated
    phase       \* "build" -> "ready" (terminal for Kinetics; OdeBuild adds "built")

kvars == <<rsys, subst, c, feed, sphase, hist, phase>>

------------------------------------------------------------------------------
(* sparse coefficient maps *)
Co(f, s) == IF s \in DOMAIN f THEN f[s] ELSE 0
Support(f) == { s \in DOMAIN f : f[s] # 0 }
Sparse(f) == [s \in Support(f) |-> f[s]]
EmptyMap == <<>>
IsCoefMap(f) == DOMAIN f \subseteq Species /\ \A s \in DOMAIN f : f[s] \in Nat

SumOver(S, f(_)) == FoldSet(LAMBDA x, acc : f(x) + acc, 0, S)
QSumOver(S, f(_)) == FoldSet(LAMBDA x, acc : QAdd(f(x), acc), QZero, S)
QProdOver(S, f(_)) == FoldSet(LAMBDA x, acc : QMul(f(x), acc), QOne, S)

------------------------------------------------------------------------------
(* reactions *)
(* Fractional (power-law) orders.  A reaction may carry `half`: for a species s in it, half a unit *)
(* of s is moved from the ACTIVE to the INACTIVE reactant part: the active coefficient (the       *)
(* exponent) is reac[s] - 1/2, the inactive one ireac[s] + 1/2, so every net coefficient stays an *)
(* integer.  sqrt(c) is kept exact by evaluating such systems at perfect-square concentrations;   *)
(* in polynomials the variable "sqrt_<s>" stands for c_s^(1/2).                                   *)
Hf(r, s) == IF s \in DOMAIN r.half THEN r.half[s] ELSE 0
SqrtVar(s) == "sqrt_" \o s
SqrtVars == { SqrtVar(s) : s \in Species }
ActiveQ(r, s) == Norm(<<2 * Co(r.reac, s) - Hf(r, s), 2>>)          \* active reactant coefficient
InactiveQ(r, s) == Norm(<<2 * Co(r.ireac, s) + Hf(r, s), 2>>)       \* inactive reactant coefficient
OrderQ(r) == QSumOver(Species, LAMBDA s : ActiveQ(r, s))
RootCands == { <<n, d>> : n \in 0..50, d \in 1..7 }
IsSquare(q) == \E r \in RootCands : QMul(r, r) = Norm(q)
QSqrt(q) == Norm(CHOOSE r \in RootCands : QMul(r, r) = Norm(q))
\* exponent vector of the concentration product
ExpVec(r) == Sparse([s \in DOMAIN r.reac |-> r.reac[s] - Hf(r, s)])
             @@ [v \in { SqrtVar(s) : s \in Support(r.half) } |-> 1]
Net(r) == [s \in Species |-> Co(r.prod, s) + Co(r.iprod, s) - Co(r.reac, s) - Co(r.ireac, s)]
Order(r) == SumOver(Species, LAMBDA s : Co(r.reac, s))
Keys(r) == Support(r.reac) \cup Support(r.prod) \cup Support(r.ireac) \cup Support(r.iprod)
IsShape(r) ==
    /\ IsCoefMap(r.reac) /\ IsCoefMap(r.prod) /\ IsCoefMap(r.ireac) /\ IsCoefMap(r.iprod)
    /\ Support(r.half) \subseteq Support(r.reac) /\ \A s \in DOMAIN r.half : r.half[s] \in {0, 1}
    /\ \E s \in Species : Net(r)[s] # 0     \* a reaction must change something
Touched(sys) == UNION { Keys(sys[i]) : i \in DOMAIN sys }
Untouched(sys) == Species \ Touched(sys)

(* the law, as numbers.  cc : species -> rational *)
ConcProd(r, cc) == QMul(QProdOver(Support(r.reac), LAMBDA s : QPow(cc[s], r.reac[s] - Hf(r, s))),
                        QProdOver(Support(r.half), LAMBDA s : QSqrt(cc[s])))
RateOf(r, cc) == QMul(r.kv, ConcProd(r, cc))
Contribution(r, cc) == [s \in Species |-> QMul(Q(Net(r)[s]), RateOf(r, cc))]
Rates(sys, cc) ==
    [s \in Species |-> QSumSeq([i \in 1..Len(sys) |-> Contribution(sys[i], cc)[s]])]
FeedTerm(fd, cc, s) == QMul(fd.F, QSub(fd.cf[s], cc[s]))
SeqSet(sq) == { sq[i] : i \in DOMAIN sq }
\* a substance gets a feed term iff the caller's mapping lists it (all substances by default)
Fed(fd, s) == fd.on /\ s \in SeqSet(fd.order)
\* sorting the substances (what the constructor does for unordered input, and sort_substances_inplace)
SortedOrder(o) == SelectSeq(KeySortSeq, LAMBDA s : s \in SeqSet(o))
IsKeySorted(o) == o = SortedOrder(o)
RatesCSTR(sys, cc, fd) ==
    [s \in Species |-> IF s \in SeqSet(fd.order) THEN QAdd(Rates(sys, cc)[s], FeedTerm(fd, cc, s))
                       ELSE Rates(sys, cc)[s]]
NoFeed == [on |-> FALSE, order |-> <<>>, usermap |-> FALSE]
RatesFed(sys, cc, fd) == IF fd.on THEN RatesCSTR(sys, cc, fd) ELSE Rates(sys, cc)

(* stoichiometric matrices, rows = reactions (N = net) *)
N(sys) == [i \in 1..Len(sys) |-> Net(sys[i])]
ActiveReacM(sys) == [i \in 1..Len(sys) |-> [s \in Species |-> ActiveQ(sys[i], s)]]   \* rationals
AllReacM(sys) == [i \in 1..Len(sys) |-> [s \in Species |-> Co(sys[i].reac, s) + Co(sys[i].ireac, s)]]
ActiveProdM(sys) == [i \in 1..Len(sys) |-> [s \in Species |-> Co(sys[i].prod, s)]]
AllProdM(sys) == [i \in 1..Len(sys) |-> [s \in Species |-> Co(sys[i].prod, s) + Co(sys[i].iprod, s)]]
\* coefficient matrix of the ACTIVE parts only, rows = substances (util.stoich.get_coeff_mtx)
CoeffMtx(sys) == [s \in Species |-> [i \in 1..Len(sys) |-> QSub(Q(Co(sys[i].prod, s)), ActiveQ(sys[i], s))]]
\* explicitly passed per-reaction rate expressions replace the constants: "all" reactions, or the
\* odd-numbered ones only ("mixed": the others keep their own constant)
OverrideSys(sys, pattern) ==
    [i \in 1..Len(sys) |-> [sys[i] EXCEPT !.kv = IF pattern = "all" \/ i % 2 = 1 THEN OvKVals[i] ELSE @]]

------------------------------------------------------------------------------
(* polynomials: sets of monomials <<coef, p, e>> *)
FeedVar == "feedratio"
FcVar(s) == "fc_" \o s
EMul(e1, e2) == Sparse([v \in DOMAIN e1 \cup DOMAIN e2 |-> Co(e1, v) + Co(e2, v)])
EOne(v) == [x \in {v} |-> 1]
MonoKey(m) == <<m[2], m[3]>>
CoefAt(ms, key) ==
    QSumOver({ i \in DOMAIN ms : MonoKey(ms[i]) = key }, LAMBDA i : ms[i][1])
\* normal form of a sequence of raw terms
PolyNorm(ms) ==
    LET keys == { MonoKey(ms[i]) : i \in DOMAIN ms }
    IN  { <<CoefAt(ms, key), key[1], key[2]>> : key \in { x \in keys : CoefAt(ms, x)[1] # 0 } }
IsPoly(P) == /\ \A m \in P : m[1][1] # 0 /\ m[1][2] > 0
             /\ \A m1, m2 \in P : MonoKey(m1) = MonoKey(m2) => m1 = m2
PolyAdd(P1, P2) == PolyNorm(SetToSeq(P1) \o SetToSeq(P2))

RawTerms(sys, s) ==
    [i \in 1..Len(sys) |-> <<Q(Net(sys[i])[s]), sys[i].k, ExpVec(sys[i])>>]
\* per-substance rate polynomial, rate constants free (p = index of the constant)
RatePoly(sys, s) == PolyNorm(RawTerms(sys, s))
KvOf(sys, p) == sys[CHOOSE i \in DOMAIN sys : sys[i].k = p].kv
\* the same with every rate constant replaced by its value
InlineTerms(sys, s) ==
    [i \in 1..Len(sys) |-> <<QMul(Q(Net(sys[i])[s]), sys[i].kv), 0, ExpVec(sys[i])>>]
RatePolyInlined(sys, s) == PolyNorm(InlineTerms(sys, s))
\* feed term F*(cf_s - c_s) as a polynomial in the variables feedratio, fc_<s>, <s>
FeedPoly(s) == { <<QOne, 0, EMul(EOne(FeedVar), EOne(FcVar(s)))>>,
                 <<Q(-1), 0, EMul(EOne(FeedVar), EOne(s))>> }
RatePolyFed(sys, s, on) == IF on THEN PolyAdd(RatePoly(sys, s), FeedPoly(s)) ELSE RatePoly(sys, s)
RatePolyInlinedFed(sys, s, on) ==
    IF on THEN PolyAdd(RatePolyInlined(sys, s), FeedPoly(s)) ELSE RatePolyInlined(sys, s)

\* value of a polynomial: venv : variable name -> rational, kenv : constant index -> rational
MonoValue(m, venv, kenv) ==
    QMul(QMul(m[1], IF m[2] = 0 THEN QOne ELSE kenv[m[2]]),
         QProdOver(DOMAIN m[3], LAMBDA v : QPow(venv[v], m[3][v])))
EvalPoly(P, venv, kenv) == QSumOver(P, LAMBDA m : MonoValue(m, venv, kenv))
KEnv(sys) == [p \in { sys[i].k : i \in DOMAIN sys } |-> KvOf(sys, p)]
FeedEnv(fd) == IF fd.on
               THEN [v \in {FeedVar} \cup { FcVar(s) : s \in Species } |->
                        IF v = FeedVar THEN fd.F ELSE fd.cf[CHOOSE s \in Species : FcVar(s) = v]]
               ELSE EmptyMap
SqrtEnv(cc) == [v \in { SqrtVar(s) : s \in { x \in Species : IsSquare(cc[x]) } } |->
                   QSqrt(cc[CHOOSE s \in Species : SqrtVar(s) = v])]
NeedsRoots(sys) == \E i \in DOMAIN sys : Support(sys[i].half) # {}
VEnv(cc, fd) == cc @@ (IF NeedsRoots(rsys) THEN SqrtEnv(cc) ELSE EmptyMap) @@ FeedEnv(fd)

------------------------------------------------------------------------------
(* state machine *)
Init == /\ rsys = <<>> /\ subst = <<>> /\ c = EmptyMap /\ feed = NoFeed /\ phase = "build"
        /\ sphase = EmptyMap /\ hist = <<>>

MkReaction(shape, idx, kv) ==
    [reac |-> Sparse(shape.reac), prod |-> Sparse(shape.prod), ireac |-> Sparse(shape.ireac),
     iprod |-> Sparse(shape.iprod), half |-> Sparse(shape.half), k |-> idx, kv |-> kv]

AddReaction(shape, kv) ==
    /\ phase = "build" /\ IsShape(shape) /\ IsQ(kv)
    /\ rsys' = Append(rsys, MkReaction(shape, Len(rsys) + 1, kv))
    /\ UNCHANGED <<subst, c, feed, sphase, hist, phase>>

IsOrder(o) == /\ \A i, j \in DOMAIN o : i # j => o[i] # o[j]
              /\ { o[i] : i \in DOMAIN o } \subseteq Species
OrderFor(o, sys) == IF FullOrder THEN o ELSE SelectSeq(o, LAMBDA s : s \in Touched(sys))

(* fix the substance order, the concentration state and the phase of each substance object *)
SetState(o, cc, ph) ==
    /\ phase = "build" /\ IsOrder(o) /\ o # <<>>      \* (a system may have no reaction at all)
    /\ Touched(rsys) \subseteq { o[i] : i \in DOMAIN o }
    /\ DOMAIN cc = Species /\ \A s \in Species : IsQ(cc[s])
    /\ DOMAIN ph = Species /\ \A s \in Species : ph[s] \in Nat
    \* half-integer orders are evaluated at perfect squares (exact square roots)
    /\ \A i \in DOMAIN rsys : \A s \in Support(rsys[i].half) : IsSquare(cc[s])
    /\ subst' = o /\ c' = cc /\ sphase' = ph /\ phase' = "ready"
    /\ UNCHANGED <<rsys, feed, hist>>

(* stirred-tank conditions: feed-rate/volume ratio F, feed concentrations cf; `order` lists the *)
(* substances of the caller's substance -> feed-key mapping in ITS order (any sub-permutation *)
(* of the substance list); usermap = FALSE is the builder's own mapping (all, system order)   *)
Feed(F, cf, order, usermap) ==
    /\ phase = "ready" /\ ~feed.on /\ IsQ(F)
    /\ DOMAIN cf = Species /\ \A s \in Species : IsQ(cf[s])
    /\ IsOrder(order) /\ order # <<>> /\ SeqSet(order) \subseteq SeqSet(subst)
    /\ usermap \in BOOLEAN /\ (~usermap => order = subst)
    /\ hist = <<>>
    /\ feed' = [on |-> TRUE, F |-> F, cf |-> cf, order |-> order, usermap |-> usermap]
    /\ UNCHANGED <<rsys, subst, c, sphase, hist, phase>>

(* the rate constant of reaction i is re-assigned AFTER the state has been evaluated; what is *)
(* reported afterwards is governed by the current constant only                               *)
Reassign(i, kv) ==
    /\ phase = "ready" /\ i \in DOMAIN rsys /\ IsQ(kv) /\ kv # rsys[i].kv
    /\ rsys' = [rsys EXCEPT ![i].kv = kv]
    /\ hist' = Append(hist, <<i, rsys[i].kv, kv>>)
    /\ UNCHANGED <<subst, c, feed, sphase, phase>>

(* the substances are sorted in place after the state has been evaluated: only the ORDER of the  *)
(* system changes (array-form results follow it), nothing else                                 *)
SortSubstances ==
    /\ phase = "ready" /\ ~IsKeySorted(subst)
    /\ subst' = SortedOrder(subst)
    /\ hist' = Append(hist, <<0, subst, SortedOrder(subst)>>)
    /\ UNCHANGED <<rsys, c, feed, sphase, phase>>

RevSeq(sq) == [i \in 1..Len(sq) |-> sq[Len(sq) + 1 - i]]
FeedOrderOf(kind) ==
    CASE kind = "all" -> <<subst, FALSE>>
      [] kind = "map" -> <<subst, TRUE>>
      [] kind = "rev" -> <<RevSeq(subst), TRUE>>
      [] kind = "sub" -> <<IF Len(subst) > 1 THEN RevSeq(Tail(subst)) ELSE subst, TRUE>>

GenAdd == \E shape \in Catalog : Len(rsys) < MaxR /\ AddReaction(shape, KVals[Len(rsys) + 1])
GenState == \E o \in Orders, cc \in Points, ph \in PhaseMaps : SetState(OrderFor(o, rsys), cc, ph)
GenFeed == \E fd \in Feeds : Feed(fd.F, fd.cf, FeedOrderOf(fd.kind)[1], FeedOrderOf(fd.kind)[2])
\* the generator keeps the constants pairwise distinct (prime point, PointSeparates)
GenReassign == \E i \in DOMAIN rsys, kv \in ReKVals :
                  /\ Len(hist) < MaxHist /\ \A j \in DOMAIN rsys : rsys[j].kv # kv
                  /\ Reassign(i, kv)

GenSort == Len(hist) < MaxHist /\ SortSubstances

Next == GenAdd \/ GenState \/ GenFeed \/ GenReassign \/ GenSort
Spec == Init /\ [][Next]_kvars

Done == phase = "ready"

------------------------------------------------------------------------------
(* design-level invariants: the clauses of C03 on the model *)
Perms(n) == { p \in [1..n -> 1..n] : \A i, j \in 1..n : i # j => p[i] # p[j] }
Permuted(sys, p) == [i \in 1..Len(sys) |-> sys[p[i]]]

\* the polynomial and the fold over contributions denote the same number at the state
PolyAgreesWithFold == Done =>
    \A s \in Species :
        /\ EvalPoly(RatePolyFed(rsys, s, Fed(feed, s)), VEnv(c, feed), KEnv(rsys)) = RatesFed(rsys, c, feed)[s]
        /\ EvalPoly(RatePolyInlinedFed(rsys, s, Fed(feed, s)), VEnv(c, feed), EmptyMap) = RatesFed(rsys, c, feed)[s]

\* independent of the order of the reactions in the list
PermutationInvariant == Done =>
    \A p \in Perms(Len(rsys)) :
        /\ Rates(Permuted(rsys, p), c) = Rates(rsys, c)
        /\ \A s \in Species : RatePoly(Permuted(rsys, p), s) = RatePoly(rsys, s)

\* an exponent vector is exactly the ACTIVE reactant map of the reaction owning the constant;
\* a species that is nowhere an active reactant never occurs in an exponent vector
InactiveNotInExponent == Done =>
    \A s \in Species : \A m \in RatePoly(rsys, s) :
        /\ \E i \in DOMAIN rsys : rsys[i].k = m[2] /\ m[3] = ExpVec(rsys[i])
        /\ \A v \in DOMAIN m[3] : \E i \in DOMAIN rsys : v \in DOMAIN ExpVec(rsys[i])
        /\ \A v \in DOMAIN m[3] \cap Species : \E i \in DOMAIN rsys : Co(rsys[i].reac, v) > 0

\* substances on neither side of any reaction get zero
UntouchedGetNothing == Done =>
    \A s \in Untouched(rsys) : RatePoly(rsys, s) = {} /\ Rates(rsys, c)[s] = QZero

\* stirred tank adds exactly F*(cf - c) to every substance the mapping lists, nothing to the others;
\* the order in which the mapping lists them is irrelevant
FeedExact == (Done /\ feed.on) =>
    \A s \in Species :
        IF s \in SeqSet(feed.order)
        THEN /\ QSub(RatesCSTR(rsys, c, feed)[s], Rates(rsys, c)[s]) = QMul(feed.F, QSub(feed.cf[s], c[s]))
             /\ RatePolyFed(rsys, s, TRUE) = PolyAdd(RatePoly(rsys, s), FeedPoly(s))
             /\ RatesCSTR(rsys, c, [feed EXCEPT !.order = RevSeq(@)])[s] = RatesCSTR(rsys, c, feed)[s]
        ELSE RatesCSTR(rsys, c, feed)[s] = Rates(rsys, c)[s]

\* after re-assignments the constant in force is the last one assigned (and only constants changed)
CurrentConstantRules == Done =>
    /\ \A j \in { x \in DOMAIN hist : hist[x][1] > 0 } :
          (\A l \in DOMAIN hist : l > j => hist[l][1] # hist[j][1]) => rsys[hist[j][1]].kv = hist[j][3]
    /\ \A j \in { x \in DOMAIN hist : hist[x][1] > 0 } : hist[j][1] \in DOMAIN rsys /\ hist[j][2] # hist[j][3]
    \* a sort entry records a permutation of the same substances
    /\ \A j \in { x \in DOMAIN hist : hist[x][1] = 0 } : SeqSet(hist[j][2]) = SeqSet(hist[j][3]) /\ IsKeySorted(hist[j][3])

\* a catalyst (same active coefficient on both sides, nothing inactive) has net 0 but still
\* shows in the exponent vectors of the other substances
NetCountsInactive == Done =>
    \A i \in DOMAIN rsys : \A s \in Species :
        Net(rsys[i])[s] = (Co(rsys[i].prod, s) - Co(rsys[i].reac, s))
                          + (Co(rsys[i].iprod, s) - Co(rsys[i].ireac, s))

\* the chosen point separates the monomials of every rate polynomial (prime point); the zero
\* value class (a concentration, constant or feed value that is exactly 0) is exempt by nature
NoZeroValue == /\ \A s \in Species : c[s][1] # 0
               /\ \A i \in DOMAIN rsys : rsys[i].kv[1] # 0
               /\ (feed.on => (feed.F[1] # 0 /\ \A s \in Species : feed.cf[s][1] # 0))
PointSeparates == (Done /\ NoZeroValue) =>
    \A s \in Species : \A m1, m2 \in RatePoly(rsys, s) :
        m1 # m2 => QAbs(MonoValue(m1, VEnv(c, feed), KEnv(rsys))) # QAbs(MonoValue(m2, VEnv(c, feed), KEnv(rsys)))

\* the matrices decompose the net matrix; inactive parts count in N but not in the active ones
StoichDecomposes == Done =>
    \A i \in DOMAIN rsys : \A s \in Species :
        /\ N(rsys)[i][s] = AllProdM(rsys)[i][s] - AllReacM(rsys)[i][s]
        /\ QLe(ActiveReacM(rsys)[i][s], Q(AllReacM(rsys)[i][s])) /\ AllProdM(rsys)[i][s] >= ActiveProdM(rsys)[i][s]
        /\ QAdd(ActiveQ(rsys[i], s), InactiveQ(rsys[i], s)) = Q(AllReacM(rsys)[i][s])
        /\ CoeffMtx(rsys)[s][i] = QSub(Q(ActiveProdM(rsys)[i][s]), ActiveReacM(rsys)[i][s])
        /\ OrderQ(rsys[i]) = QSumOver(Species, LAMBDA x : ActiveReacM(rsys)[i][x])
        /\ (Support(rsys[i].half) = {} => OrderQ(rsys[i]) = Q(Order(rsys[i])))

PolysNormal == Done => \A s \in Species : IsPoly(RatePolyFed(rsys, s, Fed(feed, s)))

TypeOK == /\ phase \in {"build", "ready", "built"}
          /\ \A i \in DOMAIN rsys : rsys[i].k = i

------------------------------------------------------------------------------
(* case export (spec -> code) *)
MapSeq(f) == LET ks == SetToSeq(DOMAIN f) IN [i \in 1..Len(ks) |-> <<ks[i], f[ks[i]]>>]
MonoOut(m) == <<m[1], m[2], MapSeq(m[3])>>
PolyOut(P) == LET ms == SetToSeq(P) IN [i \in 1..Len(ms) |-> MonoOut(ms[i])]
RxnOut(r) == [reac |-> MapSeq(r.reac), prod |-> MapSeq(r.prod), ireac |-> MapSeq(r.ireac),
              iprod |-> MapSeq(r.iprod), half |-> MapSeq(r.half), k |-> r.k, kv |-> r.kv]
BySubst(f) == [i \in 1..Len(subst) |-> f[subst[i]]]

HasIReac == \E i \in DOMAIN rsys : Support(rsys[i].ireac) # {}
HasIProd == \E i \in DOMAIN rsys : Support(rsys[i].iprod) # {}
HasZero == \E i \in DOMAIN rsys : Order(rsys[i]) = 0
HasBothSides == \E i \in DOMAIN rsys : \E s \in Species :
                    Co(rsys[i].reac, s) + Co(rsys[i].ireac, s) > 0 /\ Co(rsys[i].prod, s) + Co(rsys[i].iprod, s) > 0
HasShared == \E i, j \in DOMAIN rsys : i < j /\ Keys(rsys[i]) \cap Keys(rsys[j]) # {}
Class == "n" \o ToString(Len(rsys))
         \o (IF HasIReac THEN "-ir" ELSE "") \o (IF HasIProd THEN "-ip" ELSE "")
         \o (IF HasZero THEN "-z" ELSE "") \o (IF HasBothSides THEN "-b" ELSE "")
         \o (IF HasShared THEN "-sh" ELSE "") \o (IF feed.on THEN "-cstr" ELSE "")
         \o (IF feed.usermap THEN "-map" ELSE "") \o (IF hist # <<>> THEN "-h" ELSE "")
         \o (IF \E j \in DOMAIN hist : hist[j][1] = 0 THEN "-sorted" ELSE "")
         \o (IF \E s \in DOMAIN sphase : sphase[s] > 0 THEN "-ph" ELSE "")
         \o (IF Done /\ ~NoZeroValue THEN "-zero" ELSE "")
         \o (IF NeedsRoots(rsys) THEN "-half" ELSE "")
         \o (IF Untouched(rsys) \cap { subst[i] : i \in DOMAIN subst } # {} THEN "-u" ELSE "")

FeedOut == IF feed.on THEN [on |-> TRUE, F |-> feed.F, cf |-> BySubst(feed.cf),
                             order |-> feed.order, usermap |-> feed.usermap]
           ELSE [on |-> FALSE, F |-> QZero, cf |-> <<>>, order |-> <<>>, usermap |-> FALSE]
\* a caller may ask for any sub-permutation of the substances
KeySel(kind) == IF kind = "rev" \/ Len(subst) < 2 THEN RevSeq(subst) ELSE RevSeq(Tail(subst))
ByKeys(f, keys) == [i \in 1..Len(keys) |-> f[keys[i]]]
SelOut(kind) == [ keys |-> KeySel(kind),
                  contrib |-> [i \in 1..Len(rsys) |-> ByKeys(Contribution(rsys[i], c), KeySel(kind))],
                  rates |-> ByKeys(Rates(rsys, c), KeySel(kind)),
                  net |-> [i \in 1..Len(rsys) |-> ByKeys(Net(rsys[i]), KeySel(kind))] ]
OvOut(pattern) == LET sys == OverrideSys(rsys, pattern)
                  IN  [ contrib |-> [i \in 1..Len(sys) |-> BySubst(Contribution(sys[i], c))],
                        fed |-> BySubst(RatesFed(sys, c, feed)) ]
\* a second state: the concentrations in reverse order over the substances
C2 == [s \in Species |-> IF s \in SeqSet(subst)
                          THEN c[subst[Len(subst) + 1 - (CHOOSE j \in DOMAIN subst : subst[j] = s)]] ELSE c[s]]
\* forms of the `substances` argument that lead to this order (sorted forms only if it is the sorted one)
SFormsFor == IF hist # <<>> THEN {"list"} \cap SForms
             ELSE { f \in SForms :
                      \/ f \in {"list", "str", "odict", "alias"}
                      \/ (f \in {"set", "sortlist"} /\ IsKeySorted(subst))
                      \/ (f = "none" /\ IsKeySorted(subst) /\ SeqSet(subst) = Touched(rsys)) }
CaseIn == [ subst |-> subst,
            c2 |-> BySubst(C2),
            sforms |-> SetToSeq(SFormsFor),
            names |-> BySubst(NameMap),
            pforms |-> SetToSeq(PForms),
            containers |-> SetToSeq(Containers),
            ov |-> SubSeq(OvKVals, 1, Len(rsys)),
            rxns |-> [i \in 1..Len(rsys) |-> RxnOut(rsys[i])],
            c |-> BySubst(c),
            sphase |-> BySubst(sphase),
            hist |-> hist,
            feed |-> FeedOut ]
CaseExp == [ net |-> [i \in 1..Len(rsys) |-> BySubst(Net(rsys[i]))],
             areac |-> [i \in 1..Len(rsys) |-> BySubst(ActiveReacM(rsys)[i])],
             allreac |-> [i \in 1..Len(rsys) |-> BySubst(AllReacM(rsys)[i])],
             aprod |-> [i \in 1..Len(rsys) |-> BySubst(ActiveProdM(rsys)[i])],
             allprod |-> [i \in 1..Len(rsys) |-> BySubst(AllProdM(rsys)[i])],
             coeff |-> BySubst(CoeffMtx(rsys)),
             coeffint |-> ~NeedsRoots(rsys),   \* get_coeff_mtx is documented for integer coefficients only
             rkeys |-> [i \in 1..Len(rsys) |-> SetToSeq(Keys(rsys[i]))],
             selrev |-> SelOut("rev"), selsub |-> SelOut("sub"),
             ovall |-> OvOut("all"), ovmixed |-> OvOut("mixed"),
             vec |-> BySubst([s \in Species |-> <<RatesFed(rsys, c, feed)[s], RatesFed(rsys, C2, feed)[s]>>]),
             distinct |-> TRUE,   \* every returned array is an object of its own (no aliasing)
             frame |-> TRUE,   \* evaluating is not an action: the caller's variables are left as they were
             order |-> [i \in 1..Len(rsys) |-> OrderQ(rsys[i])],
             rvals |-> [i \in 1..Len(rsys) |-> RateOf(rsys[i], c)],
             contrib |-> [i \in 1..Len(rsys) |-> BySubst(Contribution(rsys[i], c))],
             rates |-> BySubst(Rates(rsys, c)),
             fed |-> BySubst(RatesFed(rsys, c, feed)),
             poly |-> BySubst([s \in Species |-> PolyOut(RatePolyFed(rsys, s, Fed(feed, s)))]),
             polyin |-> BySubst([s \in Species |-> PolyOut(RatePolyInlinedFed(rsys, s, Fed(feed, s)))]),
             rpoly |-> [i \in 1..Len(rsys) |->
                          BySubst([s \in Species |-> PolyOut(RatePolyInlined(<<rsys[i]>>, s))])] ]
CaseRec == [ in |-> CaseIn, exp |-> CaseExp, cls |-> Class ]
Emit == Done => PrintT(<<"CASE", ToJson(CaseRec)>>)
=============================================================================
