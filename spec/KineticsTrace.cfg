INIT TInit
NEXT TNext
CONSTANTS
  Species = {"A", "B", "C", "D", "E", "G"}
  Catalog <- NoCatalog
  MaxR = 0
  KVals <- NoKVals
  Orders <- NoOrders
  FullOrder = TRUE
  Points <- NoPoints
  Feeds <- NoCatalog
  PhaseMaps <- NoCatalog
  ReKVals <- NoCatalog
  MaxHist = 0
  NameMap <- TrNames
  PForms <- NoCatalog
  Containers <- NoCatalog
  OvKVals <- TrOv
  SForms <- NoCatalog
  KeySortSeq <- TrSort
INVARIANT Verdict
INVARIANT PolyAgreesWithFold
INVARIANT InactiveNotInExponent
INVARIANT UntouchedGetNothing
INVARIANT FeedExact
INVARIANT CurrentConstantRules
CHECK_DEADLOCK FALSE
