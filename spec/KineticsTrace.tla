---------------------------- MODULE KineticsTrace ----------------------------
(* Trace validation for Kinetics (C03): a recorded execution is the construction of a system  *)
(* (AddReaction events), the state (SetState), optional stirred-tank conditions (Feed) and    *)
(* the observed results of the real code (Result).  The events are replayed through the       *)
(* actions of Kinetics and TLC judges every observed number / monomial table against the      *)
(* operators of the specification.  Batch protocol as in FormulaTrace.                        *)
EXTENDS Kinetics, IOUtils

Traces == JsonDeserialize(IOEnv.TRACE_FILE)

VARIABLES tid, pos, verdict
tvars == <<kvars, tid, pos, verdict>>

Ev == Traces[tid][pos]

TInit == Init /\ tid \in 1..Len(Traces) /\ pos = 1 /\ verdict = "none"

Shape(e) == [reac |-> e.reac, prod |-> e.prod, ireac |-> e.ireac, iprod |-> e.iprod, half |-> e.half]

Step(e) ==
    CASE e.ev = "AddReaction" -> AddReaction(Shape(e), e.kv)
      [] e.ev = "SetState"    -> SetState(e.subst, e.c, e.phase)
      [] e.ev = "Feed"        -> Feed(e.F, e.cf, e.order, e.usermap)
      [] e.ev = "Reassign"    -> Reassign(e.i, e.kv)
      [] e.ev = "Sort"        -> SortSubstances
      [] OTHER                -> FALSE

(* observed monomial tables: sequences of <<coef, p, <<<<var, exp>>, ...>>>>; compared as sets *)
ToSetOf(sq) == { sq[i] : i \in DOMAIN sq }
ObsMono(m) == <<m[1], m[2], ToSetOf(m[3])>>
ObsPoly(sq) == { ObsMono(sq[i]) : i \in DOMAIN sq }
SpecMono(m) == <<m[1], m[2], { <<v, m[3][v]>> : v \in DOMAIN m[3] }>>
SpecPoly(P) == { SpecMono(m) : m \in P }
Substs == { subst[i] : i \in DOMAIN subst }

\* every observed field is either absent (<<>>) or must agree; at least one is present
RatesOK(e) == e.rates = <<>> \/ (Len(e.rates) = Len(subst) /\
    \A i \in DOMAIN subst : e.rates[i] = RatesFed(rsys, c, feed)[subst[i]])
DcdtOK(e) == e.dcdt = <<>> \/ (Len(e.dcdt) = Len(subst) /\ \A i \in DOMAIN subst : e.dcdt[i] = Rates(rsys, c)[subst[i]])
RvalsOK(e) == e.rvals = <<>> \/ (Len(e.rvals) = Len(rsys) /\ \A i \in DOMAIN rsys : e.rvals[i] = RateOf(rsys[i], c))
ContribOK(e) == e.contrib = <<>> \/ (Len(e.contrib) = Len(rsys) /\
    \A i \in DOMAIN rsys : \A j \in DOMAIN subst : e.contrib[i][j] = Contribution(rsys[i], c)[subst[j]])
PolyOK(e) == e.poly = <<>> \/ (Len(e.poly) = Len(subst) /\
    \A j \in DOMAIN subst : ObsPoly(e.poly[j]) = SpecPoly(RatePolyInlinedFed(rsys, subst[j], Fed(feed, subst[j]))))
SomeField(e) == e.rates # <<>> \/ e.poly # <<>>

ResultOK(e) ==
    /\ phase = "ready"
    /\ SomeField(e)
    /\ RatesOK(e) /\ DcdtOK(e) /\ RvalsOK(e) /\ ContribOK(e) /\ PolyOK(e)

TStep ==
    /\ verdict = "none" /\ pos <= Len(Traces[tid])
    /\ IF Ev.ev = "Result"
       THEN ResultOK(Ev) /\ verdict' = "accept" /\ UNCHANGED kvars
       ELSE Step(Ev) /\ verdict' = "none"
    /\ pos' = pos + 1 /\ UNCHANGED tid

TReject ==
    /\ verdict = "none" /\ ~ENABLED TStep
    /\ verdict' = "reject" /\ UNCHANGED <<kvars, tid, pos>>

TNext == TStep \/ TReject

Clause ==
    IF pos > Len(Traces[tid]) THEN "no-result-event"
    ELSE LET e == Ev IN
      IF e.ev # "Result" THEN "step:" \o e.ev
      ELSE IF phase # "ready" THEN "notready"
      ELSE IF ~SomeField(e) THEN "shape"
      ELSE IF ~RatesOK(e) THEN "rates"
      ELSE IF ~DcdtOK(e) THEN "dcdt"
      ELSE IF ~RvalsOK(e) THEN "rvals"
      ELSE IF ~ContribOK(e) THEN "contrib"
      ELSE "poly"

Verdict == verdict # "none" =>
    PrintT(<<"VERDICT", tid, verdict, pos, IF verdict = "accept" THEN "" ELSE Clause>>)

NoCatalog == {}
NoKVals == <<>>
NoOrders == {}
NoPoints == {}
NoReK == {}
TrNames == [s \in Species |-> s]
TrOv == <<>>
TrSort == <<"A", "B", "C", "D", "E", "G">>
=============================================================================
