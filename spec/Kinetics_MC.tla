---------------------------- MODULE Kinetics_MC ----------------------------
(* Constants for the sliced exhaustive configurations of Kinetics (C03).                     *)
(*                                                                                            *)
(* Catalog: 16 reaction shapes over the positions X Y Z W, each instantiated under the four   *)
(* rotations of (A B C D) -> 64 reactions containing every class named in C03.                *)
(* Numbers: concentrations 2 3 5 7 (and a second point 3 7 2 5), rate constants 11 13 17,     *)
(* feed ratio 19 (or 1/2), feed concentrations 23 29 31 37: pairwise distinct primes.         *)
(* Largest monomial: |net| <= 3, order <= 3 -> 3 * 17 * 7^3 < 2 * 10^4; sums of <= 3 such     *)
(* plus a feed term stay below 10^5.                                                          *)
EXTENDS Kinetics

Sp == <<"A", "B", "C", "D">>
AllSpecies == {"A", "B", "C", "D"}
Rot(idx, r) == Sp[((idx - 1 + r) % 4) + 1]
\* pairs : sequence of <<position, coefficient>> with pairwise distinct positions
MkMap(pairs, r) ==
    [n \in { Rot(pairs[i][1], r) : i \in DOMAIN pairs } |->
        pairs[CHOOSE i \in DOMAIN pairs : Rot(pairs[i][1], r) = n][2]]
Sh(re, pr, ir, ip) == [re |-> re, pr |-> pr, ir |-> ir, ip |-> ip, hf |-> <<>>]
ShH(re, pr, ir, ip, hf) == [re |-> re, pr |-> pr, ir |-> ir, ip |-> ip, hf |-> hf]
Inst(sh, r) == [reac |-> MkMap(sh.re, r), prod |-> MkMap(sh.pr, r),
                ireac |-> MkMap(sh.ir, r), iprod |-> MkMap(sh.ip, r), half |-> MkMap(sh.hf, r)]

X == 1  Y == 2  Z == 3  W == 4
Shapes == <<
    Sh(<< <<X,1>> >>,           << <<Y,1>> >>,           <<>>,          <<>>),          \*  1  X -> Y
    Sh(<< <<X,2>> >>,           << <<Y,1>> >>,           <<>>,          <<>>),          \*  2  2X -> Y
    Sh(<< <<X,1>>, <<Y,1>> >>,  << <<Z,1>> >>,           <<>>,          <<>>),          \*  3  X + Y -> Z
    Sh(<< <<X,1>>, <<Y,1>> >>,  << <<Z,1>>, <<W,1>> >>,  <<>>,          <<>>),          \*  4  X + Y -> Z + W
    Sh(<< <<X,1>> >>,           << <<Y,2>>, <<Z,1>> >>,  <<>>,          <<>>),          \*  5  X -> 2Y + Z
    Sh(<< <<X,2>>, <<Y,1>> >>,  << <<Z,3>> >>,           <<>>,          <<>>),          \*  6  2X + Y -> 3Z
    Sh(<<>>,                    << <<X,1>> >>,           <<>>,          <<>>),          \*  7  -> X         (zero order)
    Sh(<<>>,                    << <<X,1>> >>,           << <<Y,1>> >>, <<>>),          \*  8  (Y) -> X     (zero order, Y consumed)
    Sh(<< <<X,1>> >>,           << <<Z,1>> >>,           << <<Y,1>> >>, <<>>),          \*  9  X + (Y) -> Z
    Sh(<< <<X,1>> >>,           << <<Y,1>> >>,           <<>>,          << <<Z,1>> >>), \* 10  X -> Y + (Z)
    Sh(<< <<X,1>>, <<Y,1>> >>,  << <<X,1>>, <<Z,1>> >>,  <<>>,          <<>>),          \* 11  X + Y -> X + Z  (catalyst)
    Sh(<< <<X,1>>, <<Y,1>> >>,  << <<X,2>> >>,           <<>>,          <<>>),          \* 12  X + Y -> 2X     (autocatalysis)
    Sh(<< <<X,2>> >>,           << <<X,1>>, <<Y,1>> >>,  <<>>,          <<>>),          \* 13  2X -> X + Y
    Sh(<< <<X,1>> >>,           << <<Y,1>> >>,           << <<X,1>> >>, <<>>),          \* 14  X + (X) -> Y    (net -2, exponent 1)
    Sh(<< <<X,1>> >>,           << <<Z,1>> >>,           << <<Y,2>> >>, << <<W,1>> >>), \* 15  X + (2Y) -> Z + (W)
    Sh(<< <<X,1>> >>,           << <<Y,1>> >>,           <<>>,          << <<X,1>> >>), \* 16  X -> Y + (X)    (net 0 for X, exponent 1)
    \* power-law orders: the active coefficient of the marked species is lowered by 1/2 (the half goes to the inactive part)
    ShH(<< <<X,1>> >>,          << <<Y,1>> >>,           <<>>,          <<>>,  << <<X,1>> >>),   \* 17  0.5 X + (0.5 X) -> Y
    ShH(<< <<X,2>>, <<Y,1>> >>, << <<Z,1>> >>,           <<>>,          <<>>,  << <<X,1>> >>),   \* 18  1.5 X + Y + (0.5 X) -> Z
    ShH(<< <<X,1>>, <<Y,1>> >>, << <<Z,2>> >>,           << <<W,1>> >>, <<>>,  << <<X,1>>, <<Y,1>> >>) \* 19  0.5 X + 0.5 Y + (...) -> 2 Z
>>

CatRot(rs) == { Inst(Shapes[i], r) : i \in 1..16, r \in rs }
CatHalf == { Inst(Shapes[i], r) : i \in 17..19, r \in {0, 1} } \cup { Inst(Shapes[i], 0) : i \in {3, 9} }
Cat16 == CatRot({0})
Cat32 == CatRot({0, 2})
Cat64 == CatRot({0, 1, 2, 3})
\* the inactive / both-sides / zero-order shapes only (for the wide configurations)
CatSpecial == { Inst(Shapes[i], r) : i \in 7..16, r \in {0, 1} }
Cat8 == { Inst(Shapes[i], 0) : i \in {2, 3, 7, 9, 10, 11, 14, 15} }
Cat6 == { Inst(Shapes[i], 0) : i \in {3, 7, 9, 10, 11, 14} }
CatHalfW == { Inst(Shapes[i], r) : i \in 17..19, r \in {0, 1, 2, 3} } \cup Cat8

K3 == <<Q(11), Q(13), Q(17)>>
P1 == [s \in AllSpecies |-> CASE s = "A" -> Q(2) [] s = "B" -> Q(3) [] s = "C" -> Q(5) [] s = "D" -> Q(7)]
P2 == [s \in AllSpecies |-> CASE s = "A" -> Q(3) [] s = "B" -> Q(7) [] s = "C" -> Q(2) [] s = "D" -> Q(5)]
\* a rational point (Fraction replay): 2/3 3/5 5/7 7/2
P3 == [s \in AllSpecies |-> CASE s = "A" -> <<2, 3>> [] s = "B" -> <<3, 5>> [] s = "C" -> <<5, 7>> [] s = "D" -> <<7, 2>>]
\* the zero value class: a substance that is absent, a feed that does not contain some substances,
\* a reaction switched off by k = 0, no flow at all
PZ == [s \in AllSpecies |-> CASE s = "A" -> Q(0) [] s = "B" -> Q(3) [] s = "C" -> Q(5) [] s = "D" -> Q(7)]
CFZ == [s \in AllSpecies |-> CASE s = "A" -> Q(0) [] s = "B" -> Q(29) [] s = "C" -> Q(0) [] s = "D" -> Q(37)]
PtsZero == {PZ, P1}
PtsZ1 == {PZ}
KZ == <<Q(11), Q(0), Q(17)>>
\* perfect squares of the primes: c^(1/2) stays exact
PSq == [s \in AllSpecies |-> CASE s = "A" -> Q(4) [] s = "B" -> Q(9) [] s = "C" -> Q(25) [] s = "D" -> Q(49)]
PtsSq == {PSq}
Pts13 == {P1, P3}
Pts1 == {P1}
Pts2 == {P1, P2}
Pts3 == {P1, P2, P3}
PtsFrac == {P3}
CF1 == [s \in AllSpecies |-> CASE s = "A" -> Q(23) [] s = "B" -> Q(29) [] s = "C" -> Q(31) [] s = "D" -> Q(37)]
Fd1 == { [F |-> Q(19), cf |-> CF1, kind |-> "all"] }
Fd2 == { [F |-> Q(19), cf |-> CF1, kind |-> "all"], [F |-> <<1, 2>>, cf |-> P2, kind |-> "rev"] }
\* the caller's substance -> feed-key mapping: builder default, system order, reversed, a reversed subset
FdKinds == { [F |-> Q(19), cf |-> CF1, kind |-> kd] : kd \in {"all", "map", "rev", "sub"} }
FdZero == { [F |-> Q(19), cf |-> CFZ, kind |-> "all"], [F |-> Q(19), cf |-> CFZ, kind |-> "rev"],
            [F |-> Q(0), cf |-> [s \in AllSpecies |-> Q(23)], kind |-> "all"] }
FdZero2 == { [F |-> Q(19), cf |-> CFZ, kind |-> "all"], [F |-> Q(0), cf |-> [s \in AllSpecies |-> Q(23)], kind |-> "all"] }
FdRev == { [F |-> Q(19), cf |-> CF1, kind |-> "rev"] }
FdMaps == { [F |-> Q(19), cf |-> CF1, kind |-> kd] : kd \in {"rev", "sub"} }
PhZero == [s \in AllSpecies |-> 0]
PhMixed == [s \in AllSpecies |-> CASE s = "A" -> 1 [] s = "B" -> 0 [] s = "C" -> 2 [] s = "D" -> 0]
PhSolid == [s \in AllSpecies |-> 1]
Ph1 == {PhZero}
Ph2 == {PhZero, PhMixed}
PhNonzero == {PhMixed, PhSolid}
Ph3 == {PhZero, PhMixed, PhSolid}
ReK == {Q(41), Q(43)}
ReK1 == {Q(41)}
NoReK == {}
NmId == [s \in AllSpecies |-> s]
NmIon == [s \in AllSpecies |-> CASE s = "A" -> "H+" [] s = "B" -> "OH-" [] s = "C" -> "H2O" [] s = "D" -> "AgCl(s)"]
PfPlain == {"plain"}
PfAll == {"plain", "ma", "str"}
PfMa == {"plain", "ma"}
CtList == {"list"}
CtAll == {"list", "tuple", "ndarray"}
Ov3 == <<Q(89), Q(97), Q(101)>>
OvZ == <<Q(0), Q(97), Q(0)>>      \* an override that is exactly 0
SfList == {"list"}
SfAll == {"list", "str", "odict", "alias", "set", "none", "sortlist"}
SortId == <<"A", "B", "C", "D">>
SortIon == <<"D", "A", "C", "B">>   \* AgCl(s) < H+ < H2O < OH-
NoFeeds == {}

OrdOne == { <<"C", "A", "D", "B">> }
OrdTwo == { <<"C", "A", "D", "B">>, <<"A", "B", "C", "D">> }
OrdSome == { <<"C", "A", "D", "B">>, <<"A", "B", "C", "D">>, <<"D", "C", "B", "A">>, <<"B", "D", "A", "C">>,
             <<"A", "C", "B", "D">>, <<"D", "A", "B", "C">>, <<"D", "A", "C", "B">> }
OrdAll == { o \in [1..4 -> AllSpecies] : \A i, j \in 1..4 : i # j => o[i] # o[j] }

ASSUME \A r \in Cat64 \cup CatHalf : IsShape(r)
ASSUME Cardinality(Cat64) = 64
=============================================================================
