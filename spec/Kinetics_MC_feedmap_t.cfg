INIT Init
NEXT Next
CONSTANTS
  Species = {"A", "B", "C", "D"}
  Catalog <- Cat32
  MaxR = 2
  KVals <- K3
  Orders <- OrdTwo
  FullOrder = TRUE
  Points <- Pts1
  Feeds <- FdKinds
  PhaseMaps <- Ph1
  ReKVals <- NoReK
  MaxHist = 0
  NameMap <- NmId
  PForms <- PfAll
  Containers <- CtList
  OvKVals <- Ov3
  SForms <- SfAll
  KeySortSeq <- SortId
INVARIANT PolyAgreesWithFold
INVARIANT PermutationInvariant
INVARIANT InactiveNotInExponent
INVARIANT UntouchedGetNothing
INVARIANT FeedExact
INVARIANT CurrentConstantRules
INVARIANT StoichDecomposes
INVARIANT NetCountsInactive
INVARIANT PointSeparates
INVARIANT PolysNormal
INVARIANT TypeOK
INVARIANT Emit
CHECK_DEADLOCK FALSE
