INIT Init
NEXT Next
CONSTANTS
  Species = {"A", "B", "C", "D"}
  Catalog <- CatHalf
  MaxR = 2
  KVals <- K3
  Orders <- OrdOne
  FullOrder = TRUE
  Points <- PtsSq
  Feeds <- Fd1
  PhaseMaps <- Ph1
  ReKVals <- NoReK
  MaxHist = 0
  NameMap <- NmId
  PForms <- PfMa
  Containers <- CtList
  OvKVals <- Ov3
  SForms <- SfList
  KeySortSeq <- SortId
INVARIANT PolyAgreesWithFold
INVARIANT PermutationInvariant
INVARIANT InactiveNotInExponent
INVARIANT UntouchedGetNothing
INVARIANT FeedExact
INVARIANT CurrentConstantRules
INVARIANT StoichDecomposes
INVARIANT NetCountsInactive
INVARIANT PointSeparates
INVARIANT PolysNormal
INVARIANT TypeOK
INVARIANT Emit
CHECK_DEADLOCK FALSE
