INIT Init
NEXT Next
CONSTANTS
  Species = {"A", "B", "C", "D"}
  Catalog <- Cat8
  MaxR = 2
  KVals <- K3
  Orders <- OrdOne
  FullOrder = TRUE
  Points <- Pts1
  Feeds <- FdRev
  PhaseMaps <- Ph1
  ReKVals <- ReK
  MaxHist = 2
  NameMap <- NmId
  PForms <- PfMa
  Containers <- CtList
  OvKVals <- Ov3
  SForms <- SfList
  KeySortSeq <- SortId
INVARIANT PolyAgreesWithFold
INVARIANT PermutationInvariant
INVARIANT InactiveNotInExponent
INVARIANT UntouchedGetNothing
INVARIANT FeedExact
INVARIANT CurrentConstantRules
INVARIANT StoichDecomposes
INVARIANT NetCountsInactive
INVARIANT PointSeparates
INVARIANT PolysNormal
INVARIANT TypeOK
INVARIANT Emit
CHECK_DEADLOCK FALSE
