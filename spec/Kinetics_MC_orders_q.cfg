INIT Init
NEXT Next
CONSTANTS
  Species = {"A", "B", "C", "D"}
  Catalog <- Cat8
  MaxR = 2
  KVals <- K3
  Orders <- OrdSome
  FullOrder = FALSE
  Points <- Pts1
  Feeds <- NoFeeds
  PhaseMaps <- Ph1
  ReKVals <- NoReK
  MaxHist = 0
  NameMap <- NmIon
  PForms <- PfPlain
  Containers <- CtAll
  OvKVals <- Ov3
  SForms <- SfAll
  KeySortSeq <- SortIon
INVARIANT PolyAgreesWithFold
INVARIANT PermutationInvariant
INVARIANT InactiveNotInExponent
INVARIANT UntouchedGetNothing
INVARIANT FeedExact
INVARIANT CurrentConstantRules
INVARIANT StoichDecomposes
INVARIANT NetCountsInactive
INVARIANT PointSeparates
INVARIANT PolysNormal
INVARIANT TypeOK
INVARIANT Emit
CHECK_DEADLOCK FALSE
