INIT Init
NEXT Next
CONSTANTS
  Species = {"A", "B", "C", "D"}
  Catalog <- Cat32
  MaxR = 2
  KVals <- K3
  Orders <- OrdOne
  FullOrder = TRUE
  Points <- Pts1
  Feeds <- NoFeeds
  PhaseMaps <- Ph3
  ReKVals <- NoReK
  MaxHist = 0
  NameMap <- NmIon
  PForms <- PfPlain
  Containers <- CtList
  OvKVals <- Ov3
  SForms <- SfList
  KeySortSeq <- SortIon
INVARIANT PolyAgreesWithFold
INVARIANT PermutationInvariant
INVARIANT InactiveNotInExponent
INVARIANT UntouchedGetNothing
INVARIANT FeedExact
INVARIANT CurrentConstantRules
INVARIANT StoichDecomposes
INVARIANT NetCountsInactive
INVARIANT PointSeparates
INVARIANT PolysNormal
INVARIANT TypeOK
INVARIANT Emit
CHECK_DEADLOCK FALSE
