INIT Init
NEXT Next
CONSTANTS
  Species = {"A", "B", "C", "D"}
  Catalog <- Cat8
  MaxR = 2
  KVals <- KZ
  Orders <- OrdOne
  FullOrder = TRUE
  Points <- PtsZ1
  Feeds <- FdZero
  PhaseMaps <- Ph2
  ReKVals <- NoReK
  MaxHist = 0
  NameMap <- NmId
  PForms <- PfAll
  Containers <- CtList
  OvKVals <- OvZ
  SForms <- SfList
  KeySortSeq <- SortId
INVARIANT PolyAgreesWithFold
INVARIANT PermutationInvariant
INVARIANT InactiveNotInExponent
INVARIANT UntouchedGetNothing
INVARIANT FeedExact
INVARIANT CurrentConstantRules
INVARIANT StoichDecomposes
INVARIANT NetCountsInactive
INVARIANT PointSeparates
INVARIANT PolysNormal
INVARIANT TypeOK
INVARIANT Emit
CHECK_DEADLOCK FALSE
