INIT Init
NEXT Next
CONSTANTS
  Species = {"A", "B", "C", "D"}
  Catalog <- Cat16
  MaxR = 2
  KVals <- KZ
  Orders <- OrdOne
  FullOrder = TRUE
  Points <- PtsZero
  Feeds <- FdZero
  PhaseMaps <- Ph1
  ReKVals <- NoReK
  MaxHist = 0
  NameMap <- NmId
  PForms <- PfAll
  Containers <- CtAll
  OvKVals <- Ov3
  SForms <- SfList
  KeySortSeq <- SortId
INVARIANT PolyAgreesWithFold
INVARIANT PermutationInvariant
INVARIANT InactiveNotInExponent
INVARIANT UntouchedGetNothing
INVARIANT FeedExact
INVARIANT CurrentConstantRules
INVARIANT StoichDecomposes
INVARIANT NetCountsInactive
INVARIANT PointSeparates
INVARIANT PolysNormal
INVARIANT TypeOK
INVARIANT Emit
CHECK_DEADLOCK FALSE
