------------------------------- MODULE LinAlg -------------------------------
(* Exact integer linear algebra on small matrices (shared; used by Balance, C02).            *)
(*                                                                                            *)
(* A matrix is a non-empty sequence of rows, every row a sequence of integers of the same     *)
(* length; a vector is a sequence of integers.  Everything is integer-only ("fraction-free"): *)
(* the elimination combines rows with coprime integer multipliers and keeps every row         *)
(* primitive (divided by the gcd of its entries), so every entry stays bounded by a minor of  *)
(* the input matrix.  TLC integers are 32 bit: callers keep                                   *)
(*         (largest minor of A)^2  <  10^9                                                    *)
(* (Hadamard: a K-row matrix with |entries| <= v has minors <= (sqrt(K)*v)^K); TLC reports an *)
(* overflow as an error, it never wraps silently.                                             *)
(*                                                                                            *)
(* Two independent formulations are provided on purpose, so that a model can check one        *)
(* against the other: the elimination (Reduce / Rank / NullBasis / RayGen) and plain bounded  *)
(* search (SmallNullVectors / IsRayBySearch / PosBox).                                        *)
EXTENDS Integers, Sequences, FiniteSets, FiniteSetsExt, SequencesExt, TLC, Rational

\* TLC evaluates function constructors lazily (the body is re-evaluated at every application);
\* every vector/matrix built here is forced once, so that recursion does not compound the cost.
Eager(v) == TLCEval(v)

NRows(A) == Len(A)
NCols(A) == Len(A[1])
IsMatrix(A) == /\ Len(A) >= 1
               /\ \A i \in 1..Len(A) : Len(A[i]) = Len(A[1]) /\ \A j \in 1..Len(A[i]) : A[i][j] \in Int

RECURSIVE DotFrom(_, _, _)
DotFrom(u, v, i) == IF i > Len(u) THEN 0 ELSE u[i] * v[i] + DotFrom(u, v, i + 1)
Dot(u, v) == DotFrom(u, v, 1)
MatVec(A, x) == Eager([i \in 1..Len(A) |-> Dot(A[i], x)])
VecMat(y, A) == Eager([j \in 1..NCols(A) |-> SumSeq([i \in 1..Len(A) |-> y[i] * A[i][j]])])
Transpose(A) == Eager([j \in 1..NCols(A) |-> Eager([i \in 1..Len(A) |-> A[i][j]])])
IsZeroVec(v) == \A i \in 1..Len(v) : v[i] = 0
IsNullVec(A, x) == IsZeroVec(MatVec(A, x))
VecSum(v) == SumSeq(v)
AllPositive(v) == \A i \in 1..Len(v) : v[i] > 0
AllNonNeg(v) == \A i \in 1..Len(v) : v[i] >= 0
VecGCD(v) == GCDSeq(v)
Primitive(v) == LET g == GCDSeq(v) IN IF g = 0 THEN v ELSE Eager([i \in 1..Len(v) |-> v[i] \div g])
VecNeg(v) == Eager([i \in 1..Len(v) |-> -v[i]])
\* the columns named by the sequence cols, in that order
SubCols(A, cols) == Eager([i \in 1..Len(A) |-> Eager([j \in 1..Len(cols) |-> A[i][cols[j]]])])
\* exact division of an integer by a non-zero integer of either sign
ExactDiv(a, b) == IF b > 0 THEN a \div b ELSE (-a) \div (-b)
Divides(b, a) == a % Abs(b) = 0

(* ---------------------------------------------------------------------------------------- *)
(* Integer Gauss-Jordan elimination.  Reduce(A) = [M, piv]: M is row-equivalent to A over Q, *)
(* piv is the increasing sequence of pivot columns, pivot i sits in row i, a pivot column    *)
(* has exactly one non-zero entry, rows Len(piv)+1.. are zero.                               *)
RECURSIVE ElimFrom(_, _, _, _)
ElimFrom(M, r, c, piv) ==
    IF c > NCols(M) \/ r = Len(M) THEN [M |-> M, piv |-> piv]
    ELSE LET cand == {i \in (r + 1)..Len(M) : M[i][c] # 0} IN
         IF cand = {} THEN ElimFrom(M, r, c + 1, piv)
         ELSE LET i0 == Min(cand)
                  S == Eager([i \in 1..Len(M) |-> IF i = r + 1 THEN M[i0] ELSE IF i = i0 THEN M[r + 1] ELSE M[i]])
                  p == S[r + 1][c]
                  R == Eager([i \in 1..Len(M) |->
                          IF i = r + 1 THEN Primitive(S[i])
                          ELSE IF S[i][c] = 0 THEN S[i]
                          ELSE LET q == S[i][c]
                                   g == GCD(Abs(p), Abs(q))
                                   pp == p \div g
                                   qq == q \div g
                               IN  Primitive(Eager([j \in 1..NCols(M) |-> pp * S[i][j] - qq * S[r + 1][j]]))])
              IN  ElimFrom(R, r + 1, c + 1, Append(piv, c))

\* rows are made primitive first (same null space, same rank): every value the elimination forms is
\* then bounded by a minor of the ROW-PRIMITIVE matrix (the bound callers have to respect)
PrimRows(A) == Eager([i \in 1..Len(A) |-> Primitive(A[i])])
Reduce(A) == ElimFrom(PrimRows(A), 0, 1, <<>>)
RankOf(E) == Len(E.piv)
Rank(A) == RankOf(Reduce(A))
Nullity(A) == NCols(A) - Rank(A)
PivotCols(E) == {E.piv[i] : i \in 1..Len(E.piv)}
FreeCols(E) == (1..NCols(E.M)) \ PivotCols(E)
PivotRow(E, j) == CHOOSE i \in 1..Len(E.piv) : E.piv[i] = j
NonzeroRows(E) == Eager([i \in 1..Len(E.piv) |-> E.M[i]])

(* The primitive integer null vector with free column f set positive and every other free    *)
(* column 0:  x[piv_i] = - M[i][f] / M[i][piv_i].                                            *)
NullVecFor(E, f) ==
    LET r == Len(E.piv)
        fr == Eager([i \in 1..r |-> Norm(<<-E.M[i][f], E.M[i][E.piv[i]]>>)])
        RECURSIVE L(_)
        L(i) == IF i = 0 THEN 1 ELSE LCM(fr[i][2], L(i - 1))
        t == L(r)
    IN  Primitive(Eager([j \in 1..NCols(E.M) |->
            IF j = f THEN t
            ELSE IF j \in PivotCols(E) THEN LET i == PivotRow(E, j) IN fr[i][1] * (t \div fr[i][2])
            ELSE 0]))

\* one basis vector per free column, free columns in increasing order
NullBasisOf(E) == LET fs == SetToSortSeq(FreeCols(E), <) IN Eager([k \in 1..Len(fs) |-> NullVecFor(E, fs[k])])
NullBasis(A) == NullBasisOf(Reduce(A))

IsRayOf(E) == Cardinality(FreeCols(E)) = 1
IsRay(A) == IsRayOf(Reduce(A))
\* generator of a one-dimensional null space, primitive, its free coordinate positive
RayGenOf(E) == NullVecFor(E, CHOOSE f \in FreeCols(E) : TRUE)
RayGen(A) == RayGenOf(Reduce(A))

(* ---------------------------------------------------------------------------------------- *)
(* Positive integer solutions of A x = 0, enumerated through the free coordinates: every     *)
(* solution is determined by its free coordinates, so { x > 0 : Ax = 0, free coords <= B }   *)
(* is computed exactly.  It contains every positive solution whose coordinates are all <= B. *)
\* pivot coordinate j of the solution whose free coordinates are given by tt (0 elsewhere);
\* 0 when that coordinate is not an integer
PosSolOf(E, B) ==
    LET n == NCols(E.M)
        fc == FreeCols(E)
        prow == Eager([j \in 1..n |-> IF j \in fc THEN 0 ELSE PivotRow(E, j)])
        Val(tt, j) == LET i == prow[j]
                          num == -Dot(E.M[i], tt)
                          den == E.M[i][j]
                      IN  IF Divides(den, num) THEN ExactDiv(num, den) ELSE 0
        Sol(t) == LET tt == Eager([j \in 1..n |-> IF j \in fc THEN t[j] ELSE 0])
                  IN  Eager([j \in 1..n |-> IF j \in fc THEN t[j] ELSE Val(tt, j)])
    IN  {x \in {Sol(t) : t \in [fc -> 1..B]} : AllPositive(x)}
PosSol(A, B) == PosSolOf(Reduce(A), B)
MinSumOver(S) == Min({VecSum(x) : x \in S})
\* every positive solution of sum <= s has all coordinates <= s - (n - 1)
PosSolUpToSum(E, s) ==
    LET b == s - (NCols(E.M) - 1)
    IN  IF b < 1 THEN {} ELSE {x \in PosSolOf(E, b) : VecSum(x) <= s}
\* number of free assignments the search above would visit
RECURSIVE IPowCapped(_, _, _)
IPowCapped(b, e, cap) == IF e = 0 THEN 1 ELSE LET p == IPowCapped(b, e - 1, cap) IN IF p > cap THEN p ELSE b * p
SearchSize(E, b) == IPowCapped(IF b < 1 THEN 1 ELSE b, Cardinality(FreeCols(E)), 1000000)
\* the largest box b <= B whose search visits at most cap assignments (at least 1)
BoxWithin(E, B, cap) == Max({b \in 1..B : b = 1 \/ SearchSize(E, b) <= cap})

(* ---------------------------------------------------------------------------------------- *)
(* Stiemke's alternative: exactly one of  (i) A x = 0 has a solution x > 0,                  *)
(* (ii) there is y with  y^T A >= 0  and  y^T A # 0.   A vector y as in (ii) is a certificate *)
(* that NO positive solution of any size exists (0 = y^T A x > 0 otherwise).                 *)
IsCert(A, y) == LET w == VecMat(y, A) IN AllNonNeg(w) /\ ~IsZeroVec(w)
HasCert(A, Y) == \E y \in [1..Len(A) -> (-Y)..Y] : IsCert(A, y)
CertOf(A, Y) == CHOOSE y \in [1..Len(A) -> (-Y)..Y] : IsCert(A, y)
\* the certificate search over the non-zero rows of the reduced matrix (same row space)
\* ... attempted only when it visits at most 20 000 candidate vectors ((2Y+1)^rank)
CertSearchSize(E, Y) == IPowCapped(2 * Y + 1, Len(E.piv), 1000000)
HasCertOf(E, Y) == IF Len(E.piv) = 0 \/ CertSearchSize(E, Y) > 20000 THEN FALSE
                   ELSE HasCert(NonzeroRows(E), Y)

(* ---------------------------------------------------------------------------------------- *)
(* Bounded search, independent of the elimination (for cross-checking on small models).      *)
Box(n, lo, hi) == [1..n -> lo..hi]
SmallNullVectors(A, B) == {x \in Box(NCols(A), -B, B) : ~IsZeroVec(x) /\ IsNullVec(A, x)}
\* "all small integer null vectors are integer multiples of one of them"
IsRayBySearch(A, B) ==
    LET S == SmallNullVectors(A, B) IN
    /\ S # {}
    /\ \E g \in S : \A x \in S : \E m \in (-B)..B : x = [i \in 1..Len(g) |-> m * g[i]]
PosBox(A, B) == {x \in Box(NCols(A), 1, B) : IsNullVec(A, x)}

(* ---------------------------------------------------------------------------------------- *)
(* Exact zero test of u.v for LARGE entries (anything a 32-bit integer holds) without ever     *)
(* forming the sum: u.v = 0 iff u.v = 0 modulo five primes just below sqrt(2^31).              *)
(* |u.v| <= n * 2^62 < 46301*46307*46309*46327*46337 (about 2.1*10^23) for n <= 10^4, so the   *)
(* residues decide; (a % p)*(b % p) + acc < 46337^2 + 46337 < 2^31, so nothing overflows.      *)
CRTPrimes == {46301, 46307, 46309, 46327, 46337}
RECURSIVE DotModFrom(_, _, _, _, _)
DotModFrom(u, v, p, i, acc) ==
    IF i > Len(u) THEN acc ELSE DotModFrom(u, v, p, i + 1, (acc + (u[i] % p) * (v[i] % p)) % p)
DotIsZeroBig(u, v) == \A p \in CRTPrimes : DotModFrom(u, v, p, 1, 0) = 0
IsNullVecBig(A, x) == \A i \in 1..Len(A) : DotIsZeroBig(A[i], x)

(* vectors of rationals <<n,d>> *)
QDot(u, xq) == QSumSeq([i \in 1..Len(u) |-> QMul(Q(u[i]), xq[i])])
QIsNullVec(A, xq) == \A i \in 1..Len(A) : QIsZero(QDot(A[i], xq))
=============================================================================
