---------------------------- MODULE Mass ----------------------------
(* Molar mass (C14): the composition-weighted sum of standard atomic weights minus the       *)
(* electron mass times the net charge - exactly, as a big natural number.                     *)
(* A composition is a function from atomic numbers to rationals <<n, d>>; the mass is         *)
(*      MassNumOf(f, q) / (MassDenOf(f) * 10^9)   atomic mass units.                          *)
EXTENDS Integers, Sequences, FiniteSets, FiniteSetsExt, Rational, BigNat, Periodic

\* standard atomic weight times 10^9
W9(z) == BAdd(BMulSmall(BMulSmall(BMulSmall(BFromInt(WInt[z]), 10000), 10000), 10), BFromInt(WFrac9[z]))
RECURSIVE LCMSet(_)
LCMSet(S) == IF S = {} THEN 1 ELSE LET x == CHOOSE y \in S : TRUE IN LCM(x, LCMSet(S \ {x}))
MassDenOf(f) == LCMSet({ f[z][2] : z \in DOMAIN f })
BSumSet(S, f(_)) == FoldSet(LAMBDA x, acc : BAdd(f(x), acc), <<>>, S)
\* numerator of mass * MassDen * 10^9 for composition f and charge q
MassNumOf(f, q) ==
    LET D == MassDenOf(f)
        term(z) == BMul(W9(z), BFromInt(f[z][1] * (D \div f[z][2])))
        pos == BSumSet(DOMAIN f, term)
        el == BMulSmall(BFromInt(ElectronFrac9), Abs(q) * D)
    IN  IF q >= 0 THEN BSub(pos, el) ELSE BAdd(pos, el)

\* an observed mass, given as round(mass * 10^9) in limbs, agrees with the exact one to
\* 1e-12 relative plus one unit of the quantisation
MassClose(obs9, f, q) ==
    LET D == MassDenOf(f)
        ex == MassNumOf(f, q)
        ob == BMulSmall(obs9, D)
        slack == BAdd(BFromInt(D), IF Len(ex) > 3 THEN SubSeq(ex, 4, Len(ex)) ELSE <<>>)
    IN  BLe(BAbsDiff(ob, ex), slack)


ASSUME W9(1) = <<0, 800, 10>>          \* 1.008 * 10^9 = 1 008 000 000
ASSUME W9(9) = <<3163, 9840, 189>>     \* 18.998403163
=============================================================================
