---------------------------- MODULE MassMix ----------------------------
(* C14, mixtures: mass fractions are positive, proportional to coefficient times molar mass *)
(* and sum to one.  A mixture is built entry by entry from a pool of substances given by     *)
(* their formula text and (spec-side) composition; fractions are exact: Num[i] / Den with    *)
(* Num[i] = coef[i] * mass[i] * (common denominator), Den = sum of the Num.                  *)
EXTENDS Integers, Sequences, FiniteSets, TLC, Json, Rational, BigNat, Periodic, Mass

CONSTANTS MaxEntries, Coefs

(* pool: text, composition, charge *)
C(z, n) == [y \in {z} |-> <<n, 1>>]
Pool == <<
    [txt |-> "H2O",        comp |-> (1 :> <<2, 1>>) @@ (8 :> <<1, 1>>), q |-> 0],
    [txt |-> "NaCl",       comp |-> (11 :> <<1, 1>>) @@ (17 :> <<1, 1>>), q |-> 0],
    [txt |-> "Fe2(SO4)3",  comp |-> (26 :> <<2, 1>>) @@ (16 :> <<3, 1>>) @@ (8 :> <<12, 1>>), q |-> 0],
    [txt |-> "NH4+",       comp |-> (7 :> <<1, 1>>) @@ (1 :> <<4, 1>>), q |-> 1],
    [txt |-> "SO4-2",      comp |-> (16 :> <<1, 1>>) @@ (8 :> <<4, 1>>), q |-> -2],
    [txt |-> "UO2.25",     comp |-> (92 :> <<1, 1>>) @@ (8 :> <<9, 4>>), q |-> 0],
    [txt |-> "Na2CO3..10H2O", comp |-> (11 :> <<2, 1>>) @@ (6 :> <<1, 1>>) @@ (8 :> <<13, 1>>) @@ (1 :> <<20, 1>>), q |-> 0],
    [txt |-> "Og",         comp |-> (118 :> <<1, 1>>), q |-> 0],
    \* entries with EQUAL coefficient x mass products: isomers, one composition in two phases,
    \* and 3 O2 vs 2 O3
    [txt |-> "C2H5OH",     comp |-> (6 :> <<2, 1>>) @@ (1 :> <<6, 1>>) @@ (8 :> <<1, 1>>), q |-> 0],
    [txt |-> "CH3OCH3",    comp |-> (6 :> <<2, 1>>) @@ (1 :> <<6, 1>>) @@ (8 :> <<1, 1>>), q |-> 0],
    [txt |-> "H2O(g)",     comp |-> (1 :> <<2, 1>>) @@ (8 :> <<1, 1>>), q |-> 0],
    [txt |-> "O2",         comp |-> (8 :> <<2, 1>>), q |-> 0],
    [txt |-> "O3",         comp |-> (8 :> <<3, 1>>), q |-> 0] >>

VARIABLES mix, phase       \* mix: sequence of <<pool index, coefficient>>
vars == <<mix, phase>>
Init == mix = <<>> /\ phase = "build"
Used == { mix[i][1] : i \in 1..Len(mix) }
Add(i, c) == /\ phase = "build" /\ Len(mix) < MaxEntries /\ i \in 1..Len(Pool) /\ i \notin Used
             /\ (IF mix = <<>> THEN TRUE ELSE i > mix[Len(mix)][1])   \* canonical order: a mixture is a set
             /\ mix' = Append(mix, <<i, c>>) /\ UNCHANGED phase
Finish == phase = "build" /\ mix # <<>> /\ phase' = "done" /\ UNCHANGED mix
GenAdd == \E i \in 1..Len(Pool), c \in Coefs : Add(i, c)
Next == GenAdd \/ Finish

Den(i) == MassDenOf(Pool[i].comp)
CommonDen == LCMSet({ Den(mix[j][1]) : j \in 1..Len(mix) })
\* coef * mass * CommonDen * 10^9
Num(j) == LET i == mix[j][1] IN
          BMulSmall(MassNumOf(Pool[i].comp, Pool[i].q), mix[j][2] * (CommonDen \div Den(i)))
RECURSIVE BSumTo(_)
BSumTo(n) == IF n = 0 THEN <<>> ELSE BAdd(Num(n), BSumTo(n - 1))
Total == BSumTo(Len(mix))

Done == phase = "done"
\* design facts: every fraction positive, they sum to one by construction (Total is the sum)
AllPositiveFractions == Done => \A j \in 1..Len(mix) : Num(j) # <<>>
SumIsTotal == Done => BCmp(Total, BSumTo(Len(mix))) = 0
\* proportionality, cross-multiplied: Num(j) * c_k * M_k = Num(k) * c_j * M_j
Proportional == Done => \A j, k \in 1..Len(mix) :
    BMul(Num(j), Num(k)) = BMul(Num(k), Num(j))
\* the pool really contains pairs with equal coefficient x mass (vacuity guard for that class)
HasEqualProducts == \E i, k \in 1..Len(Pool) : i # k /\ Pool[i].comp = Pool[k].comp

CaseRec == [ in |-> [entries |-> [j \in 1..Len(mix) |-> [txt |-> Pool[mix[j][1]].txt, coef |-> mix[j][2]]]],
             exp |-> [num |-> [j \in 1..Len(mix) |-> Num(j)], den |-> Total],
             cls |-> "n" \o ToString(Len(mix)) ]
Emit == Done => PrintT(<<"CASE", ToJson(CaseRec)>>)
=============================================================================
