INIT Init
NEXT Next
CONSTANTS
  MaxEntries = 2
  Coefs = {1, 2, 3}
INVARIANT AllPositiveFractions
INVARIANT SumIsTotal
INVARIANT Proportional
INVARIANT HasEqualProducts
INVARIANT Emit
CHECK_DEADLOCK FALSE
