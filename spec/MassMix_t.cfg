INIT Init
NEXT Next
CONSTANTS
  MaxEntries = 4
  Coefs = {1, 2, 7}
INVARIANT AllPositiveFractions
INVARIANT SumIsTotal
INVARIANT Proportional
INVARIANT Emit
CHECK_DEADLOCK FALSE
