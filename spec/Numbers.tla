---------------------------- MODULE Numbers ----------------------------
(* Printed numbers denote the value they were given (property C20).                           *)
(*                                                                                            *)
(* A value is an exact decimal (Decimal.tla: sign, digit sequence, exponent).  The machine    *)
(* chooses a value, a precision and a presentation and produces an abstract OBSERVATION - the *)
(* pieces a reader sees: sign, printed digits, number of decimals, an optional power of ten,  *)
(* whether the significand is omitted, the unit text after the number.  The property is       *)
(* stated on observations (NumberOK, UncertOK, RomanOK): the observation, read back as        *)
(* significand times ten to the exponent, lies within half a unit of the requested digit of   *)
(* the value.  The same predicates judge                                                      *)
(*   - the machine's own output (invariants ModelNumberDenotes / ModelUncertDenotes /         *)
(*     RomanGreedyDenotes: the constructive rounding satisfies the declarative property),     *)
(*   - observations lexed from the strings chempy prints (NumbersTrace.tla).                  *)
(* It is NOT string equality: any presentation that denotes the value correctly is accepted.  *)
EXTENDS Integers, Sequences, FiniteSets, TLC, Json, Decimal

CONSTANTS
    SliceTable,   \* slice name -> record of the alphabets the inputs of that slice are drawn from
    SliceNames    \* the slices explored in this run

VARIABLES stage, mode, x, n, xe, p, unit, out, rn, rrem, rsyms, conv, usrc, opt, sl

vars == <<stage, mode, x, n, xe, p, unit, out, rn, rrem, rsyms, conv, usrc, opt, sl>>

SliceRec == SliceTable[sl]
Signs == SliceRec.Signs        \* subset of BOOLEAN (TRUE = negative)
Sigs == SliceRec.Sigs          \* normalised digit sequences (significands)
Exps == SliceRec.Exps          \* decades
Precs == SliceRec.Precs        \* requested significant digits
UncSigs == SliceRec.UncSigs    \* digit sequences of uncertainties
UncOffs == SliceRec.UncOffs    \* decades below the value's decade at which the uncertainty sits
UncPrecs == SliceRec.UncPrecs  \* requested digits of the uncertainty
Units == SliceRec.Units        \* unit texts ("" = none)
Convs == SliceRec.Convs        \* subset of ConvTable: conversions to a requested display unit
UncSrcs == SliceRec.UncSrcs    \* subset of {"arg", "attr"}: uncertainty passed / carried by the number itself
RomanMax == SliceRec.RomanMax  \* Roman numerals 1..RomanMax (0 = none)
Opts == SliceRec.Opts          \* option records (see DefaultOpt) other than the default

None == [none |-> TRUE]

(* display in another unit: the number is given in unit `from` and its printing is requested in unit   *)
(* `to`; the printed value and uncertainty denote the given ones times the exact factor 10^k.          *)
(* 10^k times the natural number m (m = 1 for the decimal conversions; time units need 60 and 3600).    *)
CVm(f, t, k, m) == [from |-> f, to |-> t, k |-> k, m |-> m]
CV(f, t, k) == CVm(f, t, k, 1)
NoConv == CV("", "", 0)
ConvTable == { CV("km", "m", 3), CV("m", "km", -3), CV("m", "cm", 2), CV("cm", "m", -2), CV("mm", "m", -3),
               CV("m3/mol/s", "1/M/s", 3), CV("1/M/s", "m3/mol/s", -3), CV("M", "mol/m3", 3),
               CV("mol/m3", "M", -3), CV("kJ/mol", "J/mol", 3), CV("g", "kg", -3), CV("kg", "g", 3),
               CV("ms", "s", -3), CVm("hour", "s", 0, 3600), CVm("min", "s", 0, 60), CVm("hour", "min", 0, 60),
               CVm("hour", "ms", 3, 3600), CV("s", "ms", 3), CV("km", "cm", 5),
               \* pure numbers in scaled ratio units: dimensionless, but the unit still says what the number counts
               \* ("1" = the dimensionless unit, percent = 1/100, mM/M = 1/1000, cm/m = 1/100, mm/km = 1/10^6)
               CV("1", "percent", 2), CV("percent", "1", -2), CV("mM/M", "percent", -1), CV("percent", "mM/M", 1),
               CV("cm/m", "percent", 0), CV("mM/M", "1", -3), CV("1", "mM/M", 3), CV("mm/km", "mM/M", -3),
               CV("cm/m", "mm/km", 4) }
RatioUnits == {"1", "percent", "mM/M", "cm/m", "mm/km"}
ConvOf(f, t) == CHOOSE c \in ConvTable : c.from = f /\ c.to = t

(* options of the call that must not change what is denoted:                                          *)
(*   api    "number" (number_to_scientific_*, and the reaction printers built on them: default        *)
(*          precision 5, with uncertainty 2) | "rxnstring" (Reaction.string: default precision 3)     *)
(*   impl   the precision argument is left out: the documented default applies                        *)
(*   fsty   "g" (integer precision, %g presentation) | "e" (a caller-supplied formatter that always    *)
(*          writes n digits and a power of ten)                                                       *)
(*   xty    type of the number handed over: "float" | "int" | "npfloat" | "nparray" | "npint"          *)
(*   uname  the unit the number is expressed in, when it matters ("" otherwise)                        *)
(*   ucv    the uncertainty is expressed in another unit than the display unit: its conversion         *)
(*   tbl    api "table" (as_per_substance_html_table: one printed number per substance row): how the      *)
(*          container of values is ordered relative to the substances - "same" | "reversed" | "rotated"  *)
(*          | "extra" (a dict with further keys) | "list" (values by position); "" otherwise           *)
(*   pset   printer settings of Reaction.string away from their defaults: "unitfmt" (a caller-supplied   *)
(*          unit_fmt), "sep" (another Reaction_param_separator), "named" (with_name=True on a named      *)
(*          reaction: the name follows the parameter); "" otherwise                                     *)
DefaultOpt == [api |-> "number", impl |-> FALSE, fsty |-> "g", xty |-> "float", uname |-> "", ucv |-> NoConv, tbl |-> "", pset |-> ""]
DefaultPrec(api) == IF api = "rxnstring" THEN 3 ELSE 5
DefaultUncPrec == 2

------------------------------------------------------------------------------
(* observations *)
\* plain number: [neg, digs, ndec, omitted, hasexp, exp]
\*   digs = every printed digit of the significand (or of the fixed-point number), ndec of them
\*   after the point; omitted = no significand printed (then digs = <<>>, no sign)
NumDenoted(o) ==
    IF o.omitted THEN Dec(FALSE, <<1>>, o.exp)
    ELSE DNorm(Dec(o.neg, o.digs, Len(o.digs) - o.ndec - 1 + (IF o.hasexp THEN o.exp ELSE 0)))

\* the rounded significand is exactly 1 (for some faithful rounding)
RoundsToOne(v, k) == \E r \in RoundSigSet(v, k) : r.digs = <<1>>

\* C20, first sentence.  slack = TRUE allows for the binary representation of a float input.
NumberOK(o, v, k, slack) ==
    /\ (o.omitted \/ o.digs # <<>>)
    /\ IF slack THEN WithinHalfUlp(NumDenoted(o), v, k) ELSE WithinHalfUlpExact(NumDenoted(o), v, k)
    /\ (o.omitted => (o.hasexp /\ RoundsToOne(v, k) /\ ~v.neg))
NumberClause(o, v, k, slack) ==
    IF ~(o.omitted \/ o.digs # <<>>) THEN "no-digits"
    ELSE IF o.omitted /\ ~(o.hasexp /\ RoundsToOne(v, k) /\ ~v.neg) THEN "omitted-not-one"
    ELSE IF ~NumberOK(o, v, k, slack) THEN "not-within-half-unit"
    ELSE ""

\* the %g presentation of a value rounded to k digits: fixed notation for decades -4..k-1,
\* scientific otherwise; trailing zeros are not written; a scientific significand that is
\* exactly 1 is not written ("10^5")
GStyle(r, k) == IF r.e < -4 \/ r.e >= k THEN "sci" ELSE "fixed"
\* a formatter that always writes k digits and a power of ten ("%.{k-1}e"); the significand is
\* omitted when it reads "1" or "1.0"
PresentE(v, k) ==
    LET r == RoundSig(v, k) IN
    IF r.digs = <<1>> /\ k <= 2 /\ ~r.neg
    THEN [neg |-> FALSE, digs |-> <<>>, ndec |-> 0, omitted |-> TRUE, hasexp |-> TRUE, exp |-> r.e]
    ELSE [neg |-> r.neg, digs |-> PadDigits(r.digs, k), ndec |-> k - 1, omitted |-> FALSE, hasexp |-> TRUE, exp |-> r.e]
Present(v, k) ==
    LET r == RoundSig(v, k)
        st == GStyle(r, k)
        L == Len(r.digs)
    IN  IF st = "sci"
        THEN IF r.digs = <<1>> /\ ~r.neg
             THEN [neg |-> FALSE, digs |-> <<>>, ndec |-> 0, omitted |-> TRUE, hasexp |-> TRUE, exp |-> r.e]
             ELSE [neg |-> r.neg, digs |-> r.digs, ndec |-> L - 1, omitted |-> FALSE, hasexp |-> TRUE, exp |-> r.e]
        ELSE IF r.e >= 0
             THEN [neg |-> r.neg, digs |-> PadDigits(r.digs, MaxInt(L, r.e + 1)), ndec |-> MaxInt(0, L - r.e - 1),
                   omitted |-> FALSE, hasexp |-> FALSE, exp |-> 0]
             ELSE [neg |-> r.neg, digs |-> [i \in 1..(-r.e) |-> 0] \o r.digs, ndec |-> L - r.e - 1,
                   omitted |-> FALSE, hasexp |-> FALSE, exp |-> 0]

------------------------------------------------------------------------------
(* value with uncertainty in parenthesis notation: 3.14(3), 9.9975(35)e15, 1234(100)        *)
\* observation: [neg, digs, ndec, udigs, hasexp, exp, len]
\*   digs/ndec: the nominal value as printed; udigs: the digits in the parenthesis, counting
\*   units of the last printed digit of the nominal value; len: characters of the number text
UExp(u, k) == u.e - k + 1                                  \* power of ten of the uncertainty's last kept digit
ULastPos(o) == (IF o.hasexp THEN o.exp ELSE 0) - o.ndec     \* power of ten of the last printed nominal digit
UNominal(o) == DNorm(Dec(o.neg, o.digs, Len(o.digs) - 1 + ULastPos(o)))
UUncert(o) == DNorm(Dec(FALSE, o.udigs, Len(o.udigs) - 1 + ULastPos(o)))

\* lengths of the two layouts for a nominal N and uncertainty U kept at 10^ue
IntDigits(N, E) == MaxInt(1, N.e - E + 1)                   \* digits before the point of N / 10^E
LenPlain(N, U, ue) ==
    (IF N.neg THEN 1 ELSE 0) + IntDigits(N, 0) + (IF ue < 0 THEN 1 - ue ELSE 0)
    + 2 + (IF ue < 0 THEN U.e - ue + 1 ELSE U.e + 1)
LenExp(N, U, ue, E) ==
    (IF N.neg THEN 1 ELSE 0) + IntDigits(N, E) + (IF E - ue > 0 THEN 1 + E - ue ELSE 0)
    + 2 + (U.e - ue + 1) + 1 + SignedIntLen(E)

\* an integer printed in full ("%.0f" of a float) is a multiple of 10^pos up to the binary allowance
NearMultiple(d, pos, ref, slack) ==
    \/ IsMultipleOfPow10(d, pos)
    \/ slack /\ d.digs # <<>> /\ d.e >= pos /\ WithinTol(d, RoundAt(d, pos), <<BinSlack(ref)>>)
UncertOK(o, v, u, k, slack) ==
    LET ue == UExp(u, k)
        N == UNominal(o)
        U == UUncert(o)
        tolv == IF slack THEN <<HalfAt(ue), BinSlack(v)>> ELSE <<HalfAt(ue)>>
        tolu == IF slack THEN <<HalfAt(ue), BinSlack(u)>> ELSE <<HalfAt(ue)>>
    IN  /\ o.digs # <<>> /\ o.udigs # <<>>
        \* the nominal value is the value rounded at the uncertainty's last kept digit
        /\ WithinTol(N, v, tolv)
        \* the uncertainty is given to the requested digits
        /\ WithinTol(U, u, tolu)
        \* ... and both are written down to exactly that digit
        /\ IF o.hasexp \/ ue <= 0 THEN ULastPos(o) = ue
           ELSE ULastPos(o) = 0 /\ NearMultiple(N, ue, v, slack) /\ NearMultiple(U, ue, u, slack)
        \* whichever of the plain and the exponent form is shorter
        /\ IF o.hasexp THEN o.len <= LenPlain(N, U, ue)
           ELSE \E E \in {v.e, N.e} : o.len <= LenExp(N, U, ue, E)
UncertClause(o, v, u, k, slack) ==
    LET ue == UExp(u, k)
        N == UNominal(o)
        U == UUncert(o)
        tolv == IF slack THEN <<HalfAt(ue), BinSlack(v)>> ELSE <<HalfAt(ue)>>
        tolu == IF slack THEN <<HalfAt(ue), BinSlack(u)>> ELSE <<HalfAt(ue)>>
    IN  IF o.digs = <<>> \/ o.udigs = <<>> THEN "no-digits"
        ELSE IF ~WithinTol(N, v, tolv) THEN "nominal-off"
        ELSE IF ~WithinTol(U, u, tolu) THEN "uncertainty-off"
        ELSE IF ~(IF o.hasexp \/ ue <= 0 THEN ULastPos(o) = ue
                  ELSE ULastPos(o) = 0 /\ NearMultiple(N, ue, v, slack) /\ NearMultiple(U, ue, u, slack))
             THEN "last-digit-position"
        ELSE IF ~UncertOK(o, v, u, k, slack) THEN "not-the-shorter-layout"
        ELSE ""

\* the two layouts the specification constructs, and the one it chooses
UncertLayouts(v, u, k) ==
    LET ue == UExp(u, k)
        N == RoundAt(v, ue)
        U == RoundAt(u, ue)
        E == N.e
        \* all digits of a number down to 10^pos, as printed with at least one integer digit
        digitsTo(d, top, pos) == [i \in 1..(top - pos + 1) |-> DigitAt(d, top - i + 1)]
        plainPos == MinInt(ue, 0)
        plain == [neg |-> N.neg, digs |-> digitsTo(N, MaxInt(N.e, 0), plainPos), ndec |-> -plainPos,
                  udigs |-> digitsTo(U, U.e, plainPos), hasexp |-> FALSE, exp |-> 0,
                  len |-> LenPlain(N, U, ue)]
        expo  == [neg |-> N.neg, digs |-> digitsTo(N, E, ue), ndec |-> E - ue,
                  udigs |-> digitsTo(U, U.e, ue), hasexp |-> TRUE, exp |-> E,
                  len |-> LenExp(N, U, ue, E)]
    IN  [plain |-> plain, expo |-> expo,
         chosen |-> IF plain.len <= expo.len THEN plain ELSE expo]

------------------------------------------------------------------------------
(* Roman numerals: greedy machine and the subtractive-pair denotation *)
RomanTokens == <<
    [s |-> <<"M">>, v |-> 1000], [s |-> <<"C", "M">>, v |-> 900], [s |-> <<"D">>, v |-> 500],
    [s |-> <<"C", "D">>, v |-> 400], [s |-> <<"C">>, v |-> 100], [s |-> <<"X", "C">>, v |-> 90],
    [s |-> <<"L">>, v |-> 50], [s |-> <<"X", "L">>, v |-> 40], [s |-> <<"X">>, v |-> 10],
    [s |-> <<"I", "X">>, v |-> 9], [s |-> <<"V">>, v |-> 5], [s |-> <<"I", "V">>, v |-> 4],
    [s |-> <<"I">>, v |-> 1] >>
RomanSymbols == {"I", "V", "X", "L", "C", "D", "M"}
SymValue(c) == CASE c = "I" -> 1 [] c = "V" -> 5 [] c = "X" -> 10 [] c = "L" -> 50
                 [] c = "C" -> 100 [] c = "D" -> 500 [] c = "M" -> 1000 [] OTHER -> 0
\* a symbol standing before a larger one is subtracted, every other symbol is added
RECURSIVE RomanValueFrom(_, _)
RomanValueFrom(s, i) ==
    IF i > Len(s) THEN 0
    ELSE (IF i < Len(s) /\ SymValue(s[i]) < SymValue(s[i + 1]) THEN -SymValue(s[i]) ELSE SymValue(s[i]))
         + RomanValueFrom(s, i + 1)
RomanValue(s) == RomanValueFrom(s, 1)
RomanOK(s, k) == /\ s # <<>> /\ \A i \in 1..Len(s) : s[i] \in RomanSymbols
                 /\ RomanValue(s) = k
GreedyToken(r) == RomanTokens[CHOOSE i \in 1..Len(RomanTokens) :
                        /\ RomanTokens[i].v <= r
                        /\ \A j \in 1..(i - 1) : RomanTokens[j].v > r]

------------------------------------------------------------------------------
\* the value / uncertainty in the display unit
Scaled(v, c) == LET w == IF c.m = 1 THEN v ELSE DScale(v, c.m) IN Dec(w.neg, w.digs, w.e + c.k)
Shown(v) == Scaled(v, conv)
\* the uncertainty may be expressed in a unit of its own
ShownU(v) == IF opt.ucv = NoConv THEN Scaled(v, conv) ELSE Scaled(v, opt.ucv)
DisplayName == IF conv # NoConv THEN conv.to ELSE opt.uname

Init ==
    /\ stage = "start" /\ mode = "none" /\ x = DZero /\ n = 0 /\ xe = DZero /\ p = 0
    /\ unit = "" /\ out = None /\ rn = 0 /\ rrem = 0 /\ rsyms = <<>> /\ conv = NoConv /\ usrc = ""
    /\ opt = DefaultOpt /\ sl \in SliceNames

ChooseValue(v) ==
    /\ stage = "start" /\ IsNorm(v) /\ v.digs # <<>>
    /\ x' = v /\ stage' = "value"
    /\ UNCHANGED <<mode, n, xe, p, unit, out, rn, rrem, rsyms, conv, usrc, opt, sl>>

WithUnit(u) ==
    /\ stage = "value" /\ unit = "" /\ u # ""
    /\ unit' = u
    /\ UNCHANGED <<stage, mode, x, n, xe, p, out, rn, rrem, rsyms, conv, usrc, opt, sl>>

\* options of the call (see DefaultOpt)
IsIntegral(v) == LastPos(v) >= 0 /\ v.e <= 17
Options(o) ==
    /\ stage = "value" /\ opt = DefaultOpt /\ o # DefaultOpt /\ conv = NoConv /\ unit = ""
    /\ o.api \in {"number", "rxnstring", "table"} /\ o.fsty \in {"g", "e"} /\ o.impl \in BOOLEAN
    \* ("uq": a quantity that carries an uncertainty, as parameter of a printed reaction: value and unit are shown)
    /\ o.xty \in {"float", "int", "npfloat", "nparray", "npint", "uq"}
    /\ (o.xty = "uq" => (o.uname # "" /\ (o.api = "rxnstring" \/ (o.api = "number" /\ o.impl)) /\ o.ucv = NoConv))
    \* ("alias": the substances mapping is keyed by aliases that differ from the substance names;
    \*  "nosubst": no substances mapping is given, the rows follow the container)
    /\ o.tbl \in {"", "same", "reversed", "rotated", "extra", "list", "alias", "nosubst"}
    /\ o.pset \in {"", "unitfmt", "sep", "named"} /\ (o.pset # "" => o.api = "rxnstring")
    /\ ((o.tbl # "") <=> (o.api = "table"))
    /\ (o.api = "table" => (o.impl /\ o.fsty = "g" /\ o.ucv = NoConv /\ o.xty \in {"float", "npfloat"}))
    /\ (o.xty \in {"int", "npint"} => IsIntegral(x))
    /\ (o.fsty = "e" => (o.api = "number" /\ ~o.impl))
    /\ (o.ucv = NoConv \/ o.ucv \in ConvTable)
    /\ opt' = o
    /\ UNCHANGED <<stage, mode, x, n, xe, p, unit, out, rn, rrem, rsyms, conv, usrc, sl>>

\* the number is to be shown in another unit of the same dimension
ConvertTo(f, t) ==
    /\ stage = "value" /\ conv = NoConv /\ opt.uname \in {"", f} /\ opt.api = "number"
    /\ \E c \in ConvTable : c.from = f /\ c.to = t /\ conv' = c
    /\ UNCHANGED <<stage, mode, x, n, xe, p, unit, out, rn, rrem, rsyms, usrc, opt, sl>>

ChoosePrecision(k) ==
    /\ stage = "value" /\ k >= 1
    /\ (opt.impl => k = DefaultPrec(opt.api))
    /\ n' = k /\ mode' = "number" /\ stage' = "prec"
    /\ UNCHANGED <<x, xe, p, unit, out, rn, rrem, rsyms, conv, usrc, opt, sl>>

Format ==
    /\ stage = "prec" /\ mode = "number"
    /\ out' = (IF opt.fsty = "e" THEN PresentE(Shown(x), n) ELSE Present(Shown(x), n)) /\ stage' = "done"
    /\ UNCHANGED <<mode, x, n, xe, p, unit, rn, rrem, rsyms, conv, usrc, opt, sl>>

\* uncertainty: positive, at most half the magnitude of the value
ChooseUncert(u, k, src) ==
    /\ stage = "value" /\ k >= 1 /\ src \in {"arg", "attr"} /\ usrc' = src /\ opt.xty # "uq"
    /\ (opt.impl => k = DefaultUncPrec) /\ opt.fsty = "g" /\ opt.api = "number"
    /\ (opt.ucv # NoConv => (src = "arg" /\ DisplayName # "" /\ opt.ucv.to = DisplayName)) /\ IsNorm(u) /\ u.digs # <<>> /\ ~u.neg
    /\ LET su == ShownU(u)  sx == Shown(x) IN
       WithinTol(su, DNeg(su), <<Dec(FALSE, sx.digs, sx.e)>>)       \* 2 u <= |x| (in the display unit)
    /\ xe' = u /\ p' = k /\ mode' = "uncert" /\ stage' = "unc"
    /\ UNCHANGED <<x, n, unit, out, rn, rrem, rsyms, conv, opt, sl>>

FormatUncert ==
    /\ stage = "unc" /\ mode = "uncert"
    /\ out' = UncertLayouts(Shown(x), ShownU(xe), p) /\ stage' = "done"
    /\ UNCHANGED <<mode, x, n, xe, p, unit, rn, rrem, rsyms, conv, usrc, opt, sl>>

RomanChoose(k, ty) ==
    /\ stage = "start" /\ k >= 1 /\ ty \in {"int", "npint"}
    /\ rn' = k /\ rrem' = k /\ rsyms' = <<>> /\ mode' = "roman" /\ stage' = "roman"
    /\ opt' = [DefaultOpt EXCEPT !.xty = ty]
    /\ UNCHANGED <<x, n, xe, p, unit, out, conv, usrc, sl>>

RomanStep ==
    /\ stage = "roman" /\ rrem > 0
    /\ LET t == GreedyToken(rrem) IN rsyms' = rsyms \o t.s /\ rrem' = rrem - t.v
    /\ UNCHANGED <<stage, mode, x, n, xe, p, unit, out, rn, conv, usrc, opt, sl>>

RomanFinish ==
    /\ stage = "roman" /\ rrem = 0
    /\ stage' = "done"
    /\ UNCHANGED <<mode, x, n, xe, p, unit, out, rn, rrem, rsyms, conv, usrc, opt, sl>>

\* (the stage guard stands before the quantifier so that TLC does not enumerate the alphabet in every state)
GenValue == stage = "start" /\ \E s \in Signs, d \in Sigs, e \in Exps : ChooseValue(Dec(s, d, e))
GenUnit == stage = "value" /\ \E u \in Units : WithUnit(u)
GenPrecision == stage = "value" /\ \E k \in Precs : ChoosePrecision(k)
GenUncert == stage = "value" /\ \E d \in UncSigs, o \in UncOffs, k \in UncPrecs, src \in UncSrcs :
                 ChooseUncert(Dec(FALSE, d, x.e - o), k, src)
GenOptions == stage = "value" /\ \E o \in Opts : Options(o)
GenConvert == stage = "value" /\ \E c \in Convs : ConvertTo(c.from, c.to)
GenRoman == stage = "start" /\ \E k \in 1..RomanMax, ty \in SliceRec.RomanTypes : RomanChoose(k, ty)

Next == GenValue \/ GenOptions \/ GenUnit \/ GenConvert \/ GenPrecision \/ Format \/ GenUncert \/ FormatUncert
        \/ GenRoman \/ RomanStep \/ RomanFinish

Spec == Init /\ [][Next]_vars

------------------------------------------------------------------------------
(* invariants *)
Done == stage = "done"
TypeOK == stage \in {"start", "value", "prec", "unc", "roman", "done"}
          /\ mode \in {"none", "number", "uncert", "roman"}

\* rounding either stays in the decade or carries into the next one, where it is a power of ten
RoundCarries ==
    (stage \in {"prec", "done"} /\ mode = "number") =>
        LET r == RoundSig(Shown(x), n) IN
        /\ r.e \in {Shown(x).e, Shown(x).e + 1}
        /\ (r.e = Shown(x).e + 1 => r.digs = <<1>>)
        /\ Len(r.digs) <= n
        /\ WithinHalfUlpExact(r, Shown(x), n)
        /\ \A a \in RoundSigSet(Shown(x), n) : WithinHalfUlpExact(a, Shown(x), n)

\* the machine's own presentation satisfies the property, and denotes exactly the rounded value
ModelNumberDenotes ==
    (Done /\ mode = "number") =>
        /\ NumberOK(out, Shown(x), n, FALSE)
        /\ NumDenoted(out) = RoundSig(Shown(x), n)
OmittedOnlyIfOne ==
    (Done /\ mode = "number") =>
        /\ (out.omitted => (out.hasexp /\ RoundSig(Shown(x), n).digs = <<1>> /\ ~x.neg))
        /\ (opt.fsty = "g" => ((out.hasexp /\ RoundSig(Shown(x), n).digs = <<1>> /\ ~x.neg) => out.omitted))

ModelUncertDenotes ==
    (Done /\ mode = "uncert") =>
        /\ UncertOK(out.chosen, Shown(x), ShownU(xe), p, FALSE)
        /\ UNominal(out.plain) = UNominal(out.expo) /\ UUncert(out.plain) = UUncert(out.expo)
        /\ out.chosen.len = MinInt(out.plain.len, out.expo.len)

RomanGreedyDenotes ==
    /\ (mode = "roman" => RomanValue(rsyms) + rrem = rn)
    /\ ((Done /\ mode = "roman") => RomanOK(rsyms, rn))

------------------------------------------------------------------------------
(* case export *)
DecJ(d) == [neg |-> d.neg, digs |-> d.digs, e |-> d.e]
SetSeq(S) == LET RECURSIVE f(_)
                 f(T) == IF T = {} THEN <<>> ELSE LET a == CHOOSE b \in T : TRUE IN <<a>> \o f(T \ {a})
             IN f(S)
Class ==
    IF mode = "number"
    THEN "num-" \o GStyle(RoundSig(Shown(x), n), n) \o (IF CarriesDecade(Shown(x), n) THEN "-carry" ELSE "")
         \o (IF IsTie(Shown(x), n) THEN "-tie" ELSE "") \o (IF out.omitted THEN "-one" ELSE "")
         \o (IF x.neg THEN "-neg" ELSE "") \o (IF unit # "" THEN "-unit" ELSE "")
         \o (IF opt # DefaultOpt THEN "-opt" ELSE "") \o (IF opt.impl THEN "-impl" ELSE "")
         \o (IF opt.fsty = "e" THEN "-e" ELSE "") \o (IF opt.xty # "float" THEN "-" \o opt.xty ELSE "")
         \o (IF opt.api # "number" THEN "-" \o opt.api ELSE "") \o (IF opt.tbl # "" THEN "-" \o opt.tbl ELSE "")
         \o (IF opt.pset # "" THEN "-" \o opt.pset ELSE "")
         \o (IF DisplayName \in RatioUnits THEN "-ratio" ELSE "")
         \o (IF conv # NoConv THEN "-conv" ELSE "")
    ELSE IF mode = "uncert"
    THEN "unc-" \o (IF out.chosen.hasexp THEN "exp" ELSE "plain")
         \o (IF RoundAt(Shown(x), UExp(ShownU(xe), p)).e > Shown(x).e THEN "-carry" ELSE "")
         \o (IF RoundAt(ShownU(xe), UExp(ShownU(xe), p)).e > ShownU(xe).e THEN "-ucarry" ELSE "")
         \o (IF UExp(ShownU(xe), p) > 0 THEN "-int" ELSE "") \o (IF x.neg THEN "-neg" ELSE "")
         \o (IF conv # NoConv THEN "-conv" ELSE "") \o "-" \o usrc
         \o (IF opt.impl THEN "-impl" ELSE "") \o (IF opt.ucv # NoConv THEN "-ucv" ELSE "")
         \o (IF opt.xty # "float" THEN "-" \o opt.xty ELSE "")
         \o (IF DisplayName \in RatioUnits THEN "-ratio" ELSE "")
    ELSE "roman"
CaseRec ==
    IF mode = "number"
    THEN [in |-> [mode |-> mode, x |-> DecJ(x), n |-> n, unit |-> unit, conv |-> conv, opt |-> opt, slice |-> sl], cls |-> Class,
          exp |-> [allowed |-> SetSeq({DecJ(r) : r \in RoundSigSet(Shown(x), n) \cup {Shown(x)}}),   \* (more digits than asked for denote the value too)
                   omit_ok |-> (RoundsToOne(Shown(x), n) /\ ~x.neg), model |-> out]]
    ELSE IF mode = "uncert"
    THEN [in |-> [mode |-> mode, x |-> DecJ(x), xe |-> DecJ(xe), p |-> p, unit |-> unit, conv |-> conv, usrc |-> usrc, opt |-> opt, slice |-> sl], cls |-> Class,
          exp |-> [ue |-> UExp(ShownU(xe), p),
                   nominal |-> SetSeq({DecJ(r) : r \in RoundAtSet(Shown(x), UExp(ShownU(xe), p))}),
                   uncert |-> SetSeq({DecJ(r) : r \in RoundAtSet(ShownU(xe), UExp(ShownU(xe), p))}),
                   model |-> out.chosen]]
    ELSE [in |-> [mode |-> mode, n |-> rn, opt |-> opt, slice |-> sl], cls |-> Class, exp |-> [syms |-> rsyms]]
Emit == Done => PrintT(<<"CASE", ToJson(CaseRec)>>)
=============================================================================
