INIT TInit
NEXT TNext
CONSTANTS
  Signs = {}
  Sigs = {}
  Exps = {}
  Precs = {}
  UncSigs = {}
  UncOffs = {}
  UncPrecs = {}
  Units = {}
  Convs = {}
  UncSrcs = {"arg"}
  RomanMax = 0
INVARIANT Verdict
INVARIANT ModelNumberDenotes
INVARIANT ModelUncertDenotes
CHECK_DEADLOCK FALSE
