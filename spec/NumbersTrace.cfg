INIT TInit
NEXT TNext
CONSTANTS
  SliceTable <- TraceTable
  SliceNames = {"trace"}
INVARIANT Verdict
INVARIANT ModelNumberDenotes
INVARIANT ModelUncertDenotes
CHECK_DEADLOCK FALSE
