---------------------------- MODULE NumbersTrace ----------------------------
(* Trace validation for Numbers (C20).  A trace is the input of one formatting call (value as *)
(* the exact decimal of repr(float), precision / uncertainty, unit text) followed by the      *)
(* observation a small lexer in the harness un-presented from the printed string (sign,       *)
(* printed digits, decimals, power of ten, significand omitted?, unit text after the number). *)
(* The input events drive the actions of Numbers; the result is judged by the property        *)
(* predicates NumberOK / UncertOK / RomanOK (with the binary-representation allowance), not   *)
(* by comparison with the string the specification itself would have produced.                *)
EXTENDS Numbers, IOUtils

Traces == JsonDeserialize(IOEnv.TRACE_FILE)

VARIABLES tid, pos, verdict
tvars == <<vars, tid, pos, verdict>>

Ev == Traces[tid][pos]
D(r) == Dec(r.neg, r.digs, r.e)

OptOf(o) == [api |-> o.api, impl |-> o.impl, fsty |-> o.fsty, xty |-> o.xty, uname |-> o.uname, tbl |-> o.tbl, pset |-> o.pset,
             ucv |-> IF o.ucv.from = "" THEN NoConv ELSE ConvOf(o.ucv.from, o.ucv.to)]
TraceSlice == [Signs |-> {}, Sigs |-> {}, Exps |-> {}, Precs |-> {}, UncSigs |-> {}, UncOffs |-> {}, UncPrecs |-> {},
               Units |-> {}, Convs |-> {}, UncSrcs |-> {}, RomanMax |-> 0, Opts |-> {}, RomanTypes |-> {}]
TraceTable == [nm \in {"trace"} |-> TraceSlice]

TInit == Init /\ tid \in 1..Len(Traces) /\ pos = 1 /\ verdict = "none"

Step(e) ==
    CASE e.k = "value"   -> ChooseValue(D(e.x))
      [] e.k = "unit"    -> WithUnit(e.u)
      [] e.k = "prec"    -> ChoosePrecision(e.n)
      [] e.k = "format"  -> Format
      [] e.k = "uncert"  -> ChooseUncert(D(e.xe), e.p, e.src)
      [] e.k = "convert" -> ConvertTo(e.from, e.to)
      [] e.k = "formatu" -> FormatUncert
      [] e.k = "roman"   -> RomanChoose(e.n, e.ty)
      [] e.k = "options" -> Options(OptOf(e.o))
      [] OTHER           -> FALSE

ObsClause(o) ==
    IF mode = "roman" THEN (IF RomanOK(o.syms, rn) THEN "" ELSE "roman-value")
    ELSE IF ~o.lexed THEN "not-number-then-unit"
    ELSE IF o.unit # unit THEN "unit-text"
    ELSE IF mode = "number" THEN NumberClause(o, Shown(x), n, TRUE)
    ELSE IF mode = "uncert" THEN (IF o.hasu THEN UncertClause(o, Shown(x), ShownU(xe), p, TRUE) ELSE "no-uncertainty-shown")
    ELSE "mode"

ResultOK(e) ==
    /\ (stage = "done" \/ (stage = "roman" /\ mode = "roman"))
    /\ ObsClause(e.obs) = ""

TStep ==
    /\ verdict = "none" /\ pos <= Len(Traces[tid])
    /\ IF Ev.k = "result"
       THEN ResultOK(Ev) /\ verdict' = "accept" /\ UNCHANGED vars
       ELSE Step(Ev) /\ verdict' = "none"
    /\ pos' = pos + 1 /\ UNCHANGED tid

TReject ==
    /\ verdict = "none" /\ ~ENABLED TStep
    /\ verdict' = "reject" /\ UNCHANGED <<vars, tid, pos>>

TNext == TStep \/ TReject

Clause ==
    IF pos > Len(Traces[tid]) THEN "no-result-event"
    ELSE LET e == Ev IN
      IF e.k # "result" THEN "step:" \o e.k
      ELSE IF ~(stage = "done" \/ (stage = "roman" /\ mode = "roman")) THEN "notdone"
      ELSE ObsClause(e.obs)

Verdict == verdict # "none" =>
    PrintT(<<"VERDICT", tid, verdict, pos, IF verdict = "accept" THEN "" ELSE Clause>>)
=============================================================================
