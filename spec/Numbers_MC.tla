---------------------------- MODULE Numbers_MC ----------------------------
(* Constant definitions for the sliced exhaustive configurations of Numbers.               *)
EXTENDS Numbers

D19 == 1..9
\* every normalised significand of at most 1, 2, 3 digits
Sig1 == { <<a>> : a \in D19 }
Sig2 == Sig1 \cup { <<a, b>> : a \in D19, b \in D19 }
Sig3 == Sig2 \cup { <<a, b, c>> : a \in D19, b \in 0..9, c \in D19 }
\* boundary significands: ones, ties, all-nines carries, 9.9996
SigEdge == { <<1>>, <<2>>, <<5>>, <<1, 5>>, <<2, 5>>, <<9, 5>>, <<9, 9>>, <<1, 2, 5>>, <<9, 9, 5>>,
             <<9, 9, 9>>, <<1, 0, 4>>, <<9, 9, 9, 9, 6>>, <<1, 0, 0, 0, 4>>, <<1, 2, 3, 4, 5, 6>> }
SigUnc == { <<1>>, <<1, 5>>, <<9, 9, 9, 6>>, <<3, 1, 4, 1, 6>>, <<1, 2, 3, 4, 5, 6, 7, 8, 9>>, <<9, 9, 7, 5, 2>>, <<9, 5>>, <<5>> }
USig == { <<1>>, <<2, 9>>, <<3, 4, 9>>, <<9, 9, 6>>, <<9, 5>>, <<2, 5>>, <<5>>, <<4, 4, 4>> }

SigCover == { <<1>>, <<9, 9, 6>>, <<1, 2, 5>> }
USigCover == { <<2, 9>>, <<9, 9, 6>> }
ExpCover == {-5, 0, 3}
ExpSmall == -6..6
ExpAll == -300..300
ExpStep == { -300 + 25 * i : i \in 0..24 } \cup {-5, -4, -1, 0, 1, 2, 3, 4, 5, 6, 15, 16, 17, 22, 23, 99, 100, -100, -99, 299, 300, -299}
ExpUnc == {-300, -5, 0, 3, 15, 100}
ExpUncT == {-300, -100, -10, -5, -1, 0, 3, 9, 15, 100, 300}
SigConv == { <<3, 1, 5>>, <<9, 9, 9, 6>>, <<3, 1, 4, 1, 6>> }
USigConv == { <<2, 9>>, <<1, 7, 9>> }
ExpConv == {-3, 0, 2}
ConvAll == ConvTable
ConvTwo == { CV("km", "m", 3), CV("1/M/s", "m3/mol/s", -3) }
Both == {FALSE, TRUE}
Pos == {FALSE}
=============================================================================
