---------------------------- MODULE Numbers_MC ----------------------------
(* Constant definitions for the sliced exhaustive configurations of Numbers.               *)
EXTENDS Numbers

D19 == 1..9
\* every normalised significand of at most 1, 2, 3 digits
Sig1 == { <<a>> : a \in D19 }
Sig2 == Sig1 \cup { <<a, b>> : a \in D19, b \in D19 }
Sig3 == Sig2 \cup { <<a, b, c>> : a \in D19, b \in 0..9, c \in D19 }
\* boundary significands: ones, ties, all-nines carries, 9.9996
SigEdge == { <<1>>, <<2>>, <<5>>, <<1, 5>>, <<2, 5>>, <<9, 5>>, <<9, 9>>, <<1, 2, 5>>, <<9, 9, 5>>,
             <<9, 9, 9>>, <<1, 0, 4>>, <<9, 9, 9, 9, 6>>, <<1, 0, 0, 0, 4>>, <<1, 2, 3, 4, 5, 6>> }
SigUnc == { <<1>>, <<1, 5>>, <<9, 9, 9, 6>>, <<3, 1, 4, 1, 6>>, <<1, 2, 3, 4, 5, 6, 7, 8, 9>>, <<9, 9, 7, 5, 2>>, <<9, 5>>, <<5>> }
USig == { <<1>>, <<2, 9>>, <<3, 4, 9>>, <<9, 9, 6>>, <<9, 5>>, <<2, 5>>, <<5>>, <<4, 4, 4>> }

SigCover == { <<1>>, <<9, 9, 6>>, <<1, 2, 5>> }
USigCover == { <<2, 9>>, <<9, 9, 6>> }
ExpCover == {-5, 0, 3}
ExpSmall == -6..6
ExpAll == -300..300
ExpStep == { -300 + 25 * i : i \in 0..24 } \cup {-5, -4, -1, 0, 1, 2, 3, 4, 5, 6, 15, 16, 17, 22, 23, 99, 100, -100, -99, 299, 300, -299}
ExpUnc == {-300, -5, 0, 3, 15, 100}
ExpUncT == {-300, -100, -10, -5, -1, 0, 3, 9, 15, 100, 300}
SigConv == { <<3, 1, 5>>, <<9, 9, 9, 6>>, <<3, 1, 4, 1, 6>> }
USigConv == { <<2, 9>>, <<1, 7, 9>> }
ExpConv == {-3, 0, 2}
ConvAll == ConvTable
ConvTen == { c \in ConvTable : c.from \in {"km", "cm", "m3/mol/s", "1/M/s", "mol/m3", "kJ/mol", "g", "hour", "min",
                                            "1", "percent", "mM/M", "cm/m"} }
ConvTwo == { CV("km", "m", 3), CV("1/M/s", "m3/mol/s", -3) }
Both == {FALSE, TRUE}
Pos == {FALSE}

\* option records
O(api, impl, fsty, xty, uname, ucv) == [api |-> api, impl |-> impl, fsty |-> fsty, xty |-> xty, uname |-> uname, ucv |-> ucv, tbl |-> "", pset |-> ""]
OP(pset, impl, uname) == [O("rxnstring", impl, "g", "float", uname, NoConv) EXCEPT !.pset = pset]
OT(perm, xty, uname) == [O("table", TRUE, "g", xty, uname, NoConv) EXCEPT !.tbl = perm]
Opts_num == { O("number", TRUE, "g", "float", "", NoConv), O("rxnstring", TRUE, "g", "float", "", NoConv),
              O("rxnstring", FALSE, "g", "float", "", NoConv), O("number", FALSE, "e", "float", "", NoConv),
              O("number", FALSE, "g", "int", "", NoConv), O("number", FALSE, "g", "npfloat", "", NoConv),
              O("number", TRUE, "g", "nparray", "", NoConv), O("number", FALSE, "g", "npint", "", NoConv),
              O("rxnstring", FALSE, "g", "npfloat", "", NoConv), O("rxnstring", TRUE, "g", "int", "", NoConv),
              O("number", FALSE, "e", "npfloat", "", NoConv),
              \* reaction parameters that are quantities with an uncertainty
              O("rxnstring", TRUE, "g", "uq", "1/M/s", NoConv), O("rxnstring", FALSE, "g", "uq", "m/s", NoConv),
              O("number", TRUE, "g", "uq", "1/M/s", NoConv),
              \* per-substance tables
              OT("same", "float", ""), OT("reversed", "float", "M"), OT("rotated", "npfloat", ""), OT("extra", "float", "M"),
              OT("list", "float", ""), OT("alias", "float", "M"), OT("nosubst", "float", ""),
              \* printer settings away from their defaults
              OP("unitfmt", TRUE, "1/M/s"), OP("sep", FALSE, "m/s"), OP("sep", TRUE, ""), OP("named", TRUE, "1/M/s"),
              OP("named", FALSE, "") }
Opts_unc == { O("number", FALSE, "g", "float", "km", ConvOf("m", "km")), O("number", FALSE, "g", "float", "s", ConvOf("hour", "s")),
              O("number", TRUE, "g", "float", "km", ConvOf("cm", "m")), O("number", FALSE, "g", "npfloat", "min", ConvOf("hour", "min")),
              O("number", FALSE, "g", "float", "kg", NoConv), O("number", FALSE, "g", "float", "percent", NoConv),
              O("number", TRUE, "g", "float", "mM/M", NoConv), O("number", FALSE, "g", "float", "percent", ConvOf("mM/M", "percent")),
              O("number", FALSE, "g", "npfloat", "1", ConvOf("percent", "1")) }
Opts_all == Opts_num \cup Opts_unc
Opts_cover == { O("number", TRUE, "g", "float", "", NoConv), O("number", FALSE, "g", "float", "km", ConvOf("cm", "m")) }
SigOpt == { <<3, 1, 4, 1, 6>>, <<9, 9, 9, 9, 9, 6>>, <<1>> }
ExpOpt == {-7, 0, 4}
USigOpt == { <<2, 9>> }
ConvOpt == { ConvOf("km", "m"), ConvOf("hour", "s"), ConvOf("1", "percent") }
SL_opts_q == [Signs |-> Both, Sigs |-> SigOpt, Exps |-> ExpOpt, Precs |-> {2, 3, 5}, UncSigs |-> USigOpt, UncOffs |-> {2, 5},
              UncPrecs |-> {1, 2}, Units |-> {}, Convs |-> ConvOpt, UncSrcs |-> {"arg", "attr"}, RomanMax |-> 60,
              Opts |-> Opts_all, RomanTypes |-> {"int", "npint"}]

\* the slices (one record per former configuration file)
SL_conv_q == [Signs |-> Both, Sigs |-> SigConv, Exps |-> ExpConv, Precs |-> {2, 5}, UncSigs |-> USigConv, UncOffs |-> {3, 5}, UncPrecs |-> {1, 2, 3}, Units |-> {}, Convs |-> ConvTen, UncSrcs |-> {"arg", "attr"}, RomanMax |-> 0, Opts |-> {}, RomanTypes |-> {"int"}]
SL_cover == [Signs |-> Both, Sigs |-> SigCover, Exps |-> ExpCover, Precs |-> {1, 2}, UncSigs |-> USigCover, UncOffs |-> {1, 3}, UncPrecs |-> {1, 2}, Units |-> {"m/s"}, Convs |-> ConvTwo, UncSrcs |-> {"arg", "attr"}, RomanMax |-> 30, Opts |-> Opts_cover, RomanTypes |-> {"int"}]
SL_decades_q == [Signs |-> Both, Sigs |-> SigEdge, Exps |-> ExpStep, Precs |-> {1, 2, 3, 4}, UncSigs |-> SigEdge, UncOffs |-> {}, UncPrecs |-> {}, Units |-> {}, Convs |-> {}, UncSrcs |-> {"arg"}, RomanMax |-> 0, Opts |-> {}, RomanTypes |-> {"int"}]
SL_decades_t == [Signs |-> Both, Sigs |-> SigEdge, Exps |-> ExpAll, Precs |-> {1, 2, 3, 4}, UncSigs |-> SigEdge, UncOffs |-> {}, UncPrecs |-> {}, Units |-> {}, Convs |-> {}, UncSrcs |-> {"arg"}, RomanMax |-> 0, Opts |-> {}, RomanTypes |-> {"int"}]
SL_roman == [Signs |-> Pos, Sigs |-> Sig1, Exps |-> {}, Precs |-> {}, UncSigs |-> SigEdge, UncOffs |-> {}, UncPrecs |-> {}, Units |-> {}, Convs |-> {}, UncSrcs |-> {"arg"}, RomanMax |-> 3999, Opts |-> {}, RomanTypes |-> {"int"}]
SL_small_q == [Signs |-> Both, Sigs |-> Sig2, Exps |-> ExpSmall, Precs |-> {1, 2, 3}, UncSigs |-> SigEdge, UncOffs |-> {}, UncPrecs |-> {}, Units |-> {}, Convs |-> {}, UncSrcs |-> {"arg"}, RomanMax |-> 0, Opts |-> {}, RomanTypes |-> {"int"}]
SL_small_t == [Signs |-> Both, Sigs |-> Sig3, Exps |-> ExpSmall, Precs |-> {1, 2, 3, 4}, UncSigs |-> SigEdge, UncOffs |-> {}, UncPrecs |-> {}, Units |-> {}, Convs |-> {}, UncSrcs |-> {"arg"}, RomanMax |-> 0, Opts |-> {}, RomanTypes |-> {"int"}]
SL_uncert_q == [Signs |-> Both, Sigs |-> SigUnc, Exps |-> ExpUnc, Precs |-> {}, UncSigs |-> USig, UncOffs |-> {0, 1, 3, 8}, UncPrecs |-> {1, 2, 3}, Units |-> {}, Convs |-> {}, UncSrcs |-> {"arg"}, RomanMax |-> 0, Opts |-> {}, RomanTypes |-> {"int"}]
SL_uncert_t == [Signs |-> Both, Sigs |-> SigUnc, Exps |-> ExpUncT, Precs |-> {}, UncSigs |-> USig, UncOffs |-> {0, 1, 2, 3, 4, 5, 6, 7, 8}, UncPrecs |-> {1, 2, 3, 4}, Units |-> {}, Convs |-> {}, UncSrcs |-> {"arg"}, RomanMax |-> 0, Opts |-> {}, RomanTypes |-> {"int"}]
AllSlices == ("conv_q" :> SL_conv_q) @@ ("cover" :> SL_cover) @@ ("decades_q" :> SL_decades_q) @@ ("decades_t" :> SL_decades_t) @@ ("roman" :> SL_roman) @@ ("small_q" :> SL_small_q) @@ ("small_t" :> SL_small_t) @@ ("uncert_q" :> SL_uncert_q) @@ ("uncert_t" :> SL_uncert_t) @@ ("opts_q" :> SL_opts_q)
QuickNames == {"small_q", "decades_q", "uncert_q", "conv_q", "opts_q", "roman"}
=============================================================================
