INIT Init
NEXT Next
CONSTANTS
  Signs <- Both
  Sigs <- SigConv
  Exps <- ExpConv
  Precs = {2, 5}
  UncSigs <- USigConv
  UncOffs = {3, 5}
  UncPrecs = {1, 2, 3}
  Units = {}
  Convs <- ConvAll
  UncSrcs = {"arg", "attr"}
  RomanMax = 0
INVARIANT TypeOK
INVARIANT RoundCarries
INVARIANT ModelNumberDenotes
INVARIANT OmittedOnlyIfOne
INVARIANT ModelUncertDenotes
INVARIANT RomanGreedyDenotes
INVARIANT Emit
CHECK_DEADLOCK FALSE
