INIT Init
NEXT Next
CONSTANTS
  Signs <- Both
  Sigs <- SigCover
  Exps <- ExpCover
  Precs = {1, 2}
  UncSigs <- USigCover
  UncOffs = {1, 3}
  UncPrecs = {1, 2}
  Units = {"m/s"}
  Convs <- ConvTwo
  UncSrcs = {"arg", "attr"}
  RomanMax = 30
INVARIANT TypeOK
INVARIANT RoundCarries
INVARIANT ModelNumberDenotes
INVARIANT OmittedOnlyIfOne
INVARIANT ModelUncertDenotes
INVARIANT RomanGreedyDenotes
INVARIANT Emit
CHECK_DEADLOCK FALSE
