INIT Init
NEXT Next
CONSTANTS
  Signs <- Both
  Sigs <- SigEdge
  Exps <- ExpStep
  Precs = {1, 2, 3, 4}
  UncSigs <- SigEdge
  UncOffs = {}
  UncPrecs = {}
  Units = {}
  Convs = {}
  UncSrcs = {"arg"}
  RomanMax = 0
INVARIANT TypeOK
INVARIANT RoundCarries
INVARIANT ModelNumberDenotes
INVARIANT OmittedOnlyIfOne
INVARIANT ModelUncertDenotes
INVARIANT RomanGreedyDenotes
INVARIANT Emit
CHECK_DEADLOCK FALSE
