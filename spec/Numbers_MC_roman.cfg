INIT Init
NEXT Next
CONSTANTS
  Signs <- Pos
  Sigs <- Sig1
  Exps = {}
  Precs = {}
  UncSigs <- SigEdge
  UncOffs = {}
  UncPrecs = {}
  Units = {}
  Convs = {}
  UncSrcs = {"arg"}
  RomanMax = 3999
INVARIANT TypeOK
INVARIANT RoundCarries
INVARIANT ModelNumberDenotes
INVARIANT OmittedOnlyIfOne
INVARIANT ModelUncertDenotes
INVARIANT RomanGreedyDenotes
INVARIANT Emit
CHECK_DEADLOCK FALSE
