INIT Init
NEXT Next
CONSTANTS
  SliceTable <- AllSlices
  SliceNames = {"roman"}
INVARIANT TypeOK
INVARIANT RoundCarries
INVARIANT ModelNumberDenotes
INVARIANT OmittedOnlyIfOne
INVARIANT ModelUncertDenotes
INVARIANT RomanGreedyDenotes
INVARIANT Emit
CHECK_DEADLOCK FALSE
