INIT Init
NEXT Next
CONSTANTS
  Signs <- Both
  Sigs <- Sig2
  Exps <- ExpSmall
  Precs = {1, 2, 3}
  UncSigs <- SigEdge
  UncOffs = {}
  UncPrecs = {}
  Units = {}
  Convs = {}
  UncSrcs = {"arg"}
  RomanMax = 0
INVARIANT TypeOK
INVARIANT RoundCarries
INVARIANT ModelNumberDenotes
INVARIANT OmittedOnlyIfOne
INVARIANT ModelUncertDenotes
INVARIANT RomanGreedyDenotes
INVARIANT Emit
CHECK_DEADLOCK FALSE
