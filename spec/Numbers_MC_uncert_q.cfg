INIT Init
NEXT Next
CONSTANTS
  Signs <- Both
  Sigs <- SigUnc
  Exps <- ExpUnc
  Precs = {}
  UncSigs <- USig
  UncOffs = {0, 1, 3, 8}
  UncPrecs = {1, 2, 3}
  Units = {}
  Convs = {}
  UncSrcs = {"arg"}
  RomanMax = 0
INVARIANT TypeOK
INVARIANT RoundCarries
INVARIANT ModelNumberDenotes
INVARIANT OmittedOnlyIfOne
INVARIANT ModelUncertDenotes
INVARIANT RomanGreedyDenotes
INVARIANT Emit
CHECK_DEADLOCK FALSE
