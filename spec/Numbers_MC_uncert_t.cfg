INIT Init
NEXT Next
CONSTANTS
  Signs <- Both
  Sigs <- SigUnc
  Exps <- ExpUncT
  Precs = {}
  UncSigs <- USig
  UncOffs = {0, 1, 2, 3, 4, 5, 6, 7, 8}
  UncPrecs = {1, 2, 3, 4}
  Units = {}
  Convs = {}
  UncSrcs = {"arg"}
  RomanMax = 0
INVARIANT TypeOK
INVARIANT RoundCarries
INVARIANT ModelNumberDenotes
INVARIANT OmittedOnlyIfOne
INVARIANT ModelUncertDenotes
INVARIANT RomanGreedyDenotes
INVARIANT Emit
CHECK_DEADLOCK FALSE
