---------------------------- MODULE OdeBuild ----------------------------
(* The ODE system generated from a reaction system (property C04).                           *)
(*                                                                                            *)
(* The "program" is a system of Kinetics; a BUILD CONFIGURATION says which builder is used,   *)
(* how each reaction carries its rate constant and what is substituted:                       *)
(*   builder  "get_odesys" | "create_odesys"                                                  *)
(*   incl     include_params (get_odesys only; create_odesys has no such switch: FALSE)       *)
(*   kinds    per reaction: "num"    plain number                                             *)
(*                          "ma_num" MassAction([number])                                     *)
(*                          "str"    the string 'k<i>'                                        *)
(*                          "ma_fk"  MassAction.fk('k<i>')                                    *)
(*                          "ma_uk"  MassAction([number], unique_keys = ('k<i>',))            *)
(*   subs     per reaction: "none" | "num" (k<i> := subvals[i]) | "expr" (k<i> := aval * T,   *)
(*            T a new parameter) | "expruk" (the same with the factor carried under the       *)
(*            unique key 'a1')                                                                *)
(*   alias    the substances are handed over under alias keys: OrderedDict(key -> Substance whose   *)
(*            name differs from the key); names of the ODE system are the KEYS                    *)
(*   opts     the remaining options are passed explicitly in a neutral form (the default SymbolicSys    *)
(*            class by hand, a Backend object, an empty symbolic_kw, a caller-made time symbol "tau",  *)
(*            substituted numbers as floats)                                                       *)
(*   preother the same system object was built the other way round before (other include_params /   *)
(*            the other builder)                                                                    *)
(*   cstr     stirred-tank terms requested (feed variables feedratio, fc_<s>)                 *)
(*   kinds may also be "ma_pk": MassAction(v * g) where g is a PARAMETER KEY shared by all     *)
(*            such reactions (like a temperature); parameter keys (g, feedratio) are resolved  *)
(*            in the documented order  substitution > constants object > free parameter:       *)
(*   gsub     "none" | "num" (g := gsubval) | "expr" (g := aval * T)                           *)
(*   fsub     "none" | "num" (feedratio := fsubval)                                            *)
(*   consts   keys (subset of {g, feedratio}) that a constants object passed to the builder    *)
(*            defines as plain numbers (gconst, fconst)                                        *)
(*   kinds may also be "ma_uk2": MassAction(p * q) with TWO unique keys ('p<i>','q<i>') and    *)
(*            explicit defaults (p = kv, q = qval); subs "num" substitutes the first key,      *)
(*            "num2" the second one (by subvals[i])                                            *)
(*   The stirred-tank mapping (which substances, in which order, builder-made or caller-made)  *)
(*   is part of the feed of Kinetics (feed.order, feed.usermap).                               *)
(*   psym     "none" | "order" | "rev": create_odesys is handed user-made PARAMETER symbols in an  *)
(*            OrderedDict listing the free parameters in sorted / reverse-sorted key order;     *)
(*            param_names must then follow the caller's order                                   *)
(*   pfull    the caller's parameter-symbol table is COMPLETE: it also lists keys that are          *)
(*            overridden through parameter_expressions (they stay listed, the override wins)     *)
(*   symodict the concentration symbols come in an OrderedDict (must be in system order)        *)
(*   rebuild  the system object is built twice; the second result is the one judged             *)
(*   implicit arguments equal to their documented default are left out of the call              *)
(*   symorder <<>> or a permutation of the substance list: create_odesys is handed             *)
(*            user-made concentration symbols in a plain dict inserted in that order           *)
(*   comp     substances carry compositions (then linear invariants are reported)             *)
(* Accepted(cfg) is the set of combinations the builders accept (read from the code and       *)
(* probed, see docs/notes/C04.md); C04 quantifies over accepted configurations only.          *)
(*                                                                                            *)
(* For every accepted configuration the specification gives the expected names, the expected  *)
(* SET of parameter names and, per substance, the expected right-hand side as a polynomial    *)
(* in which every rate constant is either free (p = i) or inlined.  FreeVsInlinedAgree is     *)
(* the second sentence of C04: binding the free symbols gives, as a polynomial identity, the  *)
(* kinetic model N^T * rates of Kinetics with the effective constants.                        *)
EXTENDS Kinetics

CONSTANTS
    Configs(_), \* n |-> set of configurations the generator tries for n reactions (filtered by Accepted)
    Comp        \* species -> composition (sparse map key -> Nat, key 0 = charge)

VARIABLES cfg

ovars == <<kvars, cfg>>

Kinds == {"num", "ma_num", "str", "ma_fk", "ma_uk", "ma_pk", "ma_uk2"}
SubKinds == {"none", "num", "num2", "expr", "expruk"}
Named(kd) == kd \in {"str", "ma_fk", "ma_uk"}        \* the constant has a key k<i>
HasDefault(kd) == kd \in {"num", "ma_num", "ma_uk", "ma_pk", "ma_uk2"}  \* the reaction carries a number
\* expression substitutions: k<i> := avals[i] * T<i> (own parameter key T<i>, own unique key a<i>);
\* any number of them may be given together.  g := aval * Tg.
TName(i) == "T" \o ToString(i)
AName(i) == "a" \o ToString(i)
TgVar == "Tg"
ExprSlots(cf) == { i \in DOMAIN cf.subs : cf.subs[i] \in {"expr", "expruk"} }
GVar == "g"
PKeys == {GVar, FeedVar}                              \* parameter keys a constants object may define
KName(i) == "k" \o ToString(i)
PName(i) == "p" \o ToString(i)
QName(i) == "q" \o ToString(i)
Substs == { subst[j] : j \in DOMAIN subst }
HasG(cf) == \E i \in DOMAIN cf.kinds : cf.kinds[i] = "ma_pk"

IsConfig(cf, n) ==
    /\ cf.builder \in {"get_odesys", "create_odesys"}
    /\ cf.incl \in BOOLEAN /\ cf.cstr \in BOOLEAN /\ cf.comp \in BOOLEAN
    /\ Len(cf.kinds) = n /\ \A i \in 1..n : cf.kinds[i] \in Kinds
    /\ Len(cf.subs) = n /\ \A i \in 1..n : cf.subs[i] \in SubKinds
    /\ Len(cf.subvals) >= n /\ \A i \in 1..n : IsQ(cf.subvals[i])
    /\ IsQ(cf.aval) /\ IsQ(cf.tval) /\ IsQ(cf.qval)
    /\ Len(cf.avals) >= n /\ Len(cf.tvals) >= n
    /\ \A i \in 1..n : IsQ(cf.avals[i]) /\ IsQ(cf.tvals[i])
    /\ cf.alias \in BOOLEAN /\ cf.opts \in BOOLEAN /\ cf.preother \in BOOLEAN
    /\ cf.gsub \in {"none", "num", "expr"} /\ cf.fsub \in {"none", "num"}
    /\ cf.psym \in {"none", "order", "rev"} /\ cf.symodict \in BOOLEAN
    /\ cf.rebuild \in BOOLEAN /\ cf.implicit \in BOOLEAN
    /\ cf.pfull \in BOOLEAN /\ (cf.pfull => cf.psym # "none")
    /\ (cf.symodict => cf.symorder = subst)
    /\ SeqSet(cf.consts) \subseteq PKeys
    /\ IsQ(cf.gval) /\ IsQ(cf.gsubval) /\ IsQ(cf.gconst) /\ IsQ(cf.fsubval) /\ IsQ(cf.fconst)
    /\ (cf.symorder = <<>> \/ (IsOrder(cf.symorder) /\ SeqSet(cf.symorder) = Substs))

(* which combinations the builders accept *)
Accepted(cf, n) ==
    /\ IsConfig(cf, n)
    /\ IF cf.builder = "get_odesys"
       THEN \* a substitution must name a key that occurs in some rate expression
            /\ \A i \in 1..n : cf.subs[i] # "none" =>
                   (Named(cf.kinds[i]) \/ (cf.kinds[i] = "ma_uk2" /\ cf.subs[i] \in {"num", "num2"}))
            /\ \A i \in 1..n : cf.subs[i] = "num2" => cf.kinds[i] = "ma_uk2"
            /\ cf.gsub # "none" => HasG(cf)
            /\ cf.fsub # "none" => cf.cstr
            \* with include_params a purely named constant has no value to include
            /\ \A i \in 1..n : (cf.incl /\ cf.kinds[i] \in {"str", "ma_fk"}) => cf.subs[i] # "none"
            \* get_odesys makes its own concentration and parameter symbols
            /\ cf.symorder = <<>> /\ cf.psym = "none"
       ELSE /\ ~cf.incl
            /\ \A i \in 1..n : cf.kinds[i] # "num"
            \* parameter_expressions: modelled for string-named constants only
            /\ \A i \in 1..n : cf.subs[i] # "none" => (cf.kinds[i] = "str" /\ cf.subs[i] # "expruk")
            \* no constants argument; parameter keys stay free
            /\ cf.gsub = "none" /\ cf.fsub = "none" /\ cf.consts = <<>>

(* status of the i-th rate constant in the generated expressions *)
Free(cf, i) == Named(cf.kinds[i]) /\ cf.subs[i] = "none" /\ (cf.builder = "create_odesys" \/ ~cf.incl)
AFree(cf, i) == cf.subs[i] = "expruk" /\ ~cf.incl /\ cf.builder = "get_odesys"
\* the two unique keys of an "ma_uk2" constant: free iff not substituted and parameters are kept free
KeysFree(cf) == cf.builder = "create_odesys" \/ ~cf.incl
PFree(cf, i) == cf.kinds[i] = "ma_uk2" /\ cf.subs[i] # "num" /\ KeysFree(cf)
QFree(cf, i) == cf.kinds[i] = "ma_uk2" /\ cf.subs[i] # "num2" /\ KeysFree(cf)
PVal(cf, i) == IF cf.subs[i] = "num" THEN cf.subvals[i] ELSE rsys[i].kv
QVal(cf, i) == IF cf.subs[i] = "num2" THEN cf.subvals[i] ELSE cf.qval

(* resolution of a parameter key: substitution > constants > free.  A resolved key is a pair  *)
(* <<numeric factor, exponent vector of the symbols that remain>>                             *)
GFree(cf) == HasG(cf) /\ cf.gsub = "none" /\ GVar \notin SeqSet(cf.consts)
FFree(cf) == cf.cstr /\ cf.fsub = "none" /\ FeedVar \notin SeqSet(cf.consts)
GTerm(cf) == IF cf.gsub = "num" THEN <<cf.gsubval, EmptyMap>>
             ELSE IF cf.gsub = "expr" THEN <<cf.aval, EOne(TgVar)>>
             ELSE IF GVar \in SeqSet(cf.consts) THEN <<cf.gconst, EmptyMap>>
             ELSE <<QOne, EOne(GVar)>>
FTerm(cf) == IF cf.fsub = "num" THEN <<cf.fsubval, EmptyMap>>
             ELSE IF FeedVar \in SeqSet(cf.consts) THEN <<cf.fconst, EmptyMap>>
             ELSE <<QOne, EOne(FeedVar)>>
GEff(cf) == IF cf.gsub = "num" THEN cf.gsubval
            ELSE IF cf.gsub = "expr" THEN QMul(cf.aval, cf.tval)
            ELSE IF GVar \in SeqSet(cf.consts) THEN cf.gconst ELSE cf.gval
FEff(cf) == IF cf.fsub = "num" THEN cf.fsubval
            ELSE IF FeedVar \in SeqSet(cf.consts) THEN cf.fconst ELSE feed.F

ExpectedNames == subst
\* the i-th dependent variable is the concentration symbol of the i-th substance, whatever the
\* order in which the caller's symbols were handed over (observable for create_odesys)
ExpectedDep(cf) == IF cf.builder = "create_odesys" THEN subst ELSE <<>>
FcVars == { FcVar(s) : s \in SeqSet(feed.order) }
ExpectedParams(cf) ==
    { KName(i) : i \in { j \in DOMAIN rsys : Free(cf, j) } }
    \cup (IF cf.cstr THEN FcVars ELSE {})
    \cup (IF FFree(cf) THEN {FeedVar} ELSE {})
    \cup (IF GFree(cf) THEN {GVar} ELSE {})
    \cup { TName(i) : i \in ExprSlots(cf) }
    \cup (IF cf.gsub = "expr" THEN {TgVar} ELSE {})
    \cup { AName(i) : i \in { j \in DOMAIN rsys : AFree(cf, j) } }
    \cup { PName(i) : i \in { j \in DOMAIN rsys : PFree(cf, j) } }
    \cup { QName(i) : i \in { j \in DOMAIN rsys : QFree(cf, j) } }
    \* a complete caller-made symbol table keeps the overridden keys listed (unused)
    \cup (IF cf.pfull THEN { KName(i) : i \in { j \in DOMAIN rsys : cf.kinds[j] = "str" /\ cf.subs[j] # "none" } }
          ELSE {})

\* the rate expression of reaction i: one monomial
RateTerm(cf, i) ==
    LET r == rsys[i]
        e == ExpVec(r)
    IN  IF cf.kinds[i] = "ma_pk" THEN <<QMul(r.kv, GTerm(cf)[1]), 0, EMul(e, GTerm(cf)[2])>>
        ELSE IF cf.kinds[i] = "ma_uk2" THEN
            <<QMul(IF PFree(cf, i) THEN QOne ELSE PVal(cf, i), IF QFree(cf, i) THEN QOne ELSE QVal(cf, i)), 0,
              EMul(e, EMul(IF PFree(cf, i) THEN EOne(PName(i)) ELSE EmptyMap,
                           IF QFree(cf, i) THEN EOne(QName(i)) ELSE EmptyMap))>>
        ELSE IF Free(cf, i) THEN <<QOne, r.k, e>>
        ELSE IF cf.subs[i] = "num" THEN <<cf.subvals[i], 0, e>>
        ELSE IF cf.subs[i] \in {"expr", "expruk"} THEN
            IF AFree(cf, i) THEN <<QOne, 0, EMul(e, EMul(EOne(TName(i)), EOne(AName(i))))>>
            ELSE <<cf.avals[i], 0, EMul(e, EOne(TName(i)))>>
        ELSE <<r.kv, 0, e>>
ExpectedRatePoly(cf, i) == PolyNorm(<<RateTerm(cf, i)>>)
\* feed term F*(cf_s - c_s) with the feed ratio resolved
FeedPolyCfg(cf, s) == { <<FTerm(cf)[1], 0, EMul(FTerm(cf)[2], EOne(FcVar(s)))>>,
                        <<QNeg(FTerm(cf)[1]), 0, EMul(FTerm(cf)[2], EOne(s))>> }
\* the equation of substance s: sum_i N[i][s] * rate_i (+ feed term)
Term(cf, i, s) == LET t == RateTerm(cf, i) IN <<QMul(Q(Net(rsys[i])[s]), t[1]), t[2], t[3]>>
ExpectedPoly(cf, s) ==
    LET P == PolyNorm([i \in 1..Len(rsys) |-> Term(cf, i, s)])
    IN  IF Fed(feed, s) THEN PolyAdd(P, FeedPolyCfg(cf, s)) ELSE P

(* binding: the values the free symbols stand for *)
EffK(cf, i) == IF cf.kinds[i] = "ma_pk" THEN QMul(rsys[i].kv, GEff(cf))
               ELSE IF cf.kinds[i] = "ma_uk2" THEN QMul(PVal(cf, i), QVal(cf, i))
               ELSE IF cf.subs[i] = "num" THEN cf.subvals[i]
               ELSE IF cf.subs[i] \in {"expr", "expruk"} THEN QMul(cf.avals[i], cf.tvals[i])
               ELSE rsys[i].kv
EffSys(cf) == [i \in 1..Len(rsys) |-> [rsys[i] EXCEPT !.kv = EffK(cf, i)]]
EffFeed(cf) == IF feed.on THEN [feed EXCEPT !.F = FEff(cf)] ELSE feed
ParamEnv(cf) ==
    [v \in { TName(i) : i \in DOMAIN rsys } \cup { AName(i) : i \in DOMAIN rsys } \cup {TgVar, GVar} |->
        IF v = TgVar THEN cf.tval
        ELSE IF v = GVar THEN cf.gval
        ELSE IF \E i \in DOMAIN rsys : TName(i) = v THEN cf.tvals[CHOOSE i \in DOMAIN rsys : TName(i) = v]
        ELSE cf.avals[CHOOSE i \in DOMAIN rsys : AName(i) = v]]
KeyEnv(cf) == [v \in { PName(i) : i \in DOMAIN rsys } \cup { QName(i) : i \in DOMAIN rsys } |->
                  IF \E i \in DOMAIN rsys : PName(i) = v
                  THEN rsys[CHOOSE i \in DOMAIN rsys : PName(i) = v].kv ELSE cf.qval]
FullEnv(cf) == ParamEnv(cf) @@ KeyEnv(cf) @@ FeedEnv(feed)
\* replace every parameter symbol (free constants, T, a1, g, feed variables) by its value;
\* only the concentrations stay symbolic
BindMono(cf, m) ==
    LET kf == IF m[2] = 0 THEN QOne ELSE rsys[m[2]].kv
        pv == DOMAIN m[3] \ (Species \cup SqrtVars)
        f == QProdOver(pv, LAMBDA v : QPow(FullEnv(cf)[v], m[3][v]))
    IN  <<QMul(QMul(m[1], kf), f), 0, [v \in DOMAIN m[3] \ pv |-> m[3][v]]>>
BindParams(cf, P) == LET ms == SetToSeq(P) IN PolyNorm([i \in 1..Len(ms) |-> BindMono(cf, ms[i])])
\* the kinetic model of Kinetics for the effective constants, every parameter a number
BoundModel(cf, s) ==
    IF Fed(feed, s)
    THEN PolyAdd(RatePolyInlined(EffSys(cf), s),
                 PolyNorm(<< <<QMul(FEff(cf), feed.cf[s]), 0, EmptyMap>>, <<QNeg(FEff(cf)), 0, EOne(s)>> >>))
    ELSE RatePolyInlined(EffSys(cf), s)

BindEnv(cf) ==
    LET names == ExpectedParams(cf)
    IN  [v \in names |->
            IF v \in DOMAIN ParamEnv(cf) THEN ParamEnv(cf)[v]
            ELSE IF v \in DOMAIN KeyEnv(cf) THEN KeyEnv(cf)[v]
            ELSE IF \E i \in DOMAIN rsys : KName(i) = v /\ cf.subs[i] # "none" THEN EffK(cf, CHOOSE i \in DOMAIN rsys : KName(i) = v)
            ELSE IF v \in DOMAIN FeedEnv(feed) THEN FeedEnv(feed)[v]
            ELSE rsys[CHOOSE i \in DOMAIN rsys : KName(i) = v].kv]
ExpectedFAt(cf, cc) == RatesFed(EffSys(cf), cc, EffFeed(cf))
ExpectedF(cf) == ExpectedFAt(cf, c)
ExpectedRValsAt(cf, cc) == [i \in 1..Len(rsys) |-> RateOf(EffSys(cf)[i], cc)]
ExpectedRVals(cf) == ExpectedRValsAt(cf, c)
\* (C2 of Kinetics: a second state for calling the generated callbacks again)

(* composition balance matrix: rows = sorted keys of the listed substances, columns = substances *)
CompKeys == UNION { Support(Comp[subst[j]]) : j \in DOMAIN subst }
ExpectedB == LET ks == SetToSortSeq(CompKeys, <)
             IN  [i \in 1..Len(ks) |-> [j \in 1..Len(subst) |-> Co(Comp[subst[j]], ks[i])]]

------------------------------------------------------------------------------
OInit == Init /\ cfg = [builder |-> "none"]

Build(cf) ==
    /\ phase = "ready" /\ rsys # <<>> /\ Accepted(cf, Len(rsys)) /\ cf.cstr = feed.on
    /\ cfg' = cf /\ phase' = "built"
    /\ UNCHANGED <<rsys, subst, c, feed, sphase, hist>>

GenBuild == \E cf \in Configs(Len(rsys)) : Build(cf)
OAdd == GenAdd /\ UNCHANGED cfg
OState == GenState /\ UNCHANGED cfg
OFeed == GenFeed /\ UNCHANGED cfg
OReassign == GenReassign /\ UNCHANGED cfg
OSort == GenSort /\ UNCHANGED cfg
ONext == OAdd \/ OState \/ OFeed \/ OReassign \/ OSort \/ GenBuild
OSpec == OInit /\ [][ONext]_ovars

Built == phase = "built"
\* Degenerate equations.  C04 quantifies over systems ACCEPTED by the builders; two classes of
\* systems are refused by the pinned code although the configuration is fine (docs/notes/C04.md):
\*  - a listed substance on neither side of any reaction (no equation is produced for it),
\*  - a substance whose right-hand side contains no symbol at all (a non-zero constant, or zero
\*    because all its net coefficients vanish): when only zero-order reactions with inlined
\*    constants act on it a bare number is handed to the symbolic layer.
\* For these a refusal is not judged; if the system is built it is judged like any other.
HasUntouched == Untouched(rsys) \cap Substs # {}
ConstRHS(cf) == \E s \in Substs \cap Touched(rsys) :
                   \A m \in ExpectedPoly(cf, s) : m[2] = 0 /\ DOMAIN m[3] = {}
\* (Alias keys - key # Substance.name - are accepted by both builders: the names of the ODE system
\*  are the KEYS.  Until repo commit 499a3b2 get_odesys refused such systems with a KeyError.)
MayRefuse(cf) == HasUntouched \/ ConstRHS(cf)

------------------------------------------------------------------------------
(* invariants *)
\* binding every free symbol of the generated form yields the kinetic model with the
\* effective constants, as a polynomial identity and (hence) as a value at the state
FreeVsInlinedAgree == Built =>
    \A s \in Substs :
        /\ BindParams(cfg, ExpectedPoly(cfg, s)) = BoundModel(cfg, s)
        /\ EvalPoly(ExpectedPoly(cfg, s), VEnv(c, feed) @@ ParamEnv(cfg) @@ KeyEnv(cfg), KEnv(rsys)) = ExpectedF(cfg)[s]

\* the configuration changes only which symbols are free: with nothing substituted and no
\* constants object the bound form is Kinetics' polynomial of the system itself (g bound to its
\* value), whatever the builder, include_params, the parameter kinds or the symbol order
Plain(cf) == /\ \A i \in DOMAIN rsys : cf.subs[i] = "none"
             /\ cf.gsub = "none" /\ cf.fsub = "none" /\ cf.consts = <<>>
BaseSys(cf) == [i \in 1..Len(rsys) |->
                  [rsys[i] EXCEPT !.kv = IF cf.kinds[i] = "ma_pk" THEN QMul(@, cf.gval)
                                         ELSE IF cf.kinds[i] = "ma_uk2" THEN QMul(@, cf.qval) ELSE @]]
ConfigOnlyChangesFreeSymbols == Built =>
    (Plain(cfg) =>
        \A s \in Substs :
            /\ BindParams(cfg, ExpectedPoly(cfg, s)) =
                 BindParams(cfg, RatePolyInlinedFed(BaseSys(cfg), s, Fed(feed, s)))
            /\ ExpectedF(cfg)[s] = RatesFed(BaseSys(cfg), c, feed)[s])

\* a substitution beats the constants object: the expected system does not depend on what the
\* constants object says about a substituted key
SubstitutionBeatsConstants == Built =>
    LET other == [cfg EXCEPT !.gconst = QAdd(@, QOne), !.fconst = QAdd(@, QOne)]
    IN  ((cfg.gsub # "none" \/ ~HasG(cfg)) /\ (cfg.fsub # "none" \/ ~cfg.cstr)) =>
            \A s \in Substs : ExpectedPoly(other, s) = ExpectedPoly(cfg, s)

\* the order in which concentration symbols are handed over is irrelevant
SymbolOrderIrrelevant == Built =>
    LET plain == [cfg EXCEPT !.symorder = <<>>]
    IN  /\ \A s \in Substs : ExpectedPoly(plain, s) = ExpectedPoly(cfg, s)
        /\ ExpectedParams(plain) = ExpectedParams(cfg) /\ ExpectedDep(plain) = ExpectedDep(cfg)

\* every free constant occurs in the equation of some substance and nothing else does
ParamsAreTheFreeSymbols == Built =>
    LET used == UNION { { KName(m[2]) : m \in { x \in ExpectedPoly(cfg, s) : x[2] # 0 } } : s \in Substs }
               \cup UNION { UNION { DOMAIN m[3] \ (Species \cup SqrtVars) : m \in ExpectedPoly(cfg, s) } : s \in Substs }
    IN  used \subseteq ExpectedParams(cfg)

\* one equation per substance: an untouched substance only sees its feed term
UntouchedOnlyFeed == Built =>
    \A s \in Untouched(rsys) \cap Substs :
        ExpectedPoly(cfg, s) = (IF Fed(feed, s) THEN FeedPolyCfg(cfg, s) ELSE {})

RatePolyMatches == Built =>
    \A i \in DOMAIN rsys :
        EvalPoly(ExpectedRatePoly(cfg, i), VEnv(c, feed) @@ ParamEnv(cfg) @@ KeyEnv(cfg), KEnv(rsys)) = ExpectedRVals(cfg)[i]

OTypeOK == phase \in {"build", "ready", "built"} /\ (Built => Accepted(cfg, Len(rsys)))

------------------------------------------------------------------------------
(* case export *)
CfgOut(cf) == [builder |-> cf.builder, incl |-> cf.incl, kinds |-> cf.kinds, subs |-> cf.subs,
               cstr |-> cf.cstr, comp |-> cf.comp,
               subvals |-> SubSeq(cf.subvals, 1, Len(rsys)), aval |-> cf.aval, tval |-> cf.tval,
               avals |-> SubSeq(cf.avals, 1, Len(rsys)), tvals |-> SubSeq(cf.tvals, 1, Len(rsys)), alias |-> cf.alias,
               opts |-> cf.opts, preother |-> cf.preother,
               gsub |-> cf.gsub, fsub |-> cf.fsub, consts |-> cf.consts, symorder |-> cf.symorder,
               gval |-> cf.gval, gsubval |-> cf.gsubval, gconst |-> cf.gconst,
               fsubval |-> cf.fsubval, fconst |-> cf.fconst, qval |-> cf.qval,
               pfull |-> cf.pfull, psym |-> cf.psym, symodict |-> cf.symodict, rebuild |-> cf.rebuild, implicit |-> cf.implicit]
OClass == cfg.builder \o (IF cfg.incl THEN "-incl" ELSE "-free")
          \o (IF cfg.cstr THEN "-cstr" ELSE "") \o (IF cfg.comp THEN "-comp" ELSE "")
          \o (IF cfg.alias THEN "-alias" ELSE "") \o (IF cfg.consts # <<>> THEN "-consts" ELSE "") \o (IF feed.usermap THEN "-map" ELSE "")
          \o (IF hist # <<>> THEN "-h" ELSE "") \o (IF cfg.symorder # <<>> THEN "-sym" ELSE "")
          \o (IF HasUntouched THEN "-u" ELSE "") \o (IF ConstRHS(cfg) THEN "-const" ELSE "") \o "-n" \o ToString(Len(rsys))
OCaseIn == [ subst |-> subst,
             names |-> BySubst(NameMap),
             c2 |-> BySubst(C2),
             rxns |-> [i \in 1..Len(rsys) |-> RxnOut(rsys[i])],
             c |-> BySubst(c),
             sphase |-> BySubst(sphase),
             hist |-> hist,
             feed |-> FeedOut,
             cfg |-> CfgOut(cfg),
             comp |-> [j \in 1..Len(subst) |-> MapSeq(Sparse(Comp[subst[j]]))],
             bind |-> MapSeq(BindEnv(cfg)),
             psymkeys |-> SetToSeq(ExpectedParams(cfg)) ]   \* the keys a caller-made parameter table lists
OCaseExp == [ names |-> ExpectedNames,
              dep |-> ExpectedDep(cfg),
              params |-> SetToSeq(ExpectedParams(cfg)),
              poly |-> BySubst([s \in Species |-> PolyOut(ExpectedPoly(cfg, s))]),
              f |-> BySubst(ExpectedF(cfg)),
              rvals |-> ExpectedRVals(cfg),
              f2 |-> BySubst(ExpectedFAt(cfg, C2)),
              rvals2 |-> ExpectedRValsAt(cfg, C2),
              frame |-> TRUE,   \* Build leaves the system as it was (UNCHANGED rsys)
              indep |-> "tau",  \* the caller's time symbol (observed when one is handed over: cfg.opts, create_odesys)
              paramseq |-> cfg.psym # "none",   \* param_names follow the caller's parameter symbols
              rpoly |-> [i \in 1..Len(rsys) |-> PolyOut(ExpectedRatePoly(cfg, i))],
              B |-> IF cfg.comp THEN ExpectedB ELSE <<>>,
              mayrefuse |-> MayRefuse(cfg) ]
OCaseRec == [ in |-> OCaseIn, exp |-> OCaseExp, cls |-> OClass ]
EmitBuild == Built => PrintT(<<"CASE", ToJson(OCaseRec)>>)
=============================================================================
