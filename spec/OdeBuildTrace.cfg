INIT TInit
NEXT TNext
CONSTANTS
  Species = {"A", "B", "C", "D", "E", "G"}
  Catalog <- NoCatalog
  MaxR = 0
  KVals <- NoKVals
  Orders <- NoCatalog
  FullOrder = TRUE
  Points <- NoCatalog
  Feeds <- NoCatalog
  PhaseMaps <- NoCatalog
  ReKVals <- NoCatalog
  MaxHist = 0
  NameMap <- TrNames
  PForms <- NoCatalog
  Containers <- NoCatalog
  OvKVals <- TrOv
  SForms <- NoCatalog
  KeySortSeq <- TrSort
  Configs <- NoConfigs
  Comp <- TraceComp
INVARIANT Verdict
INVARIANT FreeVsInlinedAgree
INVARIANT ParamsAreTheFreeSymbols
CHECK_DEADLOCK FALSE
