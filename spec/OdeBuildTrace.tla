---------------------------- MODULE OdeBuildTrace ----------------------------
(* Trace validation for OdeBuild (C04): construction of a system, state, optional feed, the    *)
(* build configuration (Build event) and what the real builder returned (Result).  The Build  *)
(* event is enabled only for configurations inside Accepted; a trace that stops there is      *)
(* reported with clause "step:Build" (outside the model, not judged by the harness).          *)
EXTENDS OdeBuild, IOUtils

Traces == JsonDeserialize(IOEnv.TRACE_FILE)

VARIABLES tid, pos, verdict
tvars == <<ovars, tid, pos, verdict>>

Ev == Traces[tid][pos]

TInit == OInit /\ tid \in 1..Len(Traces) /\ pos = 1 /\ verdict = "none"

Shape(e) == [reac |-> e.reac, prod |-> e.prod, ireac |-> e.ireac, iprod |-> e.iprod, half |-> e.half]

Step(e) ==
    CASE e.ev = "AddReaction" -> AddReaction(Shape(e), e.kv) /\ UNCHANGED cfg
      [] e.ev = "SetState"    -> SetState(e.subst, e.c, e.phase) /\ UNCHANGED cfg
      [] e.ev = "Feed"        -> Feed(e.F, e.cf, e.order, e.usermap) /\ UNCHANGED cfg
      [] e.ev = "Reassign"    -> Reassign(e.i, e.kv) /\ UNCHANGED cfg
      [] e.ev = "Sort"        -> SortSubstances /\ UNCHANGED cfg
      [] e.ev = "Build"       -> Build(e.cfg)
      [] OTHER                -> FALSE

ToSetOf(sq) == { sq[i] : i \in DOMAIN sq }
ObsMono(m) == <<m[1], m[2], ToSetOf(m[3])>>
ObsPoly(sq) == { ObsMono(sq[i]) : i \in DOMAIN sq }
SpecMono(m) == <<m[1], m[2], { <<v, m[3][v]>> : v \in DOMAIN m[3] }>>
SpecPoly(P) == { SpecMono(m) : m \in P }

NamesOK(e) == e.names = subst
DepOK(e) == e.dep = ExpectedDep(cfg)
ParamsOK(e) == ToSetOf(e.params) = ExpectedParams(cfg) /\ Len(e.params) = Cardinality(ExpectedParams(cfg))
PolyOK(e) == Len(e.poly) = Len(subst) /\
    \A j \in DOMAIN subst : ObsPoly(e.poly[j]) = SpecPoly(ExpectedPoly(cfg, subst[j]))
FOK(e) == e.f = <<>> \/ (Len(e.f) = Len(subst) /\ \A j \in DOMAIN subst : e.f[j] = ExpectedF(cfg)[subst[j]])
RvalsOK(e) == ~e.hasr \/ e.rvals = ExpectedRVals(cfg)

ResultOK(e) ==
    /\ phase = "built"
    /\ IF ~e.built THEN MayRefuse(cfg)
       ELSE NamesOK(e) /\ DepOK(e) /\ ParamsOK(e) /\ PolyOK(e) /\ FOK(e) /\ RvalsOK(e)

TStep ==
    /\ verdict = "none" /\ pos <= Len(Traces[tid])
    /\ IF Ev.ev = "Result"
       THEN ResultOK(Ev) /\ verdict' = "accept" /\ UNCHANGED ovars
       ELSE Step(Ev) /\ verdict' = "none"
    /\ pos' = pos + 1 /\ UNCHANGED tid

TReject ==
    /\ verdict = "none" /\ ~ENABLED TStep
    /\ verdict' = "reject" /\ UNCHANGED <<ovars, tid, pos>>

TNext == TStep \/ TReject

Clause ==
    IF pos > Len(Traces[tid]) THEN "no-result-event"
    ELSE LET e == Ev IN
      IF e.ev # "Result" THEN "step:" \o e.ev
      ELSE IF phase # "built" THEN "notbuilt"
      ELSE IF ~e.built THEN "build"
      ELSE IF ~NamesOK(e) THEN "names"
      ELSE IF ~DepOK(e) THEN "dep"
      ELSE IF ~ParamsOK(e) THEN "params"
      ELSE IF ~PolyOK(e) THEN "poly"
      ELSE IF ~FOK(e) THEN "f"
      ELSE "rvals"

Verdict == verdict # "none" =>
    PrintT(<<"VERDICT", tid, verdict, pos, IF verdict = "accept" THEN "" ELSE Clause>>)

NoCatalog == {}
NoKVals == <<>>
TrNames == [s \in Species |-> s]
TrOv == <<>>
TrSort == <<"A", "B", "C", "D", "E", "G">>
NoConfigs(n) == {}
TraceComp == [s \in Species |-> <<>>]
=============================================================================
