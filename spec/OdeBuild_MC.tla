---------------------------- MODULE OdeBuild_MC ----------------------------
(* Constants for the sliced exhaustive configurations of OdeBuild (C04).                     *)
(* Substituted values 41 43 47, expression factor 53, T = 59: primes distinct from the        *)
(* concentrations (2 3 5 7), rate constants (11 13 17) and feed values (19 23 29 31 37).      *)
(* Largest number: 3 * (53 * 59) * 7^3 < 3.3 * 10^6.                                          *)
EXTENDS OdeBuild, Kinetics_MC

SubV == <<Q(41), Q(43), Q(47)>>
AV == Q(53)
TV == Q(59)

Uniform(n, x) == [i \in 1..n |-> x]
FirstOnly(n, x, y) == [i \in 1..n |-> IF i = 1 THEN x ELSE y]
Alternate(n, x, y) == [i \in 1..n |-> IF i % 2 = 1 THEN x ELSE y]

KindPatterns(n) == { Uniform(n, kd) : kd \in Kinds }
                   \cup { Alternate(n, "ma_uk", "ma_num"), Alternate(n, "str", "num"), Alternate(n, "ma_fk", "ma_uk") }
SubPatterns(n) == { Uniform(n, "none"), Uniform(n, "num"), FirstOnly(n, "num", "none"),
                    FirstOnly(n, "expr", "none"), FirstOnly(n, "expruk", "none"),
                    FirstOnly(n, "expr", "num") }
\* parameter-key values: g bound 61, substituted 67, constants object 71; feedratio substituted 73,
\* constants object 79.  Largest number: 3 * 17 * 53 * 59 * 7^3 < 5.5 * 10^7.
Mk(b, incl, kinds, subs, cstr, comp) ==
    [builder |-> b, incl |-> incl, kinds |-> kinds, subs |-> subs, cstr |-> cstr, comp |-> comp,
     subvals |-> SubV, aval |-> AV, tval |-> TV,
     gsub |-> "none", fsub |-> "none", consts |-> <<>>, symorder |-> <<>>,
     gval |-> Q(61), gsubval |-> Q(67), gconst |-> Q(71), fsubval |-> Q(73), fconst |-> Q(79),
     avals |-> <<Q(53), Q(89), Q(97)>>, tvals |-> <<Q(59), Q(101), Q(103)>>, alias |-> FALSE, opts |-> FALSE, preother |-> FALSE,
     qval |-> Q(83), pfull |-> FALSE, psym |-> "none", symodict |-> FALSE, rebuild |-> FALSE, implicit |-> FALSE]

\* rate constants with two unique keys and explicit defaults; substitution of the first / second key
CfgUk2(n) == { Mk(b, incl, kinds, subs, FALSE, FALSE) :
                 b \in {"get_odesys", "create_odesys"}, incl \in BOOLEAN,
                 kinds \in { Uniform(n, "ma_uk2"), Alternate(n, "ma_uk2", "str"), Alternate(n, "ma_uk", "ma_uk2") },
                 subs \in { Uniform(n, "none"), FirstOnly(n, "num", "none"), FirstOnly(n, "num2", "none"),
                            Uniform(n, "num"), Alternate(n, "num", "num2") } }

\* parameter keys: substitution x constants object (get_odesys)
ConstSets == { <<>>, <<"g">>, <<"feedratio">>, <<"g", "feedratio">> }
PkKinds(n) == { Uniform(n, "ma_pk"), Alternate(n, "ma_pk", "ma_uk"), Alternate(n, "str", "ma_pk"),
                Uniform(n, "ma_num") }
CfgConst(n) == { [Mk("get_odesys", incl, kinds, subs, cstr, FALSE)
                    EXCEPT !.gsub = gs, !.fsub = fs, !.consts = cs] :
                   incl \in BOOLEAN, kinds \in PkKinds(n),
                   subs \in { Uniform(n, "none"), FirstOnly(n, "num", "none") },
                   cstr \in BOOLEAN, gs \in {"none", "num", "expr"}, fs \in {"none", "num"}, cs \in ConstSets }
                \cup { Mk("create_odesys", FALSE, kinds, Uniform(n, "none"), cstr, FALSE) :
                         kinds \in { Uniform(n, "ma_pk"), Alternate(n, "str", "ma_pk") }, cstr \in BOOLEAN }
CfgConstQ(n) == { cf \in CfgConst(n) : (cf.kinds # Alternate(n, "ma_pk", "ma_uk") \/ n = 1)
                                        /\ cf.subs = Uniform(n, "none")
                                        /\ (~cf.incl \/ cf.kinds = Uniform(n, "ma_pk"))
                                        /\ cf.consts # <<"feedratio">> }
\* a smaller family for the wider systems of the thorough tier
CfgConstFew(n) == { cf \in CfgConst(n) : cf.incl = FALSE /\ cf.kinds \in { Uniform(n, "ma_pk"), Alternate(n, "str", "ma_pk") }
                                          /\ cf.subs = Uniform(n, "none") /\ cf.consts \in { <<>>, <<"g", "feedratio">> } }

\* user-supplied concentration symbols for create_odesys, in system order and permuted
Rev(sq) == [i \in 1..Len(sq) |-> sq[Len(sq) + 1 - i]]
RotL(sq) == IF sq = <<>> THEN sq ELSE Tail(sq) \o <<Head(sq)>>
SymOrders == { <<>>, subst, Rev(subst), RotL(subst) }
CfgSym(n) == { [Mk("create_odesys", FALSE, kinds, subs, cstr, FALSE) EXCEPT !.symorder = so] :
                 kinds \in { Uniform(n, "str"), Uniform(n, "ma_num"), Alternate(n, "ma_fk", "ma_pk") },
                 subs \in { Uniform(n, "none"), FirstOnly(n, "num", "none") },
                 cstr \in BOOLEAN, so \in SymOrders }

\* every combination (Accepted filters)
CfgAll(n) == { Mk(b, incl, kinds, subs, cstr, comp) :
                 b \in {"get_odesys", "create_odesys"}, incl \in BOOLEAN, kinds \in KindPatterns(n),
                 subs \in SubPatterns(n), cstr \in BOOLEAN, comp \in {FALSE} }
CfgAllComp(n) == { Mk(b, incl, kinds, subs, cstr, comp) :
                 b \in {"get_odesys", "create_odesys"}, incl \in BOOLEAN, kinds \in KindPatterns(n),
                 subs \in { Uniform(n, "none"), FirstOnly(n, "num", "none") }, cstr \in BOOLEAN, comp \in {TRUE} }
\* a handful of representative configurations for the wide-system slices
CfgFew(n) == { Mk("get_odesys", TRUE, Uniform(n, "num"), Uniform(n, "none"), FALSE, FALSE),
               Mk("get_odesys", FALSE, Uniform(n, "str"), Uniform(n, "none"), FALSE, TRUE),
               Mk("get_odesys", FALSE, Alternate(n, "ma_uk", "ma_num"), FirstOnly(n, "num", "none"), FALSE, FALSE),
               Mk("get_odesys", TRUE, Uniform(n, "ma_fk"), FirstOnly(n, "expr", "num"), FALSE, FALSE),
               Mk("create_odesys", FALSE, Uniform(n, "ma_fk"), Uniform(n, "none"), FALSE, TRUE),
               Mk("create_odesys", FALSE, Uniform(n, "str"), FirstOnly(n, "num", "none"), FALSE, FALSE) }
CfgThree(n) == { Mk("get_odesys", TRUE, Uniform(n, "num"), Uniform(n, "none"), FALSE, FALSE),
                 Mk("get_odesys", FALSE, Alternate(n, "str", "ma_uk"), Uniform(n, "none"), FALSE, FALSE),
                 Mk("create_odesys", FALSE, Uniform(n, "str"), FirstOnly(n, "num", "none"), FALSE, FALSE) }
CfgFewCstr(n) == { [cf EXCEPT !.cstr = TRUE] : cf \in CfgFew(n) }
CfgFewBoth(n) == CfgFew(n) \cup CfgFewCstr(n)

CompDef == [s \in AllSpecies |->
              CASE s = "A" -> (1 :> 1)
                [] s = "B" -> (1 :> 1 @@ 2 :> 1)
                [] s = "C" -> (1 :> 2 @@ 2 :> 1)
                [] s = "D" -> (0 :> 1 @@ 3 :> 1)]
Cat4 == { Inst(Shapes[i], 0) : i \in {3, 8, 11, 15} }
Cat3 == { Inst(Shapes[i], 0) : i \in {3, 8, 15} }
Cat2 == { Inst(Shapes[i], 0) : i \in {3, 15} }
\* argument forms and histories of the builders themselves
CfgForms(n) == { [cf EXCEPT !.rebuild = rb, !.implicit = im] : cf \in CfgFewBoth(n), rb \in BOOLEAN, im \in BOOLEAN }
                \cup { [cf EXCEPT !.opts = TRUE, !.preother = po] : cf \in CfgFewBoth(n) \cup CfgUk2(n), po \in BOOLEAN }
                \cup { [Mk("create_odesys", FALSE, kinds, Uniform(n, "none"), cstr, FALSE)
                          EXCEPT !.psym = ps, !.symorder = so, !.symodict = od] :
                         kinds \in { Uniform(n, "str"), Alternate(n, "ma_fk", "ma_pk"), Uniform(n, "ma_uk2") },
                         cstr \in BOOLEAN, ps \in {"order", "rev"}, so \in {<<>>, subst, Rev(subst)}, od \in BOOLEAN }
CfgFormsQ(n) == { cf \in CfgForms(n) : (cf.rebuild \/ cf.implicit \/ cf.psym # "none" \/ (cf.opts /\ cf.subs # Uniform(n, "num2")))
                                        /\ (cf.psym = "none" \/ cf.symorder # subst \/ cf.symodict) }
CfgAllUk2(n) == CfgAll(n) \cup CfgUk2(n)
CfgMix(n) == CfgSym(n) \cup CfgFewBoth(n)
CfgMixQ(n) == { cf \in CfgSym(n) : cf.subs = Uniform(n, "none") /\ cf.kinds # Uniform(n, "ma_num")
                                      /\ cf.symorder \in {subst, Rev(subst)} } \cup CfgFewCstr(n)
\* two or more expression substitutions at once; alias keys
CfgMultiExpr(n) == { Mk("get_odesys", incl, kinds, subs, cstr, FALSE) :
                       incl \in BOOLEAN, kinds \in { Uniform(n, "str"), Uniform(n, "ma_uk"), Alternate(n, "ma_fk", "ma_uk") },
                       subs \in { Uniform(n, "expr"), Alternate(n, "expr", "expruk"), Alternate(n, "expruk", "expr") },
                       cstr \in {FALSE} }
                   \cup { Mk("create_odesys", FALSE, Uniform(n, "str"), Uniform(n, "expr"), FALSE, FALSE) }
CfgAlias(n) == { [cf EXCEPT !.alias = TRUE] : cf \in CfgFew(n) \cup CfgSym(n) }
\* complete caller-made parameter tables together with overrides (create_odesys)
CfgPFull(n) == { [Mk("create_odesys", FALSE, Uniform(n, "str"), subs, cstr, FALSE)
                    EXCEPT !.psym = ps, !.pfull = TRUE] :
                   subs \in { FirstOnly(n, "num", "none"), Uniform(n, "num"), FirstOnly(n, "expr", "none"),
                              FirstOnly(n, "expr", "num") },
                   cstr \in BOOLEAN, ps \in {"order", "rev"} }
\* the zero value class: substituted / constants-object values that are exactly 0
Zeroed(cf) == [cf EXCEPT !.subvals = <<Q(0), Q(43), Q(0)>>, !.gsubval = Q(0), !.fsubval = Q(0)]
HasSub(cf) == cf.gsub # "none" \/ cf.fsub # "none" \/ \E i \in DOMAIN cf.subs : cf.subs[i] # "none"
CfgZero(n) == { Zeroed(cf) : cf \in { x \in CfgAll(n) \cup CfgUk2(n) \cup CfgConstQ(n) \cup CfgPFull(n) : HasSub(x) } }
               \cup { [cf EXCEPT !.gconst = Q(0), !.fconst = Q(0)] : cf \in { x \in CfgConstQ(n) : x.consts # <<>> } }
               \cup CfgFewBoth(n)
CfgZeroQ(n) == { cf \in CfgZero(n) : cf.subs \in { Uniform(n, "none"), Uniform(n, "num"), FirstOnly(n, "num", "none") }
                                      /\ (cf.builder = "create_odesys" \/ ~cf.incl \/ cf.kinds = Uniform(n, "ma_uk"))
                                      /\ cf.kinds \in { Uniform(n, "ma_uk"), Uniform(n, "str"), Uniform(n, "ma_uk2"),
                                                        Uniform(n, "ma_pk"), Uniform(n, "ma_num") }
                                      /\ cf.consts \in { <<>>, <<"g", "feedratio">> } }
\* quick tier: several families in one run (fewer TLC launches); which family applies depends on the state
CfgAliasQ(n) == { cf \in CfgAlias(n) : cf.symorder \in {<<>>, Rev(subst)} /\ cf.subs = Uniform(n, "none") }
\* (expression substitutions are exercised by CfgMultiExpr / CfgPFull at quick tier)
CfgAllQ(n) == { cf \in CfgAll(n) : cf.subs \in { Uniform(n, "none"), Uniform(n, "num"), FirstOnly(n, "num", "none") } }
CfgMainQ(n) == IF hist = <<>> THEN CfgAllQ(n) \cup CfgUk2(n) \cup CfgFormsQ(n) \cup CfgPFull(n) \cup CfgMultiExpr(n) \cup CfgAliasQ(n)
               ELSE CfgThree(n)
CfgExtraT(n) == CfgMultiExpr(n) \cup CfgAlias(n) \cup CfgPFull(n)
CfgFeedsQ(n) == CfgMixQ(n) \cup (IF feed.usermap THEN {} ELSE CfgConstQ(n))
=============================================================================
