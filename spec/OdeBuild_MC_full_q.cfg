INIT OInit
NEXT ONext
CONSTANTS
  Species = {"A", "B", "C", "D"}
  Catalog <- Cat8
  MaxR = 1
  KVals <- K3
  Orders <- OrdTwo
  FullOrder = TRUE
  Points <- Pts1
  Feeds <- Fd1
  PhaseMaps <- Ph1
  ReKVals <- NoReK
  MaxHist = 0
  NameMap <- NmId
  PForms <- PfPlain
  Containers <- CtList
  OvKVals <- Ov3
  SForms <- SfList
  KeySortSeq <- SortId
  Configs <- CfgFewBoth
  Comp <- CompDef
INVARIANT FreeVsInlinedAgree
INVARIANT ConfigOnlyChangesFreeSymbols
INVARIANT SubstitutionBeatsConstants
INVARIANT SymbolOrderIrrelevant
INVARIANT ParamsAreTheFreeSymbols
INVARIANT UntouchedOnlyFeed
INVARIANT RatePolyMatches
INVARIANT OTypeOK
INVARIANT EmitBuild
CHECK_DEADLOCK FALSE
