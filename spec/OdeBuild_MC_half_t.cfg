INIT OInit
NEXT ONext
CONSTANTS
  Species = {"A", "B", "C", "D"}
  Catalog <- CatHalfW
  MaxR = 2
  KVals <- K3
  Orders <- OrdOne
  FullOrder = FALSE
  Points <- PtsSq
  Feeds <- Fd1
  PhaseMaps <- Ph1
  ReKVals <- NoReK
  MaxHist = 0
  NameMap <- NmId
  PForms <- PfPlain
  Containers <- CtList
  OvKVals <- Ov3
  SForms <- SfList
  KeySortSeq <- SortId
  Configs <- CfgFewBoth
  Comp <- CompDef
INVARIANT FreeVsInlinedAgree
INVARIANT ConfigOnlyChangesFreeSymbols
INVARIANT SubstitutionBeatsConstants
INVARIANT SymbolOrderIrrelevant
INVARIANT ParamsAreTheFreeSymbols
INVARIANT UntouchedOnlyFeed
INVARIANT RatePolyMatches
INVARIANT OTypeOK
INVARIANT PolyAgreesWithFold
INVARIANT FeedExact
INVARIANT CurrentConstantRules
INVARIANT StoichDecomposes
INVARIANT EmitBuild
CHECK_DEADLOCK FALSE
