INIT OInit
NEXT ONext
CONSTANTS
  Species = {"A", "B", "C", "D"}
  Catalog <- Cat3
  MaxR = 2
  KVals <- K3
  Orders <- OrdOne
  FullOrder = FALSE
  Points <- Pts1
  Feeds <- NoFeeds
  PhaseMaps <- Ph1
  ReKVals <- ReK1
  MaxHist = 1
  NameMap <- NmIon
  PForms <- PfPlain
  Containers <- CtList
  OvKVals <- Ov3
  SForms <- SfList
  KeySortSeq <- SortIon
  Configs <- CfgMainQ
  Comp <- CompDef
INVARIANT FreeVsInlinedAgree
INVARIANT ConfigOnlyChangesFreeSymbols
INVARIANT SubstitutionBeatsConstants
INVARIANT SymbolOrderIrrelevant
INVARIANT ParamsAreTheFreeSymbols
INVARIANT UntouchedOnlyFeed
INVARIANT RatePolyMatches
INVARIANT OTypeOK
INVARIANT EmitBuild
CHECK_DEADLOCK FALSE
