INIT OInit
NEXT ONext
CONSTANTS
  Species = {"A", "B", "C", "D"}
  Catalog <- Cat2
  MaxR = 2
  KVals <- KZ
  Orders <- OrdOne
  FullOrder = FALSE
  Points <- PtsZ1
  Feeds <- FdZero2
  PhaseMaps <- Ph1
  ReKVals <- NoReK
  MaxHist = 0
  NameMap <- NmId
  PForms <- PfPlain
  Containers <- CtList
  OvKVals <- Ov3
  SForms <- SfList
  KeySortSeq <- SortId
  Configs <- CfgZeroQ
  Comp <- CompDef
INVARIANT FreeVsInlinedAgree
INVARIANT ConfigOnlyChangesFreeSymbols
INVARIANT SubstitutionBeatsConstants
INVARIANT SymbolOrderIrrelevant
INVARIANT ParamsAreTheFreeSymbols
INVARIANT UntouchedOnlyFeed
INVARIANT RatePolyMatches
INVARIANT OTypeOK
INVARIANT EmitBuild
CHECK_DEADLOCK FALSE
