---------------------------- MODULE Periodic ----------------------------
(* The periodic table used as the oracle for C01 (symbols), C13 and C14 (standard atomic      *)
(* weights).  Index = atomic number.  Weights are exact decimals <<integer part, 9-digit      *)
(* fraction>>; bracketed (mass number of the longest-lived isotope) entries are integers.     *)
(* GENERATED ONCE by tools/gen_periodic.py and frozen; see DESIGN.md (C14, trusted base).     *)
EXTENDS Naturals, Sequences, FiniteSets

Sym == <<
    "H", "He", "Li", "Be", "B", "C", "N", "O", "F", "Ne", "Na", "Mg",
    "Al", "Si", "P", "S", "Cl", "Ar", "K", "Ca", "Sc", "Ti", "V", "Cr",
    "Mn", "Fe", "Co", "Ni", "Cu", "Zn", "Ga", "Ge", "As", "Se", "Br", "Kr",
    "Rb", "Sr", "Y", "Zr", "Nb", "Mo", "Tc", "Ru", "Rh", "Pd", "Ag", "Cd",
    "In", "Sn", "Sb", "Te", "I", "Xe", "Cs", "Ba", "La", "Ce", "Pr", "Nd",
    "Pm", "Sm", "Eu", "Gd", "Tb", "Dy", "Ho", "Er", "Tm", "Yb", "Lu", "Hf",
    "Ta", "W", "Re", "Os", "Ir", "Pt", "Au", "Hg", "Tl", "Pb", "Bi", "Po",
    "At", "Rn", "Fr", "Ra", "Ac", "Th", "Pa", "U", "Np", "Pu", "Am", "Cm",
    "Bk", "Cf", "Es", "Fm", "Md", "No", "Lr", "Rf", "Db", "Sg", "Bh", "Hs",
    "Mt", "Ds", "Rg", "Cn", "Nh", "Fl", "Mc", "Lv", "Ts", "Og" >>

Name == <<
    "Hydrogen", "Helium", "Lithium", "Beryllium", "Boron",
    "Carbon", "Nitrogen", "Oxygen", "Fluorine", "Neon",
    "Sodium", "Magnesium", "Aluminium", "Silicon", "Phosphorus",
    "Sulfur", "Chlorine", "Argon", "Potassium", "Calcium",
    "Scandium", "Titanium", "Vanadium", "Chromium", "Manganese",
    "Iron", "Cobalt", "Nickel", "Copper", "Zinc",
    "Gallium", "Germanium", "Arsenic", "Selenium", "Bromine",
    "Krypton", "Rubidium", "Strontium", "Yttrium", "Zirconium",
    "Niobium", "Molybdenum", "Technetium", "Ruthenium", "Rhodium",
    "Palladium", "Silver", "Cadmium", "Indium", "Tin",
    "Antimony", "Tellurium", "Iodine", "Xenon", "Caesium",
    "Barium", "Lanthanum", "Cerium", "Praseodymium", "Neodymium",
    "Promethium", "Samarium", "Europium", "Gadolinium", "Terbium",
    "Dysprosium", "Holmium", "Erbium", "Thulium", "Ytterbium",
    "Lutetium", "Hafnium", "Tantalum", "Tungsten", "Rhenium",
    "Osmium", "Iridium", "Platinum", "Gold", "Mercury",
    "Thallium", "Lead", "Bismuth", "Polonium", "Astatine",
    "Radon", "Francium", "Radium", "Actinium", "Thorium",
    "Protactinium", "Uranium", "Neptunium", "Plutonium", "Americium",
    "Curium", "Berkelium", "Californium", "Einsteinium", "Fermium",
    "Mendelevium", "Nobelium", "Lawrencium", "Rutherfordium", "Dubnium",
    "Seaborgium", "Bohrium", "Hassium", "Meitnerium", "Darmstadtium",
    "Roentgenium", "Copernicium", "Nihonium", "Flerovium", "Moscovium",
    "Livermorium", "Tennessine", "Oganesson" >>

\* lower-case names (atomic_number lookup is case-insensitive)
LowerName == <<
    "hydrogen", "helium", "lithium", "beryllium", "boron",
    "carbon", "nitrogen", "oxygen", "fluorine", "neon",
    "sodium", "magnesium", "aluminium", "silicon", "phosphorus",
    "sulfur", "chlorine", "argon", "potassium", "calcium",
    "scandium", "titanium", "vanadium", "chromium", "manganese",
    "iron", "cobalt", "nickel", "copper", "zinc",
    "gallium", "germanium", "arsenic", "selenium", "bromine",
    "krypton", "rubidium", "strontium", "yttrium", "zirconium",
    "niobium", "molybdenum", "technetium", "ruthenium", "rhodium",
    "palladium", "silver", "cadmium", "indium", "tin",
    "antimony", "tellurium", "iodine", "xenon", "caesium",
    "barium", "lanthanum", "cerium", "praseodymium", "neodymium",
    "promethium", "samarium", "europium", "gadolinium", "terbium",
    "dysprosium", "holmium", "erbium", "thulium", "ytterbium",
    "lutetium", "hafnium", "tantalum", "tungsten", "rhenium",
    "osmium", "iridium", "platinum", "gold", "mercury",
    "thallium", "lead", "bismuth", "polonium", "astatine",
    "radon", "francium", "radium", "actinium", "thorium",
    "protactinium", "uranium", "neptunium", "plutonium", "americium",
    "curium", "berkelium", "californium", "einsteinium", "fermium",
    "mendelevium", "nobelium", "lawrencium", "rutherfordium", "dubnium",
    "seaborgium", "bohrium", "hassium", "meitnerium", "darmstadtium",
    "roentgenium", "copernicium", "nihonium", "flerovium", "moscovium",
    "livermorium", "tennessine", "oganesson" >>

WInt == <<
    1, 4, 6, 9, 10, 12, 14, 15, 18, 20, 22, 24, 26, 28, 30, 32,
    35, 39, 39, 40, 44, 47, 50, 51, 54, 55, 58, 58, 63, 65, 69, 72,
    74, 78, 79, 83, 85, 87, 88, 91, 92, 95, 98, 101, 102, 106, 107, 112,
    114, 118, 121, 127, 126, 131, 132, 137, 138, 140, 140, 144, 145, 150, 151, 157,
    158, 162, 164, 167, 168, 173, 174, 178, 180, 183, 186, 190, 192, 195, 196, 200,
    204, 207, 208, 209, 210, 222, 223, 226, 227, 232, 231, 238, 237, 244, 243, 247,
    247, 251, 252, 257, 258, 259, 266, 267, 268, 269, 270, 271, 278, 281, 282, 285,
    286, 289, 290, 293, 294, 294 >>

WFrac9 == <<
    8000000, 2602000, 940000000, 12183100, 810000000, 11000000, 7000000, 999000000,
    998403163, 179700000, 989769280, 305000000, 981538400, 85000000, 973761998, 60000000,
    450000000, 950000000, 98300000, 78000000, 955908000, 867000000, 941500000, 996100000,
    938043000, 845000000, 933194000, 693400000, 546000000, 380000000, 723000000, 630000000,
    921595000, 971000000, 904000000, 798000000, 467800000, 620000000, 905840000, 224000000,
    906370000, 950000000, 0, 70000000, 905490000, 420000000, 868200000, 414000000,
    818000000, 710000000, 760000000, 600000000, 904470000, 293000000, 905451960, 327000000,
    905470000, 116000000, 907660000, 242000000, 0, 360000000, 964000000, 250000000,
    925354000, 500000000, 930328000, 259000000, 934218000, 45000000, 966800000, 486000000,
    947880000, 840000000, 207000000, 230000000, 217000000, 84000000, 966570000, 592000000,
    380000000, 200000000, 980400000, 0, 0, 0, 0, 0,
    0, 37700000, 35880000, 28910000, 0, 0, 0, 0,
    0, 0, 0, 0, 0, 0, 0, 0,
    0, 0, 0, 0, 0, 0, 0, 0,
    0, 0, 0, 0, 0, 0 >>

Bracketed == { 43, 61, 84, 85, 86, 87, 88, 89, 93, 94, 95, 96, 97, 98, 99, 100, 101, 102, 103, 104, 105, 106, 107, 108, 109, 110, 111, 112, 113, 114, 115, 116, 117, 118 }

NElem == 118
Z == 1..NElem
Symbols == { Sym[z] : z \in Z }
ZOf(s) == CHOOSE z \in Z : Sym[z] = s
ZOfName(n) == CHOOSE z \in Z : LowerName[z] = n

\* electron mass in u used for the charge correction: 5.489e-4 (as 9-digit fraction)
ElectronFrac9 == 548900

\* period structure
PeriodLengths == <<2, 8, 8, 18, 18, 32, 32>>
AccPeriod == <<2, 10, 18, 36, 54, 86, 118>>
PeriodOf(z) == CHOOSE p \in 1..7 : z <= AccPeriod[p] /\ (p = 1 \/ z > AccPeriod[p-1])
\* main groups as the code tabulates them (1, 2, 13..18)
GroupMembers(g) ==
    IF g = 1 THEN {1} \cup { AccPeriod[p] + 1 : p \in 1..6 }
    ELSE IF g = 2 THEN { AccPeriod[p] + 2 : p \in 1..6 }
    ELSE IF g = 18 THEN { AccPeriod[p] : p \in 1..7 }
    ELSE { AccPeriod[p] - 18 + g : p \in 2..7 }

\* weight comparison on the exact decimals
WLess(a, b) == WInt[a] < WInt[b] \/ (WInt[a] = WInt[b] /\ WFrac9[a] < WFrac9[b])
SymbolsUnique == Cardinality(Symbols) = NElem
NamesUnique == Cardinality({ LowerName[z] : z \in Z }) = NElem
BracketedIntegral == \A z \in Bracketed : WFrac9[z] = 0
LengthsOK == Len(Sym) = NElem /\ Len(Name) = NElem /\ Len(WInt) = NElem /\ Len(WFrac9) = NElem
WeightsMonotoneExceptInversions ==
    \A z \in 1..(NElem-1) : WLess(z, z+1) \/ WInt[z] = WInt[z+1] \/ <<z, z+1>> \in
        { <<18,19>>, <<27,28>>, <<52,53>>, <<90,91>>, <<92,93>>, <<94,95>> }
GroupsConsistent ==
    /\ GroupMembers(18) = {2, 10, 18, 36, 54, 86, 118}
    /\ GroupMembers(1) = {1, 3, 11, 19, 37, 55, 87}
    /\ GroupMembers(17) = {9, 17, 35, 53, 85, 117}
    /\ \A z \in Z : PeriodOf(z) \in 1..7
=============================================================================
