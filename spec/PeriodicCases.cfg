INIT Init
NEXT Next
INVARIANT TableOK
INVARIANT Emit
CHECK_DEADLOCK FALSE
