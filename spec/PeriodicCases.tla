---------------------------- MODULE PeriodicCases ----------------------------
(* C14, table part: one case per element from the frozen reference table (Periodic.tla), and *)
(* the table's own consistency facts as invariants.                                           *)
EXTENDS Integers, Sequences, TLC, Json, Periodic

VARIABLE z
Init == z = 0
Pick(y) == z = 0 /\ y \in Z /\ z' = y
Next == \E y \in Z : Pick(y)

Done == z # 0
MainGroupOf(y) == IF \E g \in {1, 2, 13, 14, 15, 16, 17, 18} : y \in GroupMembers(g)
                  THEN CHOOSE g \in {1, 2, 13, 14, 15, 16, 17, 18} : y \in GroupMembers(g) ELSE 0
CaseRec == [ in |-> [z |-> z],
             exp |-> [sym |-> Sym[z], name |-> Name[z], lower |-> LowerName[z],
                      wint |-> WInt[z], wfrac9 |-> WFrac9[z], bracketed |-> z \in Bracketed,
                      period |-> PeriodOf(z), maingroup |-> MainGroupOf(z)],
             cls |-> IF z \in Bracketed THEN "bracketed" ELSE "standard" ]
Emit == Done => PrintT(<<"CASE", ToJson(CaseRec)>>)

TableOK == SymbolsUnique /\ NamesUnique /\ BracketedIntegral /\ LengthsOK
           /\ WeightsMonotoneExceptInversions /\ GroupsConsistent
=============================================================================
