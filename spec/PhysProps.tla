---------------------------- MODULE PhysProps ----------------------------
(* Physical-chemistry relations of chempy.properties.*, chempy.henry,                         *)
(* chempy.electrochemistry.nernst and chempy.einstein_smoluchowski (property C19).            *)
(*                                                                                            *)
(* For every relation the module fixes                                                        *)
(*   - its arguments, the unit each argument is documented in, and the unit of the result     *)
(*     (units are rows of UnitTable: factor to SI and dimension vector),                      *)
(*   - its validity range and which argument is the temperature,                              *)
(*   - the law itself: an exact decimal expression (BigDec: Tanaka density, Myhre polynomial, *)
(*     Korson exponent), an exact rational (Schumpe), or a term tree (module Terms) for laws  *)
(*     with exp / log / real powers,                                                          *)
(*   - published anchor values and shape facts.                                               *)
(*                                                                                            *)
(* State machine:  Choose(fn, args)  then  Call(mode).  A mode says how the SAME physical     *)
(* inputs are handed over: plain numbers in the documented units ("unitless"), quantities in  *)
(* the documented units ("units"), quantities in scaled units ("scaled": mM vs M, Pa vs bar,  *)
(* g/mol vs kg/mol, cm2/s vs m2/s) or with the temperature in millikelvin ("scaledT");        *)
(* `consts` / `uobj` say whether a constants / a units object is passed (all accepted          *)
(* combinations for the relations that take `constants`).  Call sets  warned' = the temperature  *)
(* lies outside the documented range.  Invariants: ModesDenoteSameValue (what is handed over, *)
(* converted back, is the chosen input - in every mode), UnitsCompatible, ResultDimAsNamed    *)
(* (the dimension algebra of the law gives the dimension of the documented result unit),      *)
(* WarnIffOutside, and the anchor / shape facts of the exact laws, decided by TLC.            *)
(*                                                                                            *)
(* Literature coefficients cannot be re-fetched offline: they are pinned here, typed from the *)
(* chempy docstrings / modules citing Tanaka 2001, Korson 1969, Holz 2000, Bradley & Pitzer   *)
(* 1979, Myhre 1998, Schumpe 1993; anchors are the table values quoted in the repository's    *)
(* tests and docstrings.  The anchor invariants guard the transcription.                      *)
EXTENDS Integers, Sequences, FiniteSets, TLC, Json, Rational, BigNat, BigDec, Terms

CONSTANTS
    Points,       \* set of [fn |-> name, a |-> argument record]
    ModeNames     \* subset of {"unitless", "concplain", "units", "scaled", "scaledT"}

VARIABLES fn, args, mode, given, warned, stage, ncalls
vars == <<fn, args, mode, given, warned, stage, ncalls>>

------------------------------------------------------------------------------
(* units: factor to SI and dimension vector over <<m, kg, s, A, K, mol>> *)
DimZero == <<0, 0, 0, 0, 0, 0>>
DimMul(a, b) == [i \in 1..6 |-> a[i] + b[i]]
DimInv(a) == [i \in 1..6 |-> -a[i]]
DimDiv(a, b) == DimMul(a, DimInv(b))
dLen == <<1, 0, 0, 0, 0, 0>>   dMass == <<0, 1, 0, 0, 0, 0>>   dTime == <<0, 0, 1, 0, 0, 0>>
dCur == <<0, 0, 0, 1, 0, 0>>   dTemp == <<0, 0, 0, 0, 1, 0>>   dAmt == <<0, 0, 0, 0, 0, 1>>
dPress == <<-1, 1, -2, 0, 0, 0>>
dConc == <<-3, 0, 0, 0, 0, 1>>
dDens == <<-3, 1, 0, 0, 0, 0>>
dEnergy == <<2, 1, -2, 0, 0, 0>>
dCharge == <<0, 0, 1, 1, 0, 0>>
dVolt == DimDiv(dEnergy, dCharge)
dDiff == <<2, 0, -1, 0, 0, 0>>
dVisc == DimMul(dPress, dTime)
dMob == DimDiv(dDiff, dVolt)

U(si, dim) == [si |-> Norm(si), dim |-> dim]
UnitNames == {"none", "1", "K", "mK", "bar", "Pa", "kPa", "atm", "M", "mM", "mol/m3", "kg/m3", "g/cm3",
              "m2/s", "cm2/s", "cP", "Pa*s", "M/atm", "mM/bar", "mol/m3/Pa", "kg/mol", "g/mol", "V", "m2/V/s"}
UnitTable == [u \in UnitNames |->
    CASE u = "none" -> U(<<1, 1>>, DimZero)          [] u = "1" -> U(<<1, 1>>, DimZero)
      [] u = "K" -> U(<<1, 1>>, dTemp)               [] u = "mK" -> U(<<1, 1000>>, dTemp)
      [] u = "bar" -> U(<<100000, 1>>, dPress)       [] u = "Pa" -> U(<<1, 1>>, dPress)
      [] u = "kPa" -> U(<<1000, 1>>, dPress)         [] u = "atm" -> U(<<101325, 1>>, dPress)
      [] u = "M" -> U(<<1000, 1>>, dConc)            [] u = "mM" -> U(<<1, 1>>, dConc)
      [] u = "mol/m3" -> U(<<1, 1>>, dConc)
      [] u = "kg/m3" -> U(<<1, 1>>, dDens)           [] u = "g/cm3" -> U(<<1000, 1>>, dDens)
      [] u = "m2/s" -> U(<<1, 1>>, dDiff)            [] u = "cm2/s" -> U(<<1, 10000>>, dDiff)
      [] u = "cP" -> U(<<1, 1000>>, dVisc)          [] u = "Pa*s" -> U(<<1, 1>>, dVisc)
      [] u = "M/atm" -> U(<<1000, 101325>>, DimDiv(dConc, dPress))
      [] u = "mM/bar" -> U(<<1, 100000>>, DimDiv(dConc, dPress))
      [] u = "mol/m3/Pa" -> U(<<1, 1>>, DimDiv(dConc, dPress))
      [] u = "kg/mol" -> U(<<1, 1>>, DimDiv(dMass, dAmt))
      [] u = "g/mol" -> U(<<1, 1000>>, DimDiv(dMass, dAmt))
      [] u = "V" -> U(<<1, 1>>, dVolt)
      [] u = "m2/V/s" -> U(<<1, 1>>, dMob)]
(* magnitude in unit `to` of one `from` *)
Conv(from, to) == QDiv(UnitTable[from].si, UnitTable[to].si)
BaseNames == <<"m", "kg", "s", "A", "K", "mol">>
DimPairs(d) == LET idx == { i \in 1..6 : d[i] # 0 }
                   RECURSIVE S(_)
                   S(i) == IF i > 6 THEN <<>> ELSE (IF i \in idx THEN << <<BaseNames[i], d[i]>> >> ELSE <<>>) \o S(i + 1)
               IN  S(1)

------------------------------------------------------------------------------
(* relations *)
Fns == {"water_density", "water_viscosity", "water_diffusion", "water_permittivity",
        "sulfuric_acid_density", "density_from_concentration", "lg_solubility_ratio",
        "henry_H", "henry_c", "henry_P", "henry_roundtrip", "nernst", "mobility"}
ArgNames == {"T", "P", "w", "c1", "c2", "c3", "z", "D", "H0", "Td", "M", "T0", "Tz", "eta20", "atol", "em0", "em1"}
(* optional arguments and their documented defaults: T0 (reference temperature of a Henry       *)
(* constant, 298.15 K), Tz (the kelvin value of 0 C in the density correlations, 273.15 K),       *)
(* eta20 (viscosity at 20 C, 1.0020 cP).  `impl` = leave arguments that equal their documented    *)
(* default implicit (not passed); otherwise they are passed explicitly - with the same meaning.   *)
HenryT0 == <<5963, 20>>
K0 == <<5463, 20>>                               \* 273.15 K
Eta20 == <<501, 500>>
(* Further options of the calls (coverage audit): T and P themselves have documented defaults   *)
(* (298.15 K, 1 bar) in the correlations; `atol` is the stopping criterion of the inverse         *)
(* (1e-3 kg/m3); em0 / em1 are the err_mult multipliers of the Holz correlation (0 = unperturbed);*)
(* wflag: the `warn` keyword ("default" = not passed, "off" = warn=False, "on" = warn=True);      *)
(* be: the `backend` keyword ("default" = not passed, "math", "numpy", "sympy");                  *)
(* via: how a Henry constant is evaluated ("class", "function" = Henry_H_at_T, "alias" =          *)
(* get_kH_at_T).                                                                                  *)
TDefault == <<5963, 20>>                         \* 298.15 K
AtolDefault == <<1, 1000>>
MDefault == <<2451987, 25000000>>                \* 98.07948e-3 kg/mol: the documented default molar mass (H2SO4)
NoArgs == [T |-> QZero, P |-> QZero, w |-> QZero, c1 |-> QZero, c2 |-> QZero, c3 |-> QZero, z |-> QZero,
           D |-> QZero, H0 |-> QZero, Td |-> QZero, M |-> QZero, T0 |-> HenryT0, Tz |-> K0, eta20 |-> Eta20,
           atol |-> AtolDefault, em0 |-> QZero, em1 |-> QZero,
           sel |-> 0, impl |-> TRUE, wflag |-> "default", be |-> "default", via |-> "class"]
DefaultOf(a) == CASE a = "T0" -> HenryT0 [] a = "Tz" -> K0 [] a = "eta20" -> Eta20 [] a = "T" -> TDefault
                  [] a = "P" -> QOne [] a = "atol" -> AtolDefault [] a = "M" -> MDefault

(* arguments that carry a unit, with the unit they are documented in *)
DocUnits(f) ==
    CASE f \in {"water_density", "sulfuric_acid_density"} -> [a \in {"T", "Tz"} |-> "K"]
      [] f = "water_viscosity" -> [a \in {"T", "eta20"} |-> IF a = "T" THEN "K" ELSE "cP"]
      [] f = "water_diffusion" -> [a \in {"T"} |-> "K"]
      [] f = "water_permittivity" -> [a \in {"T", "P"} |-> IF a = "T" THEN "K" ELSE "bar"]
      [] f = "density_from_concentration" ->
              [a \in {"T", "M", "atol", "Tz"} |-> CASE a = "T" -> "K" [] a = "M" -> "kg/mol" [] a = "atol" -> "kg/m3" [] a = "Tz" -> "K"]  \* conc: see ConcGiven
      [] f = "lg_solubility_ratio" -> [a \in {"c1", "c2", "c3"} |-> "M"]
      [] f = "henry_H" -> [a \in {"T", "H0", "Td", "T0"} |-> CASE a = "H0" -> "M/atm" [] OTHER -> "K"]
      [] f \in {"henry_c", "henry_roundtrip"} ->
              [a \in {"T", "H0", "Td", "T0", "P"} |-> CASE a = "H0" -> "M/atm" [] a = "P" -> "atm" [] OTHER -> "K"]
      [] f = "henry_P" ->
              [a \in {"T", "H0", "Td", "T0", "c1"} |-> CASE a = "H0" -> "M/atm" [] a = "c1" -> "M" [] OTHER -> "K"]
      [] f = "nernst" -> [a \in {"T", "c1", "c2"} |-> IF a = "T" THEN "K" ELSE "mM"]
      [] f = "mobility" -> [a \in {"T", "D"} |-> IF a = "T" THEN "K" ELSE "m2/s"]
(* the scaled unit of an argument (mode "scaled"); arguments not listed keep the documented one *)
ScaledUnit(f, a) ==
    CASE a = "P" /\ f = "water_permittivity" -> "Pa"
      [] a = "P" -> "Pa"
      [] a = "M" -> "g/mol"
      [] a = "c1" /\ f = "lg_solubility_ratio" -> "mM"
      [] a = "c1" /\ f = "henry_P" -> "mM"
      [] a = "c2" /\ f = "nernst" -> "M"
      [] a = "H0" -> "mM/bar"
      [] a = "D" -> "cm2/s"
      [] a = "eta20" -> "Pa*s"
      [] a = "atol" -> "g/cm3"
      [] OTHER -> DocUnits(f)[a]
ResultUnit(f) ==
    CASE f \in {"water_density", "sulfuric_acid_density", "density_from_concentration"} -> "kg/m3"
      [] f = "water_viscosity" -> "cP"
      [] f = "water_diffusion" -> "m2/s"
      [] f \in {"water_permittivity", "lg_solubility_ratio"} -> "1"
      [] f = "henry_H" -> "M/atm"
      [] f = "henry_c" -> "M"
      [] f \in {"henry_P", "henry_roundtrip"} -> "atm"
      [] f = "nernst" -> "V"
      [] f = "mobility" -> "m2/V/s"
(* dimension of the result obtained by dimension algebra on the law *)
LawDim(f) ==
    CASE f \in {"water_density", "sulfuric_acid_density", "density_from_concentration"} -> DimDiv(dMass, DimMul(dLen, DimMul(dLen, dLen)))
      [] f = "water_viscosity" -> DimDiv(dMass, DimMul(dLen, dTime))                 \* poise family
      [] f = "water_diffusion" -> DimDiv(DimMul(dLen, dLen), dTime)
      [] f \in {"water_permittivity", "lg_solubility_ratio"} -> DimZero
      [] f = "henry_H" -> DimDiv(dConc, dPress)
      [] f = "henry_c" -> DimMul(dPress, DimDiv(dConc, dPress))                      \* c = P H
      [] f \in {"henry_P", "henry_roundtrip"} -> DimDiv(dConc, DimDiv(dConc, dPress)) \* P = c / H
      \* R T / (z F): (J / mol / K) K / (C / mol)
      [] f = "nernst" -> DimDiv(DimMul(DimDiv(dEnergy, DimMul(dAmt, dTemp)), dTemp), DimDiv(dCharge, dAmt))
      \* D z e / (kB T): (m2/s) C / ((J/K) K)
      [] f = "mobility" -> DimDiv(DimMul(dDiff, dCharge), DimMul(DimDiv(dEnergy, dTemp), dTemp))

(* Schumpe 1993, eq. (16): lg(c0 / c) = sum_i (h_i + h_G) c_i  (c in mol/dm3)                *)
HIon(k) == CASE k = "Na+" -> <<1171, 10000>> [] k = "K+" -> <<959, 10000>> [] k = "Mg+2" -> <<1765, 10000>>
             [] k = "Cl-" -> <<334, 10000>> [] k = "Br-" -> <<137, 10000>> [] k = "OH-" -> <<756, 10000>>
             [] k = "SO4-2" -> <<1185, 10000>> [] k = "F-" -> <<1016, 10000>> [] k = "NO3-" -> <<50, 10000>>
HGas(g) == CASE g = "O2" -> <<0, 1>> [] g = "CO2" -> <<-183, 10000>> [] g = "N2O" -> <<-110, 10000>>
             [] g = "H2" -> <<-24, 1000>> [] g = "He" -> <<-36, 1000>> [] g = "C2H6" -> <<11, 1000>>
SchumpeSel == << [ions |-> <<"Na+", "Cl-">>, gas |-> "O2"], [ions |-> <<"Na+", "Br-">>, gas |-> "N2O"],
                 [ions |-> <<"K+", "OH-">>, gas |-> "CO2"], [ions |-> <<"Mg+2", "SO4-2">>, gas |-> "H2"],
                 [ions |-> <<"Na+", "F-">>, gas |-> "He"], [ions |-> <<"K+", "NO3-">>, gas |-> "C2H6"],
                 [ions |-> <<"Cl-">>, gas |-> "CO2"], [ions |-> <<"Na+", "K+", "SO4-2">>, gas |-> "N2O"] >>
Schumpe(sel, cs) ==
    LET s == SchumpeSel[sel] IN
    QSumSeq([i \in 1..Len(s.ions) |-> QMul(QAdd(HGas(s.gas), HIon(s.ions[i])), cs[i])])

(* modes = call configurations.  name: how the inputs are handed over (unitless = plain numbers,  *)
(* concplain = temperature as a quantity but concentrations as plain numbers, units, scaled,      *)
(* scaledT); consts: a constants object is passed; uobj: a units object is passed.  The relations  *)
(* that take `constants` (nernst, mobility) are called in every combination their signature       *)
(* accepts meaningfully: as soon as the constants carry units (consts or uobj) the dimensional     *)
(* inputs must be quantities, and they may then be in any compatible unit.                         *)
Md3(n, c, uo) == [name |-> n, consts |-> c, uobj |-> uo]
Md(n, c) == Md3(n, c, n \notin {"unitless", "none"})        \* default: units object iff quantities
ConstModes(names) == {Md3("unitless", FALSE, FALSE)} \cup
                     ({ Md3(n, c, uo) : n \in names, c \in BOOLEAN, uo \in BOOLEAN } \ { Md3(n, FALSE, FALSE) : n \in names })
(* array modes (second audit): EVERY unit-carrying argument is handed over as a two-element array *)
(* (plain numpy array "uarray"; quantity array in the documented unit "qarray"); every element of  *)
(* the result is judged.  For the relations whose signature accepts arrays for all arguments.      *)
ArrayModeFns == {"water_permittivity", "henry_H", "henry_c", "henry_P", "nernst", "mobility"}
ArrayModes(f) == IF f \in {"nernst", "mobility"}
                 THEN {Md3("uarray", FALSE, FALSE), Md3("qarray", FALSE, TRUE), Md3("qarray", TRUE, FALSE)}
                 ELSE IF f \in ArrayModeFns THEN {Md3("uarray", FALSE, FALSE), Md3("qarray", FALSE, TRUE)} ELSE {}
ModesOf(f) ==
    { m \in ArrayModes(f) \cup
            (IF f = "nernst" THEN ConstModes({"concplain", "units", "scaled"})
             ELSE IF f = "mobility" THEN ConstModes({"units", "scaled"})
             ELSE IF f \in {"water_density", "water_diffusion", "sulfuric_acid_density"}
             THEN { Md(n, FALSE) : n \in {"unitless", "units", "scaledT"} }
             ELSE IF f \in {"density_from_concentration", "lg_solubility_ratio"}
             THEN { Md(n, FALSE) : n \in {"unitless", "units", "scaled"} }
             ELSE { Md(n, FALSE) : n \in {"unitless", "units", "scaled", "scaledT"} }) : m.name \in ModeNames }

UnitIn(f, a, m) ==
    CASE m.name = "unitless" -> "none"
      [] m.name = "concplain" -> IF a = "T" THEN DocUnits(f)[a] ELSE "none"
      [] m.name = "units" -> DocUnits(f)[a]
      [] m.name = "uarray" -> "none"
      [] m.name = "qarray" -> DocUnits(f)[a]
      [] m.name = "scaled" -> ScaledUnit(f, a)
      [] m.name = "scaledT" -> IF a \in {"T", "T0", "Tz"} THEN "mK" ELSE DocUnits(f)[a]
DocOf(f, a, u) == IF u = "none" THEN DocUnits(f)[a] ELSE u
(* what is handed over for argument a: magnitude `mag` in unit `unit` (mul = mag / value) *)
GivenArg(f, ar, a, m) ==
    LET u == UnitIn(f, a, m)
        mul == Conv(DocUnits(f)[a], DocOf(f, a, u))
    IN  [unit |-> u, mul |-> mul, mag |-> QMul(ar[a], mul)]
OptionalArgs(f) ==
    CASE f \in {"water_density", "sulfuric_acid_density"} -> {"T", "Tz"}
      [] f = "water_viscosity" -> {"T", "eta20"}
      [] f = "water_diffusion" -> {"T"}
      [] f = "water_permittivity" -> {"T", "P"}
      [] f = "density_from_concentration" -> {"T", "atol", "M", "Tz"}
      [] f \in {"henry_H", "henry_c", "henry_P", "henry_roundtrip"} -> {"T0"}
      [] OTHER -> {}
(* arguments that do not exist for this point (a salting-out mapping has 1, 2 or 3 ions) *)
Absent(f, ar) == IF f = "lg_solubility_ratio"
                 THEN { a \in {"c2", "c3"} : (a = "c2" /\ Len(SchumpeSel[ar.sel].ions) < 2) \/ (a = "c3" /\ Len(SchumpeSel[ar.sel].ions) < 3) }
                 ELSE {}
Omitted(f, ar) == (IF ar.impl THEN { a \in DOMAIN DocUnits(f) \cap OptionalArgs(f) : Norm(ar[a]) = DefaultOf(a) } ELSE {})
                  \cup Absent(f, ar)
Given(f, ar, m) == [a \in DOMAIN DocUnits(f) \ Omitted(f, ar) |-> GivenArg(f, ar, a, m)]

------------------------------------------------------------------------------
(* validity ranges *)
TRange(f) ==
    CASE f = "water_density" -> <<K0, <<6263, 20>>>>                       \* 0 .. 40 C
      [] f \in {"water_viscosity", "water_diffusion"} -> <<K0, <<7463, 20>>>>  \* 0 .. 100 C
      [] f = "water_permittivity" -> <<K0, <<12463, 20>>>>                 \* 0 .. 350 C
      [] f \in {"sulfuric_acid_density", "density_from_concentration"} -> <<K0, <<6463, 20>>>>  \* 0 .. 50 C
      [] OTHER -> <<QZero, QZero>>                                         \* no range
HasTRange(f) == TRange(f) # <<QZero, QZero>>
(* the density correlations take the kelvin value of 0 C as an argument (Tz, documented default  *)
(* 273.15): a caller may hand T over on ANY scale with that zero, e.g. in Celsius with Tz = 0.     *)
(* TK is the temperature on the kelvin scale the ranges are written in.                           *)
TK(f, ar) == IF f \in {"water_density", "sulfuric_acid_density"} THEN QAdd(QSub(ar.T, ar.Tz), K0) ELSE ar.T
TOutside(f, ar) == HasTRange(f) /\ (QLt(TK(f, ar), TRange(f)[1]) \/ QLt(TRange(f)[2], TK(f, ar)))
OtherOutside(f, ar) ==
    CASE f = "water_permittivity" -> QLt(<<2000, 1>>, ar.P)
      [] f = "sulfuric_acid_density" -> QLt(ar.w, <<1, 10>>) \/ QLt(<<9, 10>>, ar.w)
      [] OTHER -> FALSE
RangeClass(f, ar) == IF TOutside(f, ar) THEN "Toutside" ELSE IF OtherOutside(f, ar) THEN "otheroutside" ELSE "inside"
(* density_from_concentration calls the correlation with warn=False (its documented default) *)
WarnEnabled(f, ar) == CASE ar.wflag = "off" -> FALSE [] ar.wflag = "on" -> TRUE
                        [] OTHER -> f # "density_from_concentration"
(* density_from_concentration(warn=True) forwards the flag to the correlation for every ITERATE  *)
(* of the fixed point; an iterate may leave the mass-fraction range although the solution is     *)
(* inside, so with T inside a (mass-fraction) warning is neither demanded nor forbidden          *)
WarnExpect(f, ar) ==
    IF ~WarnEnabled(f, ar) THEN "no"
    ELSE IF f = "density_from_concentration" THEN (IF TOutside(f, ar) THEN "yes" ELSE "either")
    ELSE CASE RangeClass(f, ar) = "Toutside" -> "yes" [] RangeClass(f, ar) = "inside" -> "no" [] OTHER -> "either"

(* guard band (DESIGN 6: every float threshold has one): a point exactly ON a range limit, handed *)
(* over in a converted unit (2000 bar as 2e8 Pa, 313.15 K as 313150 mK), may land on either side  *)
(* of the code's float comparison after rescaling; there a warning is neither demanded nor        *)
(* forbidden.  In plain numbers / documented units the limits themselves count as inside.         *)
OnBoundary(f, ar) ==
    \/ HasTRange(f) /\ (Norm(TK(f, ar)) = Norm(TRange(f)[1]) \/ Norm(TK(f, ar)) = Norm(TRange(f)[2]))
    \/ f = "water_permittivity" /\ Norm(ar.P) = <<2000, 1>>
    \/ f = "sulfuric_acid_density" /\ (Norm(ar.w) = <<1, 10>> \/ Norm(ar.w) = <<9, 10>>)
WarnExpectM(f, ar, m) ==
    IF WarnExpect(f, ar) = "no" /\ OnBoundary(f, ar) /\ m.name \in {"scaled", "scaledT"} THEN "either"
    ELSE WarnExpect(f, ar)

------------------------------------------------------------------------------
(* exact laws *)
Celsius(T) == DSub(DFromQ(T), DHund(27315))
CelsiusZ(T, Tz) == DSub(DFromQ(T), DFromQ(Tz))      \* with the caller-supplied kelvin value of 0 C

(* Tanaka et al. 2001:  rho = a5 (1 - (t + a1)^2 (t + a2) / (a3 (t + a4))),  t in Celsius *)
Tanaka_a0 == DDec(-1, 3, <<9830, 3500>>)       \* -3.983035
Tanaka_a1 == DDec(1, 301, <<7970>>)            \* 301.797
Tanaka_a2 == DDec(1, 522528, <<9000>>)         \* 522528.9
Tanaka_a3 == DDec(1, 69, <<3488, 1000>>)       \* 69.34881
Tanaka_a4 == DDec(1, 999, <<9749, 5000>>)      \* 999.974950
RhoWater(t) ==
    LET num == DMul(DSq(DAdd(t, Tanaka_a0)), DAdd(t, Tanaka_a1))
        den == DMul(Tanaka_a2, DAdd(t, Tanaka_a3))
    IN  DQ(DMul(Tanaka_a4, DSub(den, num)), den)
TMaxDensity == DNeg(Tanaka_a0)                 \* 3.983035 C

(* Korson et al. 1969:  eta = eta20 * 10^E(t),  E = (A (20 - t) - B (t - 20)^2) / (t + C)     *)
Korson_A == DDec(1, 1, <<1709>>)   Korson_B == DDec(1, 0, <<18, 2700>>)   Korson_C == DDec(1, 89, <<9300>>)
KorsonE(t) == DQ(DSub(DMul(Korson_A, DSub(DInt(20), t)), DMul(Korson_B, DSq(DSub(t, DInt(20))))),
                 DAdd(t, Korson_C))
vT == TVar("T")
tC == TSub(vT, TQ(27315, 100))
ViscTerm == TMul(TVar("eta20"),
                 TPow(TC(10), TDiv(TSub(TMul(TQ(11709, 10000), TSub(TC(20), tC)),
                                        TMul(TQ(1827, 1000000), TSq(TSub(tC, TC(20))))),
                                   TAdd(tC, TQ(8993, 100)))))

(* Holz et al. 2000:  D = D0 (T / TS - 1)^gamma *)
(* err_mult = (em0, em1) perturbs D0 by em0 * 2.242e-11 and TS by em1 * 1.2 (reported uncertainties) *)
DiffTerm == TMul(TAdd(TDec(1635, -11), TMul(TVar("em0"), TDec(2242, -14))),
                 TPow(TSub(TDiv(vT, TAdd(TQ(21505, 100), TMul(TVar("em1"), TQ(12, 10)))), TC(1)), TQ(2063, 1000)))

(* Bradley & Pitzer 1979, eqs. as in the docstring of water_permittivity (T in K, P in bar)  *)
vP == TVar("P")
BP_U1 == TQ(34279, 100)      BP_U2 == TDec(-50866, -7)   BP_U3 == TDec(94690, -11)
BP_U4 == TQ(-20525, 10000)   BP_U5 == TQ(31159, 10)      BP_U6 == TQ(-18289, 100)
BP_U7 == TQ(-80325, 10)      BP_U8 == TC(4214200)        BP_U9 == TQ(21417, 10000)
BP_B == TSum(<<BP_U7, TDiv(BP_U8, vT), TMul(BP_U9, vT)>>)
BP_C == TAdd(BP_U4, TDiv(BP_U5, TAdd(BP_U6, vT)))
PermTerm == TAdd(TMul(BP_U1, TExp(TAdd(TMul(BP_U2, vT), TMul(BP_U3, TSq(vT))))),
                 TMul(BP_C, TLog(TDiv(TAdd(BP_B, vP), TAdd(BP_B, TC(1000))))))

(* Myhre et al. 1998, eq. (2):  rho = sum_ij rho_ij w^i t^j  (i = 0..10, j = 0..4)           *)
Myhre ==
    << <<DDec(1, 999, <<8426>>), DDec(1, 0, <<334, 5402>>), DDec(-1, 0, <<56, 9130, 4000>>), DZero, DZero>>,
       <<DDec(1, 547, <<2659>>), DDec(-1, 5, <<3004, 4500>>), DDec(1, 0, <<118, 7671>>), DDec(1, 0, <<5, 9900, 800>>), DZero>>,
       <<DDec(1, 5262, <<9500>>), DDec(1, 37, <<2044, 5000>>), DDec(1, 0, <<1201, 9090>>), DDec(-1, 0, <<41, 4859, 4000>>), DDec(1, 0, <<0, 1197, 9730>>)>>,
       <<DDec(-1, 62139, <<5800>>), DDec(-1, 287, <<7670>>), DDec(-1, 0, <<4064, 6380>>), DDec(1, 0, <<111, 9488>>), DDec(1, 0, <<0, 3607, 7680>>)>>,
       <<DDec(1, 409029, <<3000>>), DDec(1, 1270, <<8540>>), DDec(1, 0, <<3269, 7100>>), DDec(-1, 0, <<137, 7435>>), DDec(-1, 0, <<0, 2633, 5850>>)>>,
       <<DDec(-1, 1596989, <<>>), DDec(-1, 3062, <<8360>>), DDec(1, 0, <<1366, 4990>>), DDec(1, 0, <<63, 7303, 1000>>), DZero>>,
       <<DDec(1, 3857411, <<>>), DDec(1, 4083, <<7140>>), DDec(-1, 0, <<1927, 7850>>), DZero, DZero>>,
       <<DDec(-1, 5808064, <<>>), DDec(-1, 2844, <<4010>>), DZero, DZero, DZero>>,
       <<DDec(1, 5301976, <<>>), DDec(1, 809, <<1053>>), DZero, DZero, DZero>>,
       <<DDec(-1, 2682616, <<>>), DZero, DZero, DZero, DZero>>,
       <<DDec(1, 576428, <<8000>>), DZero, DZero, DZero, DZero>> >>
RhoAcid(w, t) == DHorner([i \in 1..11 |-> DHorner(Myhre[i], t)], w)

(* Henry's law with van 't Hoff temperature dependence, T0 = 298.15 K                        *)
HenryTerm == TMul(TVar("H0"), TExp(TMul(TVar("Td"), TSub(TInv(vT), TInv(TVar("T0"))))))
HenrySel == << [H0 |-> <<12, 10000>>, Td |-> <<1800, 1>>, T0 |-> HenryT0, impl |-> TRUE],      \* O2 (docstring)
               [H0 |-> <<78, 100000>>, Td |-> <<640, 1>>, T0 |-> HenryT0, impl |-> FALSE],     \* H2 (tests), T0 passed
               [H0 |-> <<34, 1000>>, Td |-> <<2400, 1>>, T0 |-> HenryT0, impl |-> TRUE],       \* CO2-like
               [H0 |-> <<13, 10000>>, Td |-> <<1700, 1>>, T0 |-> <<5863, 20>>, impl |-> TRUE], \* tabulated at 293.15 K
               [H0 |-> <<9, 10000>>, Td |-> <<1500, 1>>, T0 |-> <<310, 1>>, impl |-> FALSE] >> \* tabulated at 310 K
(* Nernst:  E = R T / (z F) ln(c_out / c_in);  Einstein-Smoluchowski:  mu = D z e / (kB T)   *)
cR == TAdd(TC(8), TDec(3144598, -7))                  \* 8.3144598 J/(mol K)
cF == TAdd(TC(96485), TQ(33289, 100000))              \* 96485.33289 C/mol
ce == TDec(160217662, -27)                            \* 1.60217662e-19 C
ckB == TDec(138064852, -31)                           \* 1.38064852e-23 J/K
NernstTerm == TMul(TDiv(TMul(cR, vT), TMul(TVar("z"), cF)), TLog(TDiv(TVar("c1"), TVar("c2"))))
MobTerm == TDiv(TProd(<<TVar("D"), TVar("z"), ce>>), TMul(ckB, vT))

TermOf(f) ==
    CASE f = "water_viscosity" -> ViscTerm
      [] f = "water_diffusion" -> DiffTerm
      [] f = "water_permittivity" -> PermTerm
      [] f = "henry_H" -> HenryTerm
      [] f = "henry_c" -> TMul(vP, HenryTerm)
      [] f = "henry_P" -> TDiv(TVar("c1"), HenryTerm)
      [] f = "henry_roundtrip" -> TDiv(TMul(vP, HenryTerm), HenryTerm)
      [] f = "nernst" -> NernstTerm
      [] f = "mobility" -> MobTerm
ExactFns == {"water_density", "sulfuric_acid_density", "density_from_concentration"}
Env(ar) == [n \in ArgNames |-> ar[n]]

(* the expected value, in the documented result unit *)
BDQ(x) == [num |-> x.n, den |-> x.d]
NoBDQ == [num |-> DZero, den |-> DOne]
Expected(f, ar) ==
    IF f = "water_density" THEN [kind |-> "bdq", bdq |-> BDQ(RhoWater(CelsiusZ(ar.T, ar.Tz))), q |-> QZero, term |-> TC(0)]
    ELSE IF f \in {"sulfuric_acid_density", "density_from_concentration"}
    THEN [kind |-> "bdq", bdq |-> BDQ(DQ(RhoAcid(DFromQ(ar.w), CelsiusZ(ar.T, ar.Tz)), DOne)), q |-> QZero, term |-> TC(0)]
    ELSE IF f = "lg_solubility_ratio"
    THEN [kind |-> "q", bdq |-> NoBDQ, q |-> Schumpe(ar.sel, <<ar.c1, ar.c2, ar.c3>>), term |-> TC(0)]
    ELSE IF f = "henry_roundtrip"
    THEN [kind |-> "q", bdq |-> NoBDQ, q |-> ar.P, term |-> TC(0)]
    ELSE LET v == EvalQR(TermOf(f), Env(ar)) IN
         IF v.st = "q" THEN [kind |-> "q", bdq |-> NoBDQ, q |-> v.q, term |-> TC(0)]
         ELSE [kind |-> "term", bdq |-> NoBDQ, q |-> QZero, term |-> TInst(TermOf(f), Env(ar))]

(* concentration handed to density_from_concentration: c = w rho(w, T) / M  (mol/m3)         *)
ConcGiven(ar, m) ==
    LET u == IF m.name = "unitless" THEN "none" ELSE IF m.name = "scaled" THEN "M" ELSE "mol/m3"
        \* c = w rho M[2] / M[1]
    IN  [unit |-> u, mul |-> Conv("mol/m3", IF u = "none" THEN "mol/m3" ELSE u),
         bdq |-> [num |-> DMul(DMul(DFromQ(ar.w), RhoAcid(DFromQ(ar.w), Celsius(ar.T))), DInt(ar.M[2])),
                  den |-> DInt(ar.M[1])]]

(* comparison tolerances carried in the case *)
Rtol(f, m) ==
    CASE f = "water_density" -> <<1, 1000000000>> \* 1e-9: exact rational function
      [] f = "sulfuric_acid_density" -> <<1, 100000000>>   \* 1e-8: degree-10 polynomial with cancellation
      [] f = "density_from_concentration" -> <<0, 1>>
      [] f \in {"nernst", "mobility"} -> IF m.consts THEN <<1, 100000>> ELSE <<1, 1000000000>>
      [] OTHER -> <<1, 1000000000>>
Atol(f, ar) == IF f = "density_from_concentration" THEN QMul(<<50, 1>>, ar.atol)   \* criterion / (1 - contraction)
               ELSE QZero

------------------------------------------------------------------------------
Init ==
    /\ fn = "none" /\ args = NoArgs /\ mode = Md("none", FALSE) /\ given = <<>>
    /\ warned = FALSE /\ stage = "idle" /\ ncalls = 0

Choose(f, ar) ==
    /\ stage = "idle" /\ f \in Fns
    /\ fn' = f /\ args' = ar /\ stage' = "chosen"
    /\ UNCHANGED <<mode, given, warned, ncalls>>

Call(m) ==
    /\ stage = "chosen" /\ m \in ModesOf(fn)
    \* nernst_potential's default backend (math) takes scalars only: arrays go with backend = numpy
    /\ (m.name \in {"uarray", "qarray"} => args.be # "math" /\ (fn = "nernst" => args.be = "numpy"))
    /\ mode' = m
    /\ given' = Given(fn, args, m)
    /\ warned' = (TOutside(fn, args) /\ WarnEnabled(fn, args))
    /\ stage' = "done" /\ ncalls' = ncalls + 1
    /\ UNCHANGED <<fn, args>>

(* a further call in the same session (used by the trace specification for series) *)
Again ==
    /\ stage = "done"
    /\ stage' = "idle" /\ UNCHANGED <<fn, args, mode, given, warned, ncalls>>

GenChoose == \E p \in Points : Choose(p.fn, p.a)
GenCall == \E n \in ModeNames, c \in BOOLEAN, uo \in BOOLEAN : Call(Md3(n, c, uo))
Next == GenChoose \/ GenCall
Spec == Init /\ [][Next]_vars
Done == stage = "done"

------------------------------------------------------------------------------
(* invariants *)
TypeOK == stage \in {"idle", "chosen", "done"} /\ fn \in Fns \cup {"none"}

(* every mode hands over the chosen physical input: converting the given magnitude back to   *)
(* the documented unit gives the chosen value, whatever the mode                             *)
ModesDenoteSameValue ==
    Done => \A a \in DOMAIN given :
        /\ QMul(given[a].mag, Conv(DocOf(fn, a, given[a].unit), DocUnits(fn)[a])) = Norm(args[a])
        /\ \A m2 \in ModesOf(fn) :
             LET g2 == GivenArg(fn, args, a, m2) IN
             QMul(g2.mag, UnitTable[DocOf(fn, a, g2.unit)].si) = QMul(given[a].mag, UnitTable[DocOf(fn, a, given[a].unit)].si)
UnitsCompatible ==
    Done => \A a \in DOMAIN given :
        UnitTable[DocOf(fn, a, given[a].unit)].dim = UnitTable[DocUnits(fn)[a]].dim
ResultDimAsNamed == fn \in Fns => LawDim(fn) = UnitTable[ResultUnit(fn)].dim
WarnIffOutside ==
    Done => /\ (warned <=> (TOutside(fn, args) /\ WarnEnabled(fn, args)))
            /\ (WarnExpect(fn, args) = "yes" => warned)
            /\ (WarnExpect(fn, args) = "no" => ~warned)
            /\ ((RangeClass(fn, args) = "inside" /\ fn # "density_from_concentration") => WarnExpect(fn, args) = "no")
            /\ (args.wflag = "off" => ~warned)

(* shape and anchors of the exact laws (decided by TLC at the chosen temperature) *)
Half == DDec(1, 0, <<5000>>)
DensityShape ==
    (fn = "water_density" /\ stage # "idle" /\ ~TOutside(fn, args)) =>
        LET t == CelsiusZ(args.T, args.Tz)  r == RhoWater(t)  r2 == RhoWater(DAdd(t, Half))
            top == DQ(Tanaka_a4, DOne)
        IN  /\ DQLe(r, top)                                        \* never above the maximum
            /\ (DQEq(r, top) <=> DEq(t, TMaxDensity))              \* attained exactly at 3.983035 C
            /\ (DLe(DAdd(t, Half), TMaxDensity) => DQLt(r, r2))    \* rising below it
            /\ (DLe(TMaxDensity, t) => DQLt(r2, r))                \* falling above it
AnchorsDensity == << <<0, 9998395, 40>>, <<4, 9999720, 30>>, <<10, 9997026, 3>>, <<15, 9991026, 1>>,
                     <<20, 9982071, 5>>, <<25, 9970479, 9>>, <<30, 9956502, 16>>, <<40, 9922000, 200>> >>
DensityAnchors ==          \* Tanaka's recommended table: <<t / C, rho * 10^4, tolerance * 10^4>>
    \A i \in 1..Len(AnchorsDensity) :
        LET a == AnchorsDensity[i] IN
        DQWithin(RhoWater(DInt(a[1])), DQ(DMyriad(a[2]), DOne), DMyriad(a[3]))
ViscosityShape ==
    (fn = "water_viscosity" /\ stage # "idle" /\ ~TOutside(fn, args)) =>
        LET t == Celsius(args.T) IN
        /\ DQLt(KorsonE(DAdd(t, Half)), KorsonE(t))                \* strictly falling
        /\ (DEq(t, DInt(20)) => DEq(KorsonE(t).n, DZero))          \* eta(20 C) = eta20 = 1.0020 cP
        /\ (DLt(t, DInt(20)) <=> DLt(DZero, KorsonE(t).n))
ViscosityAnchor ==
    LET v == EvalQR(ViscTerm, [n \in {"T", "eta20"} |-> IF n = "T" THEN <<5863, 20>> ELSE Eta20])
    IN  v.st = "q" /\ v.q = <<501, 500>>
AcidAnchors ==
    /\ DQWithin(DQ(RhoAcid(DDec(1, 0, <<1000>>), DDec(1, 24, <<8500>>)), DOne), DQ(DDec(1, 1063, <<8000>>), DOne), DDec(1, 0, <<1000>>))
    /\ DLe(DInt(1396), RhoAcid(DDec(1, 0, <<5000>>), DDec(1, 19, <<8500>>)))
    /\ DLt(RhoAcid(DDec(1, 0, <<5000>>), DDec(1, 19, <<8500>>)), DInt(1397))
HenryAnchor ==
    \A i \in 1..Len(HenrySel) :                                    \* H(T0) = H0, whatever T0
        LET h == HenrySel[i]
            v == EvalQR(HenryTerm, [n \in {"T", "H0", "Td", "T0"} |->
                        CASE n = "T" -> h.T0 [] n = "H0" -> h.H0 [] n = "Td" -> h.Td [] n = "T0" -> h.T0])
        IN  v.st = "q" /\ v.q = Norm(h.H0)
NernstZero ==
    (fn = "nernst" /\ stage # "idle" /\ args.c1 = args.c2) =>
        \* the logarithmic factor vanishes exactly (the prefactor R T / (z F) is finite)
        LET v == EvalQR(TLog(TDiv(TVar("c1"), TVar("c2"))), Env(args)) IN v.st = "q" /\ v.q = QZero
Anchors == DensityAnchors /\ ViscosityAnchor /\ AcidAnchors /\ HenryAnchor

------------------------------------------------------------------------------
(* case export *)
RelevantArgs == DOMAIN DocUnits(fn) \cup
    (CASE fn = "sulfuric_acid_density" -> {"w"} [] fn = "density_from_concentration" -> {"w"}
       [] fn = "water_diffusion" -> {"em0", "em1"}
       [] fn \in {"nernst", "mobility"} -> {"z"} [] OTHER -> {})
CaseRec ==
    LET e == Expected(fn, args) IN
    [ in  |-> [fn |-> fn, mode |-> mode,
               args |-> [a \in RelevantArgs |-> args[a]], sel |-> args.sel, impl |-> args.impl,
               given |-> given,
               opts |-> [warn |-> args.wflag, backend |-> args.be, via |-> args.via,
                         err_mult |-> fn = "water_diffusion" /\ ~(args.impl /\ args.em0 = QZero /\ args.em1 = QZero),
                         \* the coefficient tuple (a / U) passed explicitly, as returned by just_return_a / _U
                         coef |-> ~args.impl /\ fn \in {"water_density", "water_permittivity"}],
               conc |-> IF fn = "density_from_concentration" THEN ConcGiven(args, mode)
                        ELSE [unit |-> "none", mul |-> QOne, bdq |-> NoBDQ],
               names |-> IF fn = "lg_solubility_ratio" THEN SchumpeSel[args.sel] ELSE [ions |-> <<>>, gas |-> ""]],
      exp |-> [kind |-> e.kind, q |-> e.q, term |-> e.term, bdq |-> e.bdq,
               rtol |-> Rtol(fn, mode), atol |-> Atol(fn, args),
               unit |-> ResultUnit(fn), dim |-> DimPairs(UnitTable[ResultUnit(fn)].dim),
               warn |-> WarnExpectM(fn, args, mode), warned |-> warned,
               inputs_unchanged |-> TRUE,          \* frame: Call leaves fn and args unchanged
               \* the fixed-point inverse documents a refusal (NoConvergence); it is accepted only
               \* where the iteration starts outside the correlation's range (w > 0.7)
               refusal |-> IF fn = "density_from_concentration" /\ QLt(<<7, 10>>, args.w)
                           THEN "NoConvergence" ELSE ""],
      cls |-> fn \o "-" \o mode.name \o (IF mode.consts THEN "+c" ELSE "")
                 \o (IF mode.uobj = (mode.name # "unitless") THEN "" ELSE "+nou") \o "-" \o RangeClass(fn, args) ]
Emit == Done => PrintT(<<"CASE", ToJson(CaseRec)>>)

(* Catalog of ARRAY-valued temperature inputs (one call, one warning for the whole call), derived *)
(* from the documented ranges: every combination of "some element below the range", "elements     *)
(* spread over the whole range" and "some element above the range".  WarnIffOutside for arrays:    *)
(* a warning iff SOME element is outside (judged by PhysPropsTrace!ArrayWarnOK).  Temperatures in  *)
(* hundredths of a kelvin.  Exported once, from the initial state.                                *)
ArrayFns == {"water_density", "water_viscosity", "water_diffusion", "water_permittivity"}
Hundredths(q) == (q[1] * 100) \div q[2]
InsideGrid(f, n) == LET lo == Hundredths(TRange(f)[1])  hi == Hundredths(TRange(f)[2])
                    IN  [i \in 1..n |-> lo + ((i - 1) * (hi - lo)) \div (n - 1)]
Below(f) == <<Hundredths(TRange(f)[1]) - 1000>>
Above(f) == <<Hundredths(TRange(f)[2]) + 100>>       \* 1 K above (the permittivity law has no real value far above its range at 1 bar)
ArrayPatterns(f) ==
    << [pat |-> "inside", Ts |-> InsideGrid(f, 6)],
       [pat |-> "below+inside", Ts |-> Below(f) \o InsideGrid(f, 6)],
       [pat |-> "inside+above", Ts |-> InsideGrid(f, 6) \o Above(f)],
       [pat |-> "below+inside+above", Ts |-> Below(f) \o InsideGrid(f, 4) \o Above(f)],
       [pat |-> "below+upper-half", Ts |-> Below(f) \o SubSeq(InsideGrid(f, 6), 4, 6)],
       [pat |-> "lower-half+above", Ts |-> SubSeq(InsideGrid(f, 6), 1, 3) \o Above(f)],
       [pat |-> "below-only", Ts |-> <<Hundredths(TRange(f)[1]) - 2000>> \o Below(f)],
       [pat |-> "inside-fine", Ts |-> InsideGrid(f, 11)] >>
SeriesCatalog ==
    LET fs == <<"water_density", "water_viscosity", "water_diffusion", "water_permittivity", "water_permittivity">>
        ps == <<QZero, QZero, QZero, QOne, <<1000, 1>> >>
    IN  [k \in 1..(Len(fs) * 8) |->
            LET i == ((k - 1) \div 8) + 1   j == ((k - 1) % 8) + 1 IN
            [fn |-> fs[i], P |-> ps[i], pat |-> ArrayPatterns(fs[i])[j].pat, Ts |-> ArrayPatterns(fs[i])[j].Ts]]
CatalogCase == [ in |-> [fn |-> "series-catalog", series |-> SeriesCatalog], exp |-> [n |-> Len(SeriesCatalog)],
                 cls |-> "catalog" ]
EmitCatalog == (stage = "idle" /\ ncalls = 0 /\ fn = "none") => PrintT(<<"CASE", ToJson(CatalogCase)>>)
=============================================================================
