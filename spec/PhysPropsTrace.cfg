INIT TInit
NEXT TNext
CONSTANTS
  Points <- NoPoints
  ModeNames <- OnlyUnitless
INVARIANT Verdict
INVARIANT WarnIffOutside
CHECK_DEADLOCK FALSE
