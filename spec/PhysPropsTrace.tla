---------------------------- MODULE PhysPropsTrace ----------------------------
(* Trace validation for PhysProps (C19): series of values returned by the real correlations   *)
(* along a temperature grid (plain-number mode).  Every sample is replayed as                 *)
(*     Choose(fn, args) ; Call(unitless) ; <judge the observation> ; Again                    *)
(* and TLC judges, on the OBSERVED numbers,                                                   *)
(*   - the warning (iff the temperature is outside the documented range),                     *)
(*   - the exact laws (Tanaka density, Myhre polynomial) to one quantum,                      *)
(*   - the published anchors,                                                                 *)
(*   - the shape facts: water density rises up to its maximum at 3.98 C and falls after it,   *)
(*     viscosity and permittivity fall strictly with temperature.                             *)
(* events: {k:"sample", fn, mode, arr, T:[n,d], P:[n,d], w:[n,d], y:<int>, qexp:<int>,           *)
(*          warned:<bool>}       mode = unitless | units;  arr = the sample is an element of an   *)
(*         {k:"result", n:<number of samples>, arr, warned}      array-valued call                *)
(*         observed value = y / 10^qexp in the documented result unit                            *)
EXTENDS PhysProps, IOUtils

Traces == JsonDeserialize(IOEnv.TRACE_FILE)

VARIABLES tid, pos, sub, last, anyOut, anyNotNo, verdict
tvars == <<vars, tid, pos, sub, last, anyOut, anyNotNo, verdict>>

Ev == Traces[tid][pos]
NoLast == [fn |-> "none", T |-> QZero, y |-> 0]

TInit == Init /\ tid \in 1..Len(Traces) /\ pos = 1 /\ sub = 0 /\ last = NoLast /\ verdict = "none"
         /\ anyOut = FALSE /\ anyNotNo = FALSE

ArgsOf(e) == [NoArgs EXCEPT !.T = Norm(<<e.T[1], e.T[2]>>), !.P = Norm(<<e.P[1], e.P[2]>>), !.w = Norm(<<e.w[1], e.w[2]>>)]
ObsQ(e) == DQ(DInt(e.y), DInt(IPow(10, e.qexp)))

(* a series is either one call per sample (each with its own warning flag) or ONE call with the *)
(* whole temperature array (e.arr): then the flag belongs to the call and is judged at the end:  *)
(* a warning iff some element lies outside the range                                            *)
WarnOK(e) == e.arr \/ (/\ (WarnExpect(fn, args) = "yes" => e.warned)
                       /\ (WarnExpect(fn, args) = "no" => ~e.warned))
ArrayWarnOK(e) == e.arr => ((anyOut => e.warned) /\ (~anyNotNo => ~e.warned))
(* |obs - law| <= 2 quanta for the exact laws *)
ExactOK(e) ==
    fn \in {"water_density", "sulfuric_acid_density"} =>
        LET x == Expected(fn, args).bdq
            d == DQSub(ObsQ(e), DQ(x.num, x.den))
        IN  DLe(DMul(DAbs(d.n), DInt(IPow(10, e.qexp))), DMul(DInt(2), d.d))

(* anchors: <<T in hundredths of K, value * 10^4, tolerance * 10^4>> *)
AnchorsVisc == << <<27315, 17916, 5>>, <<27815, 15192, 5>>, <<28315, 13069, 5>>, <<28815, 11382, 5>>,
                  <<29315, 10020, 5>>, <<29815, 8903, 5>>, <<30315, 7975, 5>>, <<30815, 7195, 5>>,
                  <<31315, 6532, 5>>, <<31815, 5963, 5>>, <<32315, 5471, 5>>, <<32815, 5042, 5>>,
                  <<33315, 4666, 5>>, <<33815, 4334, 5>>, <<34315, 4039, 5>>, <<34815, 3775, 5>>,
                  <<35315, 3538, 5>>, <<35815, 3323, 5>>, <<36315, 3128, 5>>, <<36815, 2949, 6>>,
                  <<37315, 2783, 20>> >>
AnchorsPerm == << <<29315, 801000, 2000>>, <<29815, 784000, 2000>>, <<37315, 553000, 5000>> >>   \* at 1 bar
AnchorsRho == [i \in 1..Len(AnchorsDensity) |->
                 <<27315 + 100 * AnchorsDensity[i][1], AnchorsDensity[i][2], AnchorsDensity[i][3]>>]
AnchorTable ==
    CASE fn = "water_density" -> AnchorsRho
      [] fn = "water_viscosity" -> AnchorsVisc
      [] fn = "water_permittivity" /\ args.P = QOne -> AnchorsPerm
      [] fn = "sulfuric_acid_density" /\ args.w = <<1, 10>> -> << <<29800, 10638000, 1000>> >>
      [] OTHER -> <<>>
AnchorOK(e) ==
    \A i \in 1..Len(AnchorTable) :
        LET a == AnchorTable[i] IN
        (args.T = Norm(<<a[1], 100>>)) => DQWithin(ObsQ(e), DQ(DMyriad(a[2]), DOne), DMyriad(a[3]))

PeakK == DAdd(DHund(27315), TMaxDensity)
ShapeOK(e) ==
    (last.fn = fn) =>
        CASE fn \in {"water_viscosity", "water_permittivity"} -> e.y < last.y
          [] fn = "water_density" /\ ~TOutside(fn, args) ->
                /\ (DLe(DFromQ(args.T), PeakK) => e.y > last.y)
                /\ (DLe(PeakK, DFromQ(last.T)) => e.y < last.y)
          [] OTHER -> TRUE
OrderOK == last.fn = fn => QLt(last.T, args.T)

TStep ==
    /\ verdict = "none" /\ pos <= Len(Traces[tid])
    /\ IF Ev.k = "result"
       THEN /\ sub = 0 /\ Ev.n = ncalls /\ ArrayWarnOK(Ev)
            /\ verdict' = "accept" /\ pos' = pos + 1 /\ UNCHANGED <<vars, sub, last, anyOut, anyNotNo>>
       ELSE /\ Ev.k = "sample" /\ verdict' = "none"
            /\ CASE sub = 0 -> Choose(Ev.fn, ArgsOf(Ev)) /\ sub' = 1 /\ UNCHANGED <<pos, last, anyOut, anyNotNo>>
                 [] sub = 1 -> Call(Md(Ev.mode, FALSE)) /\ sub' = 2 /\ UNCHANGED <<pos, last, anyOut, anyNotNo>>
                 [] sub = 2 -> /\ Ev.ok /\ OrderOK /\ WarnOK(Ev) /\ ExactOK(Ev) /\ AnchorOK(Ev) /\ ShapeOK(Ev)
                               /\ Again /\ sub' = 0 /\ pos' = pos + 1
                               /\ last' = [fn |-> fn, T |-> args.T, y |-> Ev.y]
                               /\ anyOut' = (anyOut \/ TOutside(fn, args))
                               /\ anyNotNo' = (anyNotNo \/ WarnExpect(fn, args) # "no")
    /\ UNCHANGED tid

TReject ==
    /\ verdict = "none" /\ ~ENABLED TStep
    /\ verdict' = "reject" /\ UNCHANGED <<vars, tid, pos, sub, last, anyOut, anyNotNo>>

TNext == TStep \/ TReject

Clause ==
    IF pos > Len(Traces[tid]) THEN "no-result-event"
    ELSE LET e == Ev IN
      IF e.k = "result" THEN (IF sub = 0 /\ e.n = ncalls THEN (IF e.warned THEN "spurious-warning" ELSE "missing-warning")
                              ELSE "count")
      ELSE IF sub = 0 THEN "step:choose"
      ELSE IF sub = 1 THEN "step:call"
      ELSE IF ~e.ok THEN "unencodable-value"     \* nan, inf, complex, None, too large: equals no expectation
      ELSE IF ~OrderOK THEN "step:order"
      ELSE IF ~WarnOK(e) THEN (IF e.warned THEN "spurious-warning" ELSE "missing-warning")
      ELSE IF ~ExactOK(e) THEN "value"
      ELSE IF ~AnchorOK(e) THEN "anchor"
      ELSE "shape"

NoPoints == {}
OnlyUnitless == {"unitless", "units"}
Verdict == verdict # "none" =>
    PrintT(<<"VERDICT", tid, verdict, pos, IF verdict = "accept" THEN "" ELSE Clause>>)
=============================================================================
