---------------------------- MODULE PhysProps_MC ----------------------------
(* Quick-tier point sets of PhysProps (C19).  Temperatures in hundredths of a kelvin.         *)
EXTENDS PhysProps

ASSUME Anchors

HK(n) == Norm(<<n, 100>>)
R(n, d) == Norm(<<n, d>>)
AllModes == {"unitless", "concplain", "units", "scaled", "scaledT", "uarray", "qarray"}
P1(f, Ts) == { [fn |-> f, a |-> [NoArgs EXCEPT !.T = HK(t)]] : t \in Ts }
(* the same relations with their optional arguments passed explicitly (documented default value, *)
(* or another eta20): the value must not change / must scale with eta20                           *)
P1x(f, Ts, Etas) == { [fn |-> f, a |-> [NoArgs EXCEPT !.T = HK(t), !.impl = FALSE, !.eta20 = e]] : t \in Ts, e \in Etas }
PermPts(Ts, Ps) == { [fn |-> "water_permittivity", a |-> [NoArgs EXCEPT !.T = HK(t), !.P = R(p, 1)]] : t \in Ts, p \in Ps }
AcidPts(Ws, Ts) == { [fn |-> "sulfuric_acid_density", a |-> [NoArgs EXCEPT !.T = HK(t), !.w = R(w, 100)]] : w \in Ws, t \in Ts }
AcidPtsX(Ws, Ts) == { [fn |-> "sulfuric_acid_density", a |-> [NoArgs EXCEPT !.T = HK(t), !.w = R(w, 100), !.impl = FALSE]] : w \in Ws, t \in Ts }
MH2SO4 == R(9807948, 100000000)            \* 98.07948 g/mol = 2 H + S + 4 O, in kg/mol
InvPts(Ws, Ts) == { [fn |-> "density_from_concentration", a |-> [NoArgs EXCEPT !.T = HK(t), !.w = R(w, 100), !.M = MH2SO4]] :
                      w \in Ws, t \in Ts }
SchumpePts(Sels, Cs) == { [fn |-> "lg_solubility_ratio", a |-> [NoArgs EXCEPT !.sel = s, !.c1 = c[1], !.c2 = c[2], !.c3 = QAdd(c[1], c[2])]] :
                            s \in Sels, c \in Cs }
HenryPts(Fs, Sels, Ts, Xs) ==
    { [fn |-> f, a |-> [NoArgs EXCEPT !.T = HK(t), !.H0 = HenrySel[s].H0, !.Td = HenrySel[s].Td, !.sel = s,
                                      !.T0 = HenrySel[s].T0, !.impl = HenrySel[s].impl,
                                      !.P = IF f \in {"henry_c", "henry_roundtrip"} THEN x ELSE QZero,
                                      !.c1 = IF f = "henry_P" THEN x ELSE QZero]] :
        f \in Fs, s \in Sels, t \in Ts, x \in Xs }
NernstPts(Ts, Zs, Cs) == { [fn |-> "nernst", a |-> [NoArgs EXCEPT !.T = HK(t), !.z = Q(z), !.c1 = c[1], !.c2 = c[2]]] :
                             t \in Ts, z \in Zs, c \in Cs }
MobPts(Ts, Zs, Ds) == { [fn |-> "mobility", a |-> [NoArgs EXCEPT !.T = HK(t), !.z = Q(z), !.D = d]] :
                          t \in Ts, z \in Zs, d \in Ds }

(* option wrappers (coverage audit): the `warn` / `backend` keywords, optional arguments passed   *)
(* explicitly, the way a Henry constant is evaluated, err_mult, atol                              *)
WithOpts(S, w, b) == { [fn |-> p.fn, a |-> [p.a EXCEPT !.wflag = w, !.be = b]] : p \in S }
Explicit(S) == { [fn |-> p.fn, a |-> [p.a EXCEPT !.impl = FALSE]] : p \in S }
WithVia(S, v) == { [fn |-> p.fn, a |-> [p.a EXCEPT !.via = v]] : p \in S }
WithErr(S, Es) == { [fn |-> p.fn, a |-> [p.a EXCEPT !.em0 = e[1], !.em1 = e[2], !.impl = e[3]]] : p \in S, e \in Es }
WithAtol(S, As) == { [fn |-> p.fn, a |-> [p.a EXCEPT !.atol = x]] : p \in S, x \in As }
(* temperatures handed over on another scale: T in hundredths of a degree, Tz = the zero of that  *)
(* scale (0 = Celsius; falsy but valid), and other falsy-but-valid argument values                *)
WithTz(S, z) == { [fn |-> p.fn, a |-> [p.a EXCEPT !.Tz = z]] : p \in S }
Corr5(Ts) == P1("water_density", Ts) \cup P1("water_viscosity", Ts) \cup P1("water_diffusion", Ts)
             \cup PermPts(Ts, {1}) \cup AcidPts({50}, Ts)
Err_q == { <<Q(1), Q(1), TRUE>>, <<Q(-1), Q(2), TRUE>>, <<Q(0), Q(0), FALSE>> }

TW_q == {27315, 27515, 27713, 27715, 28315, 29315, 29815, 31315,   27314, 31316, 25000, 35000}
TV_q == {27315, 27815, 29315, 29815, 32315, 34815, 37315,   27314, 37316, 26000, 40000}
TP_q == {27315, 29315, 29815, 34315, 37315, 47315, 62315,   27314, 62316, 20000}
TA_q == {27315, 28315, 29300, 29800, 32315,   27314, 32316, 26000}
Conc_q == { <<R(1, 20), R(1, 20)>>, <<R(1, 2), R(1, 4)>>, <<R(1, 1000), R(2, 1)>> }
NC_q == { <<R(145, 1), R(15, 1)>>, <<R(4, 1), R(150, 1)>>, <<R(10, 1), R(10, 1)>>, <<R(2, 1), R(7, 100000)>> }
Pts_q ==
    P1("water_density", TW_q) \cup P1("water_viscosity", TV_q) \cup P1("water_diffusion", TV_q)
    \cup P1x("water_density", {27315, 27715, 31316}, {Eta20})
    \cup P1x("water_viscosity", {27315, 29315, 31000, 37316}, {Eta20, R(626, 625)})
    \cup AcidPtsX({50}, {29300, 27314})
    \cup PermPts(TP_q, {1, 1000}) \cup PermPts({37315}, {3000})
    \cup AcidPts({10, 50, 90, 5, 95}, TA_q) \cup InvPts({10, 30, 50}, {27315, 29300, 32315})
    \cup SchumpePts(1..8, Conc_q)
    \* coverage audit: options and defaults
    \cup WithOpts(Corr5({29815, 26000, 40000}), "off", "default") \cup WithOpts(Corr5({31000, 25000}), "on", "default")
    \cup Explicit(Corr5({29815}))
    \cup WithOpts(PermPts({29815, 34315, 20000}, {1, 1000}), "default", "math")
    \cup WithOpts(HenryPts({"henry_H", "henry_c"}, {1, 4}, {29000, 29315}, {R(1, 1)}), "default", "math")
    \cup WithOpts(NernstPts({31000}, {-2, 1}, NC_q), "default", "numpy") \cup WithOpts(NernstPts({29815}, {2}, NC_q), "default", "math")
    \cup WithVia(HenryPts({"henry_H"}, {1, 2, 4, 5}, {29000, 29315}, {QZero}), "function")
    \cup WithVia(HenryPts({"henry_H"}, {1, 5}, {31000}, {QZero}), "alias")
    \cup WithErr(P1("water_diffusion", {27315, 29815, 35000}), Err_q)
    \cup WithAtol(InvPts({30, 50}, {29300}), {R(1, 1000000), R(1, 10)}) \cup Explicit(InvPts({30}, {29815, 29300}))
    \cup WithOpts(InvPts({30}, {29300, 33000, 27000}), "on", "default") \cup InvPts({30}, {29815, 33000})
    \* falsy-but-valid values: Celsius scale (Tz = 0) incl. T = 0, another zero, P = 0 bar, w = 0, c = 0, D = 0, z = 0
    \* second audit: Henry instance history / explicit units keyword, T0 forwarded through the inverse
    \cup WithVia(HenryPts({"henry_H", "henry_c"}, {1, 4}, {29000, 31000}, {R(1, 1)}), "reuse")
    \cup WithVia(HenryPts({"henry_H", "henry_P"}, {2, 5}, {29000}, {R(1, 4)}), "unitskw")
    \* the plain Henry class holding quantities, the units object given per call (both convenience methods forward it)
    \cup WithVia(HenryPts({"henry_c", "henry_P"}, {2, 5}, {29000}, {R(1, 4)}), "plainunits")
    \cup Explicit(InvPts({30, 50}, {29300, 27315}))
    \cup WithTz(P1("water_density", {0, 398, 400, 2500, 4000, 4001, -1}), QZero)
    \cup WithTz(P1("water_density", {100, 500}), R(1, 1))
    \cup WithTz(AcidPts({50, 0}, {0, 1985, 5000, 5001}), QZero)
    \cup PermPts({29815, 37315}, {0}) \cup AcidPts({0}, {29815})
    \cup SchumpePts({1, 8}, { <<R(0, 1), R(1, 2)>> })
    \cup HenryPts({"henry_c"}, {1, 4}, {29000}, {QZero})
    \cup MobPts({30000}, {0, 2}, {QZero, R(3, 1000000000)})
    \cup WithErr(P1("water_diffusion", {29815}), { <<Q(0), Q(1), TRUE>>, <<Q(2), Q(0), TRUE>> })
    \cup HenryPts({"henry_H"}, {1, 2, 4, 5}, {27315, 29315, 29815, 31000, 35000}, {QZero})
    \cup HenryPts({"henry_c", "henry_roundtrip"}, {1, 3, 4}, {29000, 29815, 31000}, {R(1, 1), R(21, 100)})
    \cup HenryPts({"henry_P"}, {1, 2, 5}, {29000, 29815, 31000}, {R(1, 1000), R(1, 4)})
    \cup NernstPts({29815, 31000}, {-2, -1, 1, 2}, NC_q)
    \cup MobPts({27315, 30000}, {-2, 1, 3}, {R(3, 1000000000), R(93, 1000000000)})
=============================================================================
