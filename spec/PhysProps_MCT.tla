---------------------------- MODULE PhysProps_MCT ----------------------------
(* Thorough-tier point sets of PhysProps (C19): dense grids over each validity range and      *)
(* just outside it.                                                                           *)
EXTENDS PhysProps_MC

Grid(lo, hi, step) == { lo + step * k : k \in 0..((hi - lo) \div step) }
TW_t == Grid(27315, 31315, 50) \cup {27713, 27314, 31316, 27265, 31365, 25000, 35000, 20000}
TV_t == Grid(27315, 37315, 100) \cup {29815, 27314, 37316, 27215, 37415, 26000, 40000}
TP_t == Grid(27315, 62315, 500) \cup {29815, 27314, 62316, 26000, 65000, 20000}
TA_t == Grid(27315, 32315, 500) \cup {29300, 29800, 27314, 32316, 26000, 34000}
Conc_t == Conc_q \cup { <<R(0, 1), R(1, 1)>>, <<R(3, 1), R(3, 2)>>, <<R(1, 100), R(1, 100)>> }
NC_t == NC_q \cup { <<R(1, 1000), R(1, 1)>>, <<R(110, 1), R(10, 1)>>, <<R(1, 3), R(2, 7)>> }
Pts_t ==
    P1("water_density", TW_t) \cup P1("water_viscosity", TV_t) \cup P1("water_diffusion", TV_t)
    \cup P1x("water_density", Grid(27315, 31315, 500) \cup {27314, 31316}, {Eta20})
    \cup P1x("water_viscosity", Grid(27315, 37315, 1000) \cup {27314, 37316}, {Eta20, R(626, 625), R(1, 1)})
    \cup AcidPtsX({10, 50, 90}, TA_t)
    \cup PermPts(TP_t, {1, 100, 1000, 2000}) \cup PermPts({34815, 37315, 47315, 62315}, {3000, 6000})
    \cup AcidPts({10, 20, 30, 40, 50, 60, 70, 80, 90, 5, 95, 0, 100}, TA_t)
    \cup InvPts({10, 20, 30, 40, 50, 60, 70, 80}, {27315, 28315, 29300, 29800, 31315, 32315})
    \cup SchumpePts(1..8, Conc_t)
    \cup HenryPts({"henry_H"}, {1, 2, 3, 4, 5}, Grid(27315, 35315, 1000) \cup {29815}, {QZero})
    \cup HenryPts({"henry_c", "henry_roundtrip"}, {1, 2, 3, 4, 5}, {27315, 29000, 29815, 31000, 35000}, {R(1, 1), R(21, 100), R(5, 1)})
    \cup HenryPts({"henry_P"}, {1, 2, 3, 4, 5}, {27315, 29000, 29815, 31000, 35000}, {R(1, 1000), R(1, 4), R(1, 1000000)})
    \cup NernstPts({27315, 29815, 31000, 35000}, {-3, -2, -1, 1, 2, 3}, NC_t)
    \cup MobPts({27315, 29815, 30000, 37315}, {-3, -2, -1, 1, 2, 3},
                {R(3, 1000000000), R(93, 1000000000), R(1, 100000), R(23, 10000000)})
Pts_audit ==
    WithOpts(Corr5({27315, 29815, 31000, 26000, 40000, 70000}), "off", "default")
    \cup WithOpts(Corr5({27315, 29815, 31000, 25000, 40000}), "on", "default")
    \cup Explicit(Corr5({27315, 29815, 31316}))
    \cup WithOpts(PermPts(TP_t, {1, 1000}), "default", "math")
    \cup WithOpts(HenryPts({"henry_H", "henry_c", "henry_P"}, 1..5, {27315, 29000, 29315, 31000}, {R(1, 1)}), "default", "math")
    \cup WithOpts(NernstPts({29815, 31000}, {-2, -1, 1, 2}, NC_t), "default", "numpy")
    \cup WithOpts(NernstPts({29815}, {-1, 2}, NC_t), "default", "math")
    \cup WithVia(HenryPts({"henry_H"}, 1..5, Grid(27315, 35315, 2000) \cup {29315, 29815, 31000}, {QZero}), "function")
    \cup WithVia(HenryPts({"henry_H"}, 1..5, {29000, 31000}, {QZero}), "alias")
    \cup WithErr(P1("water_diffusion", Grid(27315, 37315, 1000) \cup {26000}),
                 Err_q \cup { <<Q(2), Q(-1), TRUE>>, <<Q(0), Q(1), TRUE>>, <<Q(1), Q(0), FALSE>> })
    \cup WithAtol(InvPts({10, 30, 50, 70}, {27315, 29300, 32315}), {R(1, 1000000), R(1, 10000), R(1, 10)})
    \cup Explicit(InvPts({10, 30, 50}, {29815, 29300}))
    \cup WithOpts(InvPts({10, 30, 50}, {29300, 33000, 27000, 32316}), "on", "default") \cup InvPts({30, 50}, {29815, 33000, 27000})
Pts_falsy ==
    WithTz(P1("water_density", Grid(0, 4000, 100) \cup {398, 4001, -1, -1000, 6000}), QZero)
    \cup WithTz(P1("water_density", Grid(100, 4100, 500)), R(1, 1))
    \cup WithTz(AcidPts({10, 50, 90, 0}, Grid(0, 5000, 1000) \cup {1985, 5001, -1}), QZero)
    \cup PermPts(Grid(27315, 62315, 5000), {0}) \cup AcidPts({0}, TA_t)
    \cup SchumpePts(1..8, { <<R(0, 1), R(1, 2)>>, <<R(1, 2), R(0, 1)>>, <<R(0, 1), R(0, 1)>> })
    \cup HenryPts({"henry_c"}, 1..5, {29000, 31000}, {QZero})
    \cup MobPts({27315, 30000}, {0, -1, 2}, {QZero, R(3, 1000000000)})
Pts_tt == Pts_t \cup Pts_audit \cup Pts_falsy
=============================================================================
