INIT Init
NEXT Next
CONSTANTS
  Points <- Pts_q
  ModeNames <- AllModes
INVARIANT TypeOK
INVARIANT ModesDenoteSameValue
INVARIANT UnitsCompatible
INVARIANT ResultDimAsNamed
INVARIANT WarnIffOutside
INVARIANT DensityShape
INVARIANT ViscosityShape
INVARIANT NernstZero
INVARIANT Emit
INVARIANT EmitCatalog
CHECK_DEADLOCK FALSE
