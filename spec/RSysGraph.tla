---------------------------- MODULE RSysGraph ----------------------------
(* Structural queries on reaction systems (property C15).                                     *)
(*                                                                                            *)
(* A reaction is a record [reac, prod] of finite maps species -> positive coefficient; a      *)
(* system is a record                                                                         *)
(*     [rx : sequence of reactions, ss : ordered list of substances (isolated ones allowed), *)
(*      comp : substance -> composition map (element key -> count, key "0" = charge) or <<>>, *)
(*      checked : were the constructor checks (duplicates, unknown keys) applied]             *)
(* and the state is a workspace `ws` of systems grown by Make / DoSplit / DoSubset / DoAdd.   *)
(*                                                                                            *)
(* The REACTION GRAPH is the bipartite graph species -- reactions.  All queries are stated    *)
(* declaratively on it (connected components by transitive closure, categories by the signs   *)
(* of net coefficients, ...), never by the algorithm the library happens to use.  Results     *)
(* that the property leaves unordered (reaction order inside a split group, order of the      *)
(* groups, substance order of derived systems) are ARGUMENTS of the history actions: the      *)
(* action is enabled iff the given result has the right content, whatever its order.          *)
EXTENDS Integers, Sequences, FiniteSets, FiniteSetsExt, TLC, Json, SequencesExt, Rational

CONSTANTS
    SpeciesSeq,   \* all species names, in the order `sorted` gives them
    Catalog,      \* sequence of reactions cases are drawn from
    Comp,         \* species -> composition map, used when UseComp
    UseComp,      \* BOOLEAN: substances carry compositions (needed by upper bounds)
    MaxRx,        \* reactions per Make
    AllowDup,     \* BOOLEAN: Make may repeat a catalog reaction (constructor must refuse)
    Modes,        \* substance-list modes of Make
    MaxSys,       \* number of Make steps in a history
    MaxOps,       \* number of DoSplit/DoSubset/DoAdd steps in a history
    Preds,        \* predicate descriptors [kind, s, n]
    QueryKinds,   \* query kinds generated
    ConcGrid,     \* naturals used as concentrations
    YieldK,       \* integers used as yield decomposition coefficients
    TerminalQueries,
    AllowEmpty    \* BOOLEAN: the first system of a history may have no reactions

VARIABLES ws, pend, hist, out, phase
vars == <<ws, pend, hist, out, phase>>

------------------------------------------------------------------------------
(* vocabulary *)
AllSpecies == ToSet(SpeciesSeq)
Idx(s) == CHOOSE i \in 1..Len(SpeciesSeq) : SpeciesSeq[i] = s
SortSpecies(S) == SetToSortSeq(S, LAMBDA a, b : Idx(a) < Idx(b))
SortInts(S) == SetToSortSeq(S, <)
PairLess(a, b) == a[1] < b[1] \/ (a[1] = b[1] /\ a[2] < b[2])
SortPairs(S) == SetToSortSeq(S, PairLess)
IsInj(q) == Cardinality(ToSet(q)) = Len(q)
Pos(q, x) == CHOOSE i \in 1..Len(q) : q[i] = x
SumOver(S, Op(_)) == FoldSet(LAMBDA x, acc : acc + Op(x), 0, S)
RestrictTo(f, S) == [x \in S |-> f[x]]
Rev(q) == [k \in 1..Len(q) |-> q[Len(q) + 1 - k]]

Get(f, s) == IF s \in DOMAIN f THEN f[s] ELSE 0
(* a reaction may carry inactive reactants/products (fields ireac, iprod; absent = none): they *)
(* count for the species it touches, for its net effect and for its "all" stoichiometry, but   *)
(* not for its active stoichiometry (order, rate law, active edges of the graph)               *)
IReac(r) == IF "ireac" \in DOMAIN r THEN r.ireac ELSE <<>>
IProd(r) == IF "iprod" \in DOMAIN r THEN r.iprod ELSE <<>>
AllReac(r, s) == Get(r.reac, s) + Get(IReac(r), s)
AllProd(r, s) == Get(r.prod, s) + Get(IProd(r), s)
RKeys(r) == DOMAIN r.reac \cup DOMAIN r.prod \cup DOMAIN IReac(r) \cup DOMAIN IProd(r)
RNet(r, s) == AllProd(r, s) - AllReac(r, s)
IsStoich(f) == \A s \in DOMAIN f : f[s] \in Nat \ {0}
IsReaction(r) == /\ IsStoich(r.reac) /\ IsStoich(r.prod) /\ IsStoich(IReac(r)) /\ IsStoich(IProd(r))
                 /\ \E s \in RKeys(r) : RNet(r, s) # 0

NR(sys) == Len(sys.rx)
RIdx(sys) == 1..Len(sys.rx)
Subst(sys) == ToSet(sys.ss)
SysKeys(sys) == UNION { RKeys(sys.rx[i]) : i \in RIdx(sys) }
KeysOf(sys, I) == UNION { RKeys(sys.rx[i]) : i \in I }
(* the same reaction: equal in all four parts (an absent inactive part = an empty one) *)
SameRx(r1, r2) == r1.reac = r2.reac /\ r1.prod = r2.prod /\ IReac(r1) = IReac(r2) /\ IProd(r1) = IProd(r2)
NoDup(sys) == \A i, j \in RIdx(sys) : i # j => ~SameRx(sys.rx[i], sys.rx[j])
WellFormed(sys) == IsInj(sys.ss) /\ SysKeys(sys) \subseteq Subst(sys) /\ \A i \in RIdx(sys) : IsReaction(sys.rx[i])

------------------------------------------------------------------------------
(* connected components of the reaction graph *)
Shares(sys, i, j) == RKeys(sys.rx[i]) \cap RKeys(sys.rx[j]) # {}
RECURSIVE Reach(_, _)
Reach(sys, S) == LET T == S \cup { j \in RIdx(sys) : \E i \in S : Shares(sys, i, j) }
                 IN  IF T = S THEN S ELSE Reach(sys, T)
Components(sys) == { Reach(sys, {i}) : i \in RIdx(sys) }
(* one group per component: its reactions and the species they touch; isolated substances     *)
(* belong to no group (a group without reactions would not be part of a partition)            *)
Split(sys) == { [rx |-> C, ss |-> KeysOf(sys, C)] : C \in Components(sys) }

(* categories: signs of the net coefficients over all reactions *)
Produced(sys, s) == \E i \in RIdx(sys) : RNet(sys.rx[i], s) > 0
Consumed(sys, s) == \E i \in RIdx(sys) : RNet(sys.rx[i], s) < 0
Present(sys, s) == \E i \in RIdx(sys) : s \in RKeys(sys.rx[i])
Categorize(sys) ==
    [accumulated      |-> { s \in Subst(sys) : Produced(sys, s) /\ ~Consumed(sys, s) },
     depleted         |-> { s \in Subst(sys) : Consumed(sys, s) /\ ~Produced(sys, s) },
     unaffected       |-> { s \in Subst(sys) : Present(sys, s) /\ ~Produced(sys, s) /\ ~Consumed(sys, s) },
     nonparticipating |-> { s \in Subst(sys) : ~Present(sys, s) }]
Mixed(sys) == { s \in Subst(sys) : Produced(sys, s) /\ Consumed(sys, s) }

(* forward/backward pairs *)
IsReverse(r1, r2) == \A s \in RKeys(r1) \cup RKeys(r2) :
    AllReac(r1, s) = AllProd(r2, s) /\ AllProd(r1, s) = AllReac(r2, s)
IdentifyEquilibria(sys) == { p \in RIdx(sys) \X RIdx(sys) : p[1] < p[2] /\ IsReverse(sys.rx[p[1]], sys.rx[p[2]]) }
(* Forward/backward is decided on the ALL stoichiometries (active + inactive), as the library  *)
(* documents in its code.  When two reactions of the system have the same all-stoichiometry    *)
(* (a repeated reaction, or e.g. 3 C -> 2 C and C + (2 C) -> 2 C) a reaction can have several   *)
(* partners and "the pairs" are not determined by the definition: then the answer is open -     *)
(* any duplicate-free list of genuine pairs that lists every reaction having a later partner    *)
(* as the first member of a pair.  Without such twins the answer is exactly IdentifyEquilibria. *)
SameAllStoich(r1, r2) == \A s \in RKeys(r1) \cup RKeys(r2) :
    AllReac(r1, s) = AllReac(r2, s) /\ AllProd(r1, s) = AllProd(r2, s)
StoichDistinct(sys) == \A i, j \in RIdx(sys) : i # j => ~SameAllStoich(sys.rx[i], sys.rx[j])
EqForward(sys) == { p[1] : p \in IdentifyEquilibria(sys) }
EquilibriaOK(sys, pairs) ==
    IF StoichDistinct(sys) THEN pairs = SortPairs(IdentifyEquilibria(sys))
    ELSE /\ IsInj(pairs) /\ ToSet(pairs) \subseteq IdentifyEquilibria(sys)
         /\ { pairs[k][1] : k \in DOMAIN pairs } = EqForward(sys)

Participation(sys, s) == { i \in RIdx(sys) : s \in RKeys(sys.rx[i]) }
Effect(sys, s) == { <<i, RNet(sys.rx[i], s)>> : i \in { j \in RIdx(sys) : RNet(sys.rx[j], s) # 0 } }

(* THE REACTION GRAPH as an object: a bipartite digraph.  Substance nodes in substance order,   *)
(* each with the colour class of its category (depleted / accumulated / other); one reaction    *)
(* node r<i - 1 + rref0> per reaction; an edge substance -> reaction for every reactant and an   *)
(* edge reaction -> substance for every product, labelled with the coefficient (empty when 1). *)
(* inact = TRUE takes all stoichiometries, FALSE the active ones only.  Edges are a map         *)
(* "from->to" |-> <<label, kind>>.                                                             *)
RId(i, rref0) == "r" \o ToString(i - 1 + rref0)
EdgeKey(a, b) == a \o "->" \o b
CoefLabel(n) == IF n = 1 THEN "" ELSE ToString(n)
ColourClass(sys, s) == LET c == Categorize(sys) IN
    IF s \in c.accumulated THEN "accumulated" ELSE IF s \in c.depleted THEN "depleted" ELSE "other"
ReacCoef(r, s, inact) == IF inact THEN AllReac(r, s) ELSE Get(r.reac, s)
ProdCoef(r, s, inact) == IF inact THEN AllProd(r, s) ELSE Get(r.prod, s)
GraphEdges(sys, inact, rref0) ==
    LET ins  == { <<s, i>> \in Subst(sys) \X RIdx(sys) : ReacCoef(sys.rx[i], s, inact) > 0 }
        outs == { <<s, i>> \in Subst(sys) \X RIdx(sys) : ProdCoef(sys.rx[i], s, inact) > 0 }
        keyIn(p) == EdgeKey(p[1], RId(p[2], rref0))
        keyOut(p) == EdgeKey(RId(p[2], rref0), p[1])
    IN  [k \in { keyIn(p) : p \in ins } \cup { keyOut(p) : p \in outs } |->
            IF \E p \in ins : keyIn(p) = k
            THEN LET p == CHOOSE p \in ins : keyIn(p) = k IN <<CoefLabel(ReacCoef(sys.rx[p[2]], p[1], inact)), "reactant">>
            ELSE LET p == CHOOSE p \in outs : keyOut(p) = k IN <<CoefLabel(ProdCoef(sys.rx[p[2]], p[1], inact)), "product">>]
Graph(sys, inact, rref0) ==
    [snodes |-> [i \in 1..Len(sys.ss) |-> [key |-> sys.ss[i], cls |-> ColourClass(sys, sys.ss[i]), label |-> sys.ss[i]]],
     rnodes |-> [i \in RIdx(sys) |-> [id |-> RId(i, rref0), label |-> RId(i, rref0)]],
     edges |-> GraphEdges(sys, inact, rref0)]

(* connected components of the UNDIRECTED version of a graph object, from its nodes and edge   *)
(* keys alone                                                                                   *)
GNodes(g) == { g.snodes[i].key : i \in DOMAIN g.snodes } \cup { g.rnodes[i].id : i \in DOMAIN g.rnodes }
GAdj(g, a, b) == EdgeKey(a, b) \in DOMAIN g.edges \/ EdgeKey(b, a) \in DOMAIN g.edges
RECURSIVE GReach(_, _)
GReach(g, S) == LET T == S \cup { b \in GNodes(g) : \E a \in S : GAdj(g, a, b) }
                IN  IF T = S THEN S ELSE GReach(g, T)
GComponents(g) == { GReach(g, {a}) : a \in GNodes(g) }

(* predicates of the small family used for subsets *)
Pred(p, r) ==
    CASE p.kind = "has"      -> p.s \in RKeys(r)
      [] p.kind = "consumes" -> RNet(r, p.s) < 0
      [] p.kind = "order"    -> SumOver(DOMAIN r.reac, LAMBDA s : r.reac[s]) = p.n
      [] p.kind = "nprod"    -> Cardinality(DOMAIN r.prod) = p.n
SubsetYes(sys, p) == { i \in RIdx(sys) : Pred(p, sys.rx[i]) }

(* sums *)
UnionOrder(a, b) == a \o SelectSeq(b, LAMBDA s : s \notin ToSet(a))
MergeComp(x, y) == IF x.comp = <<>> /\ y.comp = <<>> THEN <<>>
                   ELSE [s \in Subst(x) \cup Subst(y) |-> IF s \in Subst(y) THEN y.comp[s] ELSE x.comp[s]]
SysEq(x, y) == x.rx = y.rx /\ x.ss = y.ss
(* concatenation: reactions of the second system whose stoichiometry already occurs in the    *)
(* first go to the "duplicates" system, the others are appended                                *)
ConcatNew(x, y) == { j \in RIdx(y) : \A i \in RIdx(x) : ~SameRx(x.rx[i], y.rx[j]) }

(* concatenation of several systems: a reaction of a later system is new iff no reaction of an *)
(* EARLIER system of the list (first or not) is the same reaction; new ones join the sum, the  *)
(* others the duplicates; tags <<position in the list, index>>                                 *)
ConcatTags(S) == { t \in (1..Len(S)) \X (1..20) : t[2] \in RIdx(S[t[1]]) }
ConcatIsNew(S, t) == \A k \in 1..(t[1] - 1) : \A m \in RIdx(S[k]) : ~SameRx(S[k].rx[m], S[t[1]].rx[t[2]])
ConcatNExp(S) == [sum |-> SortPairs({ t \in ConcatTags(S) : ConcatIsNew(S, t) }),
                  dup |-> SortPairs({ t \in ConcatTags(S) : ~ConcatIsNew(S, t) })]

(* per-substance conversions, in substance order *)
AsArray(sys, d) == [i \in 1..Len(sys.ss) |-> d[sys.ss[i]]]
AsDict(sys, a) == [s \in Subst(sys) |-> a[Pos(sys.ss, s)]]
(* all combinations of varied levels: V maps some substances to their sequences of levels; the  *)
(* result has one axis per varied substance, IN SUBSTANCE ORDER (whatever order the caller      *)
(* listed them in), then the substance axis; entry [v1]..[vn] is the array for d with the       *)
(* varied substances set to their v-th levels                                                    *)
VariedKeys(sys, V) == SelectSeq(sys.ss, LAMBDA s : s \in DOMAIN V)
RECURSIVE VariedArr(_, _, _, _)
VariedArr(sys, d, V, keys) ==
    IF keys = <<>> THEN AsArray(sys, d)
    ELSE [v \in 1..Len(V[Head(keys)]) |-> VariedArr(sys, [d EXCEPT ![Head(keys)] = V[Head(keys)][v]], V, Tail(keys))]

(* elemental upper bounds: least of (element total)/(atoms per molecule); <<1, 0>> = unbounded *)
Elems(sys, s) == DOMAIN sys.comp[s] \ {"0"}
ElemTotal(sys, c, e) == SumOver({ s \in Subst(sys) : e \in DOMAIN sys.comp[s] }, LAMBDA s : sys.comp[s][e] * c[s])
QMinSet(S) == CHOOSE q \in S : \A r \in S : QLe(q, r)
Inf == <<1, 0>>
UpperBound(sys, c, s) ==
    IF Elems(sys, s) = {} THEN Inf
    ELSE QMinSet({ Norm(<<ElemTotal(sys, c, e), sys.comp[s][e]>>) : e \in Elems(sys, s) })
AllElems(sys) == UNION { Elems(sys, s) : s \in Subst(sys) }

(* yields: y = N^T k; k is determined by y iff the reactions' net vectors are independent,   *)
(* i.e. iff the Gram determinant is non-zero                                                   *)
YieldsOf(sys, k, s) == SumOver(RIdx(sys), LAMBDA i : k[i] * RNet(sys.rx[i], s))
Gram(sys) == [i \in RIdx(sys) |-> [j \in RIdx(sys) |->
                 SumOver(SysKeys(sys), LAMBDA s : RNet(sys.rx[i], s) * RNet(sys.rx[j], s))]]
Minor(M, j) == LET n == Len(M) IN
    [a \in 1..(n - 1) |-> [b \in 1..(n - 1) |-> M[a + 1][IF b < j THEN b ELSE b + 1]]]
RECURSIVE Det(_)
Det(M) == IF Len(M) = 0 THEN 1
          ELSE IF Len(M) = 1 THEN M[1][1]
          ELSE SumOver(1..Len(M), LAMBDA j : (IF j % 2 = 1 THEN 1 ELSE -1) * M[1][j] * Det(Minor(M, j)))
FullRank(sys) == NR(sys) > 0 /\ Det(Gram(sys)) # 0

------------------------------------------------------------------------------
(* canonical (sorted) forms of query results: what an observation is compared with *)
PartOf(sys, I, S) == [rx |-> SortInts(I), ss |-> SortSpecies(S)]
MinOf(S) == CHOOSE x \in S : \A y \in S : x <= y
CanonSplit(sys) ==
    LET G == Split(sys)
        order == SetToSortSeq(G, LAMBDA g, h : MinOf(g.rx) < MinOf(h.rx))
    IN  [k \in 1..Len(order) |-> PartOf(sys, order[k].rx, order[k].ss)]
(* per-species queries are asked for every substance of the system and for one name ("Zz")   *)
(* that is not a substance of any system                                                       *)
Absent == "Zz"
SpeciesMap(sys, Op(_)) == [s \in Subst(sys) \cup {Absent} |-> Op(s)]

QueryExp(sys, kind, arg) ==
    CASE kind = "shape" -> [rx |-> sys.rx, ss |-> sys.ss]
      [] kind = "graph" ->
           [split |-> CanonSplit(sys),
            cat |-> LET c == Categorize(sys) IN
                    [accumulated |-> SortSpecies(c.accumulated), depleted |-> SortSpecies(c.depleted),
                     unaffected |-> SortSpecies(c.unaffected), nonparticipating |-> SortSpecies(c.nonparticipating)],
            eqdef |-> StoichDistinct(sys),      \* FALSE: eq is the set of admissible pairs, judged by EquilibriaOK
            eqfw |-> SortInts(EqForward(sys)),
            eq |-> SortPairs(IdentifyEquilibria(sys)),
            part |-> SpeciesMap(sys, LAMBDA s : SortInts(Participation(sys, s))),
            eff |-> SpeciesMap(sys, LAMBDA s : SortPairs(Effect(sys, s)))]
      [] kind = "subset" ->
           [yes |-> SortInts(SubsetYes(sys, arg)), no |-> SortInts(RIdx(sys) \ SubsetYes(sys, arg))]
      [] kind = "conv" ->
           [arr |-> AsArray(sys, arg.d), dict |-> AsDict(sys, arg.a),
            idx |-> [s \in Subst(sys) |-> Pos(sys.ss, s) - 1],
            names |-> sys.ss,                        \* substance_names()
            arrlist |-> arg.a,                       \* an array-like is taken as it is
            arrextra |-> AsArray(sys, arg.d),        \* unknown keys of a mapping are ignored ...
            refused |-> [unk |-> TRUE,               \* ... unless raise_on_unk (KeyError)
                         size |-> TRUE,              \* array-like of the wrong length (ValueError)
                         missing |-> TRUE],          \* mapping lacking a substance (KeyError)
            idxint |-> [i \in 1..Len(sys.ss) |-> i - 1],   \* an integer index is returned as it is
            vkeys |-> VariedKeys(sys, arg.vals),
            varied |-> VariedArr(sys, arg.d, arg.vals, VariedKeys(sys, arg.vals))]
      [] kind = "bounds" ->
           \* concentrations arg.c[s] / arg.den; arg.form = how they are passed ("dict" | "list")
           [ub |-> [i \in 1..Len(sys.ss) |->
                      LET b == UpperBound(sys, arg.c, sys.ss[i]) IN IF b = Inf THEN Inf ELSE Norm(<<b[1], b[2] * arg.den>>)]]
      [] kind = "order" -> [names |-> sys.ss, arr |-> AsArray(sys, arg)]   \* what depends on the substance order
      [] kind = "dot" -> Graph(sys, arg.inact, arg.rref0)
      [] kind = "yields" ->
           \* the decomposition is asked for yields arg.y[s] / arg.den (keys listed in arg.korder)
           [k |-> [i \in DOMAIN arg.k |-> Norm(<<arg.k[i], arg.den>>)]]

(* two-system queries: arg = index of the second system *)
PairTags(x, y) == SortPairs(({1} \X RIdx(x)) \cup ({2} \X RIdx(y)))
Query2Exp(x, y, kind) ==
    CASE kind = "add" -> [src |-> PairTags(x, y), ss |-> SortSpecies(Subst(x) \cup Subst(y))]
      [] kind = "eq"  -> [eq |-> SysEq(x, y)]
      [] kind = "concat" ->
           [sum |-> SortPairs(({1} \X RIdx(x)) \cup ({2} \X ConcatNew(x, y))),
            dup |-> SortPairs({2} \X (RIdx(y) \ ConcatNew(x, y)))]

------------------------------------------------------------------------------
Init == ws = <<>> /\ pend = <<>> /\ hist = <<>> /\ out = [op |-> "none", fresh |-> {}] /\ phase = "run"

(* constructor options: opt = [sort : "default" | "yes" | "no"  (sort_substances None/True/False),  *)
(*   addmissing : BOOLEAN (missing_substances_from_keys), chk : "default" | "nodup" | "none"          *)
(*   (default checks / dont_check={"duplicate"} / checks=())].                                        *)
(* Substance forms: "deduce" (None), "set", "dict" (plain mapping) are sorted by default; "list",    *)
(* "tuple", "str", "odict" keep the given order by default.                                            *)
DefaultOpt == [sort |-> "default", addmissing |-> FALSE, chk |-> "default"]
AllModes == {"deduce", "set", "dict", "list", "tuple", "str", "odict"}
MakeKeys(rxs) == UNION { RKeys(rxs[i]) : i \in DOMAIN rxs }
MakeMissing(rxs, mode, given, opt) ==
    IF opt.addmissing /\ mode # "deduce" THEN MakeKeys(rxs) \ ToSet(given) ELSE {}
MakeSorted(mode, opt) == opt.sort = "yes" \/ (opt.sort = "default" /\ mode \in {"deduce", "set", "dict"})
(* the order is determined by the documentation iff the list ends up sorted, or the given form is *)
(* ordered and at most one missing substance is appended                                          *)
MakeDefined(rxs, mode, given, opt) ==
    \/ MakeSorted(mode, opt)
    \/ (mode \in {"dict", "list", "tuple", "str", "odict"} /\ Cardinality(MakeMissing(rxs, mode, given, opt)) <= 1)
MakeSubst(rxs, mode, given, opt) ==
    LET base == IF mode = "deduce" THEN SortSpecies(MakeKeys(rxs)) ELSE given
        full == base \o SortSpecies(MakeMissing(rxs, mode, given, opt))
    IN  IF MakeSorted(mode, opt) THEN SortSpecies(ToSet(full)) ELSE full
MakeHasDup(rxs) == \E i, j \in DOMAIN rxs : i # j /\ SameRx(rxs[i], rxs[j])
MakeUnknown(rxs, mode, given, opt) ==
    mode # "deduce" /\ ~opt.addmissing /\ ~(MakeKeys(rxs) \subseteq ToSet(given))
MakeRefused(rxs, mode, given, opt) ==
    \/ (opt.chk = "default" /\ MakeHasDup(rxs))
    \/ (opt.chk \in {"default", "nodup"} /\ MakeUnknown(rxs, mode, given, opt))

(* Make: construct a system from reactions and a substance specification.  The constructor   *)
(* refuses duplicates and reactions with unknown species.                                     *)
MakeInModel(rxs, mode, given, opt) ==
    /\ \A i \in DOMAIN rxs : IsReaction(rxs[i])
    /\ mode \in AllModes /\ (mode # "deduce" => IsInj(given))
    /\ opt.sort \in {"default", "yes", "no"} /\ opt.chk \in {"default", "nodup", "none"}
    /\ MakeDefined(rxs, mode, given, opt)
    /\ ~(opt.chk = "none" /\ MakeUnknown(rxs, mode, given, opt))   \* unchecked unknown species: not a system
    /\ (opt.addmissing => rxs # <<>>)
Make(rxs, mode, given, comp, opt) ==
    /\ phase = "run"
    /\ MakeInModel(rxs, mode, given, opt)
    /\ LET ss == MakeSubst(rxs, mode, given, opt)
           refused == MakeRefused(rxs, mode, given, opt)
           sys == [rx |-> rxs, ss |-> ss, checked |-> (opt.chk = "default"),
                   comp |-> IF comp = <<>> THEN <<>> ELSE RestrictTo(comp, ToSet(ss))]
       IN  /\ (comp # <<>> => ToSet(ss) \subseteq DOMAIN comp)
           /\ ws' = IF refused THEN ws ELSE Append(ws, sys)
           /\ out' = [op |-> "make", raised |-> refused, ss |-> IF refused THEN <<>> ELSE ss,
                      nr |-> IF refused THEN 0 ELSE Len(rxs),
                      fresh |-> IF refused THEN {} ELSE {Len(ws) + 1}]
           /\ phase' = IF refused /\ TerminalQueries THEN "done" ELSE "run"
    /\ hist' = Append(hist, [op |-> "Make", rx |-> rxs, mode |-> mode, given |-> given, comp |-> comp, opt |-> opt])
    /\ pend' = <<>>

IsSys(i) == i \in 1..Len(ws)
SubSys(sys, part, chk) ==
    [rx |-> [m \in 1..Len(part.rx) |-> sys.rx[part.rx[m]]], ss |-> part.ss, checked |-> chk,
     comp |-> IF sys.comp = <<>> THEN <<>> ELSE RestrictTo(sys.comp, ToSet(part.ss))]
PartShape(p) == IsInj(p.rx) /\ IsInj(p.ss)

(* DoSplit: `parts` is the result (each part: parent reaction indices and substances, in any *)
(* order); enabled iff it is exactly one group per connected component                        *)
SplitMatches(sys, parts) ==
    /\ \A k \in DOMAIN parts : PartShape(parts[k])
    /\ { [rx |-> ToSet(parts[k].rx), ss |-> ToSet(parts[k].ss)] : k \in DOMAIN parts } = Split(sys)
    /\ Len(parts) = Cardinality(Split(sys))
DoSplit(i, parts) ==
    /\ phase = "run" /\ IsSys(i)
    /\ SplitMatches(ws[i], parts)
    /\ ws' = ws \o [k \in 1..Len(parts) |-> SubSys(ws[i], parts[k], ws[i].checked)]
    /\ out' = [op |-> "split", n |-> Len(parts), fresh |-> (Len(ws) + 1)..(Len(ws) + Len(parts))]
    /\ hist' = Append(hist, [op |-> "DoSplit", i |-> i])
    /\ UNCHANGED <<pend, phase>>

(* DoSubset: the two systems hold exactly the reactions satisfying / not satisfying p; the    *)
(* property does not say which substances they keep beyond being well-formed sub-systems      *)
SubsetPartOK(sys, part, I) ==
    /\ PartShape(part) /\ ToSet(part.rx) = I
    /\ KeysOf(sys, I) \subseteq ToSet(part.ss) /\ ToSet(part.ss) \subseteq Subst(sys)
DoSubset(i, p, yes, no) ==
    /\ phase = "run" /\ IsSys(i)
    /\ SubsetPartOK(ws[i], yes, SubsetYes(ws[i], p))
    /\ SubsetPartOK(ws[i], no, RIdx(ws[i]) \ SubsetYes(ws[i], p))
    /\ ws' = ws \o <<SubSys(ws[i], yes, FALSE), SubSys(ws[i], no, FALSE)>>
    /\ out' = [op |-> "subset", fresh |-> {Len(ws) + 1, Len(ws) + 2}]
    /\ hist' = Append(hist, [op |-> "DoSubset", i |-> i, p |-> p])
    /\ UNCHANGED <<pend, phase>>

(* DoAdd: the sum holds exactly the reactions of both systems (src: for each reaction of the  *)
(* result, <<1|2, index>> of the operand it came from) and the union of their substances;     *)
(* how = "add" creates a new system, "iadd" updates system i                                  *)
(* "-list" forms: the second operand is given as a plain list of reactions: the sum keeps the *)
(* substances of the first operand (which must already contain the species of the list)         *)
AddSubst(x, y, how) == IF how \in {"add-list", "iadd-list"} THEN Subst(x) ELSE Subst(x) \cup Subst(y)
AddMatches(x, y, how, src, ss) ==
    /\ IsInj(src) /\ ToSet(src) = ({1} \X RIdx(x)) \cup ({2} \X RIdx(y))
    /\ IsInj(ss) /\ ToSet(ss) = AddSubst(x, y, how)
SumSys(x, y, src, ss) ==
    [rx |-> [m \in 1..Len(src) |-> IF src[m][1] = 1 THEN x.rx[src[m][2]] ELSE y.rx[src[m][2]]],
     ss |-> ss, checked |-> FALSE,
     comp |-> LET m == MergeComp(x, y) IN IF m = <<>> THEN <<>> ELSE RestrictTo(m, ToSet(ss))]
DoAdd(i, j, how, src, ss) ==
    /\ phase = "run" /\ IsSys(i) /\ IsSys(j) /\ how \in {"add", "iadd", "add-list", "iadd-list"}
    /\ (how \in {"iadd", "iadd-list"} => i # j)
    /\ (how \in {"add-list", "iadd-list"} => SysKeys(ws[j]) \subseteq Subst(ws[i]))
    /\ AddMatches(ws[i], ws[j], how, src, ss)
    /\ ws' = IF how \in {"add", "add-list"} THEN Append(ws, SumSys(ws[i], ws[j], src, ss))
             ELSE [ws EXCEPT ![i] = SumSys(ws[i], ws[j], src, ss)]
    /\ out' = [op |-> "sum", fresh |-> IF how \in {"add", "add-list"} THEN {Len(ws) + 1} ELSE {i}]
    /\ hist' = Append(hist, [op |-> "DoAdd", i |-> i, j |-> j, how |-> how])
    /\ UNCHANGED <<pend, phase>>

(* DoSort: sort_substances_inplace; how = "name" (default key) or "rev" (a key reversing it) *)
DoSort(i, how) ==
    /\ phase = "run" /\ IsSys(i) /\ how \in {"name", "rev"}
    /\ ws' = [ws EXCEPT ![i].ss = IF how = "name" THEN SortSpecies(Subst(ws[i])) ELSE Rev(SortSpecies(Subst(ws[i])))]
    /\ out' = [op |-> "sorted", ss |-> ws'[i].ss, fresh |-> {i}]
    /\ hist' = Append(hist, [op |-> "DoSort", i |-> i, how |-> how])
    /\ UNCHANGED <<pend, phase>>

(* queries (pure observations) *)
QueryDefined(sys, kind, arg) ==
    CASE kind = "bounds" -> sys.comp # <<>> /\ DOMAIN arg.c = Subst(sys) /\ arg.den \in Nat \ {0}
                            /\ arg.form \in {"dict", "list"}
      [] kind = "yields" -> /\ FullRank(sys) /\ DOMAIN arg.k = RIdx(sys) /\ DOMAIN arg.y = SysKeys(sys)
                            /\ \A s \in SysKeys(sys) : arg.y[s] = YieldsOf(sys, arg.k, s)
                            /\ arg.den \in Nat \ {0} /\ IsInj(arg.korder) /\ ToSet(arg.korder) = SysKeys(sys)
      [] kind = "conv"   -> Len(sys.ss) > 0 /\ DOMAIN arg.d = Subst(sys) /\ Len(arg.a) = Len(sys.ss)
                            /\ IsInj(arg.vorder) /\ ToSet(arg.vorder) = DOMAIN arg.vals /\ DOMAIN arg.vals \subseteq Subst(sys)
                            /\ arg.vorder # <<>> /\ \A s \in DOMAIN arg.vals : Len(arg.vals[s]) > 0
      [] kind = "subset" -> TRUE
      [] kind \in {"shape", "graph"} -> TRUE
      [] kind = "dot" -> arg.inact \in BOOLEAN /\ arg.rref0 \in Nat
      [] kind = "order" -> DOMAIN arg = Subst(sys)
      [] OTHER -> FALSE
Query(i, kind, arg) ==
    /\ phase = "run" /\ IsSys(i) /\ QueryDefined(ws[i], kind, arg)
    /\ out' = [op |-> "query", kind |-> kind, exp |-> QueryExp(ws[i], kind, arg), fresh |-> {}]
    /\ hist' = Append(hist, [op |-> "Query", i |-> i, kind |-> kind, arg |-> arg])
    /\ phase' = IF TerminalQueries THEN "done" ELSE "run"
    /\ UNCHANGED <<ws, pend>>
Query2(i, j, kind) ==
    /\ phase = "run" /\ IsSys(i) /\ IsSys(j) /\ kind \in {"add", "eq", "concat"}
    /\ out' = [op |-> "query", kind |-> kind, exp |-> Query2Exp(ws[i], ws[j], kind), fresh |-> {}]
    /\ hist' = Append(hist, [op |-> "Query2", i |-> i, j |-> j, kind |-> kind])
    /\ phase' = IF TerminalQueries THEN "done" ELSE "run"
    /\ UNCHANGED <<ws, pend>>

(* concatenate over a list of distinct systems *)
QueryCat(js) ==
    /\ phase = "run" /\ Len(js) >= 2 /\ IsInj(js) /\ \A k \in DOMAIN js : IsSys(js[k]) /\ NR(ws[js[k]]) <= 20
    /\ out' = [op |-> "query", kind |-> "concatn", exp |-> ConcatNExp([k \in DOMAIN js |-> ws[js[k]]]), fresh |-> {}]
    /\ hist' = Append(hist, [op |-> "QueryCat", js |-> js, kind |-> "concatn"])
    /\ phase' = IF TerminalQueries THEN "done" ELSE "run"
    /\ UNCHANGED <<ws, pend>>

------------------------------------------------------------------------------
(* bounded generation: reactions are picked one by one (PickRx), then Make closes the system *)
NMakes == Cardinality({ k \in 1..Len(hist) : hist[k].op = "Make" })
NOps == Cardinality({ k \in 1..Len(hist) : hist[k].op \in {"DoSplit", "DoSubset", "DoAdd", "DoSort"} })
PendRx == [k \in 1..Len(pend) |-> Catalog[pend[k]]]
PendKeys == UNION { RKeys(Catalog[pend[k]]) : k \in 1..Len(pend) }
GivenFor(mode) ==
    CASE mode = "deduce"    -> <<>>
      [] mode = "list-all"  -> Rev(SpeciesSeq)                \* every species, isolated ones included
      [] mode = "str-keys"  -> Rev(SortSpecies(PendKeys))      \* exactly the species used, reversed
      [] mode = "set-all"   -> SpeciesSeq
      [] mode = "odict-rot" -> SubSeq(SpeciesSeq, 3, Len(SpeciesSeq)) \o SubSeq(SpeciesSeq, 1, 2)
      [] mode \in {"dict-all", "dict-nosort", "list-sort", "list-nocheck"} -> Rev(SpeciesSeq)
      [] mode \in {"tuple-keys", "tuple-sort"} -> Rev(SortSpecies(PendKeys))
      [] OTHER              -> <<>>
BaseMode(mode) ==
    CASE mode \in {"deduce", "deduce-nodup", "deduce-nocheck"} -> "deduce"
      [] mode \in {"list-all", "list-miss", "list-sort", "list-nocheck", "list-add", "list-add-sort"} -> "list"
      [] mode = "str-keys" -> "str" [] mode = "set-all" -> "set" [] mode = "odict-rot" -> "odict"
      [] mode \in {"dict-all", "dict-nosort"} -> "dict" [] mode \in {"tuple-keys", "tuple-sort"} -> "tuple"
OptOf(mode) ==
    [sort |-> IF mode \in {"list-sort", "tuple-sort", "list-add-sort"} THEN "yes"
              ELSE IF mode = "dict-nosort" THEN "no" ELSE "default",
     addmissing |-> mode \in {"list-add", "list-add-sort"},
     chk |-> IF mode = "deduce-nodup" THEN "nodup" ELSE IF mode \in {"deduce-nocheck", "list-nocheck"} THEN "none"
             ELSE "default"]
(* "list-miss": the species used, without the first of them: the constructor must refuse *)
GivenOf(mode) ==
    IF mode \in {"list-miss", "list-add", "list-add-sort"}
    THEN LET first == SpeciesSeq[MinOf({Idx(s) : s \in PendKeys})] IN SortSpecies(PendKeys \ {first})
    ELSE GivenFor(mode)

PickRx == \E k \in 1..Len(Catalog) :
    /\ phase = "run" /\ Len(pend) < MaxRx /\ NMakes < MaxSys /\ NOps = 0
    /\ (AllowDup \/ \A m \in 1..Len(pend) : pend[m] # k)
    /\ pend' = Append(pend, k) /\ out' = [op |-> "pick", fresh |-> {}] /\ UNCHANGED <<ws, hist, phase>>
(* a system without reactions is made only from a substance form that does not depend on them *)
EmptyOK(mode) == mode \in {"list-all", "set-all", "odict-rot", "dict-all"}
GenMake == \E mode \in Modes :
    /\ (pend # <<>> \/ (EmptyOK(mode) /\ ws = <<>> /\ AllowEmpty)) /\ NMakes < MaxSys
    /\ LET given == GivenOf(mode)
           ss == MakeSubst(PendRx, BaseMode(mode), given, OptOf(mode))
       IN  Make(PendRx, BaseMode(mode), given, IF UseComp THEN RestrictTo(Comp, ToSet(ss) \cup PendKeys) ELSE <<>>,
                OptOf(mode))

Ready == pend = <<>> /\ ws # <<>> /\ phase = "run"
CanonParts(sys) == LET c == CanonSplit(sys) IN
    [k \in 1..Len(c) |-> [rx |-> c[k].rx, ss |-> SelectSeq(sys.ss, LAMBDA s : s \in ToSet(c[k].ss))]]
CanonSub(sys, I) == [rx |-> SortInts(I), ss |-> SelectSeq(sys.ss, LAMBDA s : s \in KeysOf(sys, I))]
GenSplit == \E i \in 1..Len(ws) : Ready /\ NOps < MaxOps /\ DoSplit(i, CanonParts(ws[i]))
GenSubset == \E i \in 1..Len(ws), p \in Preds :
    /\ Ready /\ NOps < MaxOps
    /\ DoSubset(i, p, CanonSub(ws[i], SubsetYes(ws[i], p)), CanonSub(ws[i], RIdx(ws[i]) \ SubsetYes(ws[i], p)))
GenSort == \E i \in 1..Len(ws), how \in {"name", "rev"} : Ready /\ NOps < MaxOps /\ DoSort(i, how)
GenAdd == \E i \in 1..Len(ws), j \in 1..Len(ws), how \in {"add", "iadd", "add-list", "iadd-list"} :
    /\ Ready /\ NOps < MaxOps
    /\ DoAdd(i, j, how, [m \in 1..(NR(ws[i]) + NR(ws[j])) |->
                            IF m <= NR(ws[i]) THEN <<1, m>> ELSE <<2, m - NR(ws[i])>>],
             IF how \in {"add", "iadd"} THEN UnionOrder(ws[i].ss, ws[j].ss) ELSE ws[i].ss)

LastSys == Len(ws)
ConvArgs(sys) ==
    LET n == Len(sys.ss) IN
    \* vorder = the order in which the caller lists the varied substances: every injective sequence of
    \* 1..MaxVaried substances; unequal numbers of levels (1 + Idx mod 3)
    { [d |-> [s \in Subst(sys) |-> 10 + Idx(s)], a |-> [i \in 1..n |-> 20 + i], vorder |-> vo,
       vals |-> [s \in ToSet(vo) |-> [v \in 1..(1 + (Idx(s) % 3)) |-> 100 * Idx(s) + v]]] :
      vo \in { q \in UNION { [1..m -> Subst(sys)] : m \in 1..3 } : IsInj(q) } }
GenQuery ==
    /\ Ready
    /\ \/ \E kind \in QueryKinds \cap {"shape", "graph"} : Query(LastSys, kind, <<>>)
       \/ "order" \in QueryKinds /\ Query(LastSys, "order", [s \in Subst(ws[LastSys]) |-> 10 + Idx(s)])
       \/ "dot" \in QueryKinds /\ \E inact \in BOOLEAN :
              Query(LastSys, "dot", [inact |-> inact, rref0 |-> IF inact THEN 1 ELSE 0])
       \/ "subset" \in QueryKinds /\ \E p \in Preds : Query(LastSys, "subset", p)
       \/ "conv" \in QueryKinds /\ \E a \in ConvArgs(ws[LastSys]) : Query(LastSys, "conv", a)
       \/ "bounds" \in QueryKinds /\ \E c \in [Subst(ws[LastSys]) -> ConcGrid], den \in {1, 2} :
              Query(LastSys, "bounds", [c |-> c, den |-> den, form |-> IF den = 1 THEN "dict" ELSE "list"])
       \/ "yields" \in QueryKinds /\ \E k \in [RIdx(ws[LastSys]) -> YieldK] :
              \E den \in {1, 2} :
              Query(LastSys, "yields", [k |-> k, y |-> [s \in SysKeys(ws[LastSys]) |-> YieldsOf(ws[LastSys], k, s)],
                                        den |-> den,
                                        korder |-> IF den = 1 THEN SortSpecies(SysKeys(ws[LastSys]))
                                                   ELSE Rev(SortSpecies(SysKeys(ws[LastSys])))])
GenQuery2 == \E i \in 1..Len(ws), j \in 1..Len(ws), kind \in QueryKinds \cap {"add", "eq", "concat"} :
    Ready /\ Query2(i, j, kind)

(* "concatn": every ordering of three systems; "concatn-last": the last three systems, both ways *)
GenQueryCat ==
    /\ Ready /\ Len(ws) >= 3
    /\ \/ "concatn" \in QueryKinds /\ \E js \in { q \in [1..3 -> 1..Len(ws)] : IsInj(q) } : QueryCat(js)
       \/ "concatn-last" \in QueryKinds /\ LET n == Len(ws) IN \E js \in {<<n - 2, n - 1, n>>, <<n, n - 1, n - 2>>} : QueryCat(js)

Next == PickRx \/ GenMake \/ GenSplit \/ GenSubset \/ GenAdd \/ GenSort \/ GenQuery \/ GenQuery2 \/ GenQueryCat

------------------------------------------------------------------------------
(* invariants; each is checked on the systems created or changed by the last step (`fresh`):  *)
(* every system of the workspace was fresh once                                                *)
Fresh == out.fresh
Pairwise(S, R(_, _)) == \A a, b \in S : a # b => R(a, b)
SplitPartitionsSys(sys) ==
    LET G == Split(sys) IN
    /\ UNION { g.rx : g \in G } = RIdx(sys)                          \* covers the reactions
    /\ \A g \in G : g.rx # {}
    /\ Pairwise(G, LAMBDA g, h : g.rx \cap h.rx = {})                \* reaction lists disjoint
    /\ Pairwise(G, LAMBDA g, h : g.ss \cap h.ss = {})                \* substance sets disjoint
    /\ \A g \in G : g.ss = KeysOf(sys, g.rx)
    /\ \A g \in G : Cardinality(g.rx) <= 10 =>                       \* each group is connected:
           \A D \in (SUBSET g.rx) \ {{}, g.rx} :                       \* no way to cut it in two
               \E i \in D, j \in g.rx \ D : Shares(sys, i, j)
SplitPartitions == \A i \in Fresh : SplitPartitionsSys(ws[i])

PermuteSys(sys, p) == [sys EXCEPT !.rx = [k \in RIdx(sys) |-> sys.rx[p[k]]]]
SplitOrderInvariantSys(sys) ==
    \A p \in Permutations(RIdx(sys)) :
        { [rx |-> { p[k] : k \in g.rx }, ss |-> g.ss] : g \in Split(PermuteSys(sys, p)) } = Split(sys)
SplitOrderInvariant == \A i \in Fresh : NR(ws[i]) <= 5 => SplitOrderInvariantSys(ws[i])

CategoriesPartitionSys(sys) ==
    LET c == Categorize(sys)
        parts == <<c.accumulated, c.depleted, c.unaffected, c.nonparticipating, Mixed(sys)>>
    IN  /\ UNION { parts[k] : k \in 1..5 } = Subst(sys)
        /\ \A a, b \in 1..5 : a # b => parts[a] \cap parts[b] = {}
CategoriesPartition == \A i \in Fresh : CategoriesPartitionSys(ws[i])

WorkspaceWellFormed == \A i \in Fresh : WellFormed(ws[i])

(* no non-negative state (on the grid) with the same element totals exceeds the bound *)
BoundDominatesFeasibleStates ==
    (out.op = "query" /\ out.kind = "bounds") =>
        LET h == hist[Len(hist)]  sys == ws[h.i]  c0 == h.arg.c IN
        h.arg.den = 1 => \A c \in [Subst(sys) -> ConcGrid] :
            (\A e \in AllElems(sys) : ElemTotal(sys, c, e) = ElemTotal(sys, c0, e)) =>
                \A s \in Subst(sys) : LET b == UpperBound(sys, c0, s) IN b = Inf \/ QLe(<<c[s], 1>>, b)

(* the yields are decomposed uniquely when the rank is full: no other small integer k fits *)
YieldsUnique ==
    (out.op = "query" /\ out.kind = "yields") =>
        LET h == hist[Len(hist)]  sys == ws[h.i] IN
        \A k \in [RIdx(sys) -> YieldK] :
            (\A s \in SysKeys(sys) : YieldsOf(sys, k, s) = h.arg.y[s]) => k = h.arg.k

(* the exported graph is the reaction graph of the property: its undirected components that   *)
(* contain a reaction are exactly the groups Split reports; every other component is one        *)
(* isolated substance                                                                           *)
DotComponentsMatchSplit ==
    (out.op = "query" /\ out.kind = "dot" /\ hist[Len(hist)].arg.inact) =>
        LET h == hist[Len(hist)]  sys == ws[h.i]  g == out.exp
            rids == { g.rnodes[i].id : i \in DOMAIN g.rnodes }
            idxOf(id) == CHOOSE i \in DOMAIN g.rnodes : g.rnodes[i].id = id
            withRx == { C \in GComponents(g) : C \cap rids # {} }
        IN  /\ { [rx |-> { idxOf(id) : id \in C \cap rids }, ss |-> C \ rids] : C \in withRx } = Split(sys)
            /\ \A C \in GComponents(g) \ withRx : Cardinality(C) = 1 /\ C \subseteq Subst(sys)
            /\ GNodes(g) \ rids = Subst(sys)

View == <<ws, pend, out, phase, NMakes, NOps>>

------------------------------------------------------------------------------
Done == phase = "done"
LastEv == hist[Len(hist)]
OptTag(o) == (IF o.sort = "default" THEN "" ELSE "-sort-" \o o.sort) \o (IF o.addmissing THEN "-add" ELSE "")
             \o (IF o.chk = "default" THEN "" ELSE "-" \o o.chk)
Cls == IF LastEv.op = "Make" THEN (IF out.raised THEN "make-refused" ELSE "make-" \o LastEv.mode) \o OptTag(LastEv.opt)
       ELSE IF LastEv.op = "Query" /\ LastEv.kind = "graph"
            THEN "graph-" \o ToString(Cardinality(Split(ws[LastEv.i]))) \o "-" \o ToString(NR(ws[LastEv.i]))
       ELSE IF LastEv.op = "Query" /\ LastEv.kind = "conv" THEN "conv-" \o ToString(Len(LastEv.arg.vorder))
       ELSE LastEv.kind
CaseRec == [in |-> [hist |-> hist], exp |-> out, cls |-> Cls]
(* a case is a finished history, or a system just made (its constructor outcome) *)
EmitNow == Done \/ (hist # <<>> /\ out.op = "make")
Emit == EmitNow => PrintT(<<"CASE", ToJson(CaseRec)>>)
=============================================================================
