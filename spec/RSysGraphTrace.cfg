INIT TInit
NEXT TNext
CONSTANTS
  SpeciesSeq <- Species12
  Catalog <- NoSeq
  Comp <- NoSeq
  UseComp = FALSE
  MaxRx = 0
  AllowDup = FALSE
  Modes <- NoSet
  MaxSys = 0
  MaxOps = 0
  Preds <- NoSet
  QueryKinds <- NoSet
  ConcGrid <- NoSet
  YieldK <- NoSet
  TerminalQueries = FALSE
  AllowEmpty = FALSE
  AddForms <- NoSet
INVARIANT Verdict
INVARIANT WorkspaceWellFormed
INVARIANT SplitPartitions
INVARIANT CategoriesPartition
CHECK_DEADLOCK FALSE
