---------------------------- MODULE RSysGraphTrace ----------------------------
(* Trace validation for RSysGraph (C15).  A trace is a history of operations on real         *)
(* ReactionSystem objects with the projected observation of each (`obs`), closed by an      *)
(* "End" event.  Results whose order the property leaves open (split groups, subset parts,  *)
(* sums) are arguments of the actions; pure queries are compared field by field with the    *)
(* canonical expectation.  Batch protocol as in FormulaTrace.                                *)
EXTENDS RSysGraph, IOUtils

Traces == JsonDeserialize(IOEnv.TRACE_FILE)

VARIABLES tid, pos, verdict
tvars == <<vars, tid, pos, verdict>>

Species12 == <<"A", "B", "C", "D", "E", "F", "G", "H", "I", "J", "K", "L">>
NoSeq == <<>>
NoSet == {}
Ev == Traces[tid][pos]

TInit == Init /\ tid \in 1..Len(Traces) /\ pos = 1 /\ verdict = "none"

(* which field of a query observation disagrees with the expectation ("" = none) *)
QBad(kind, o, x) ==
    CASE kind = "shape" -> IF o.rx # x.rx THEN "reactions" ELSE IF o.ss # x.ss THEN "substances" ELSE ""
      [] kind = "graph" ->
           IF o.fault # "" THEN "fault:" \o o.fault
           ELSE IF o.split # x.split THEN "split"
           ELSE IF o.cat # x.cat THEN "categories"
           ELSE IF x.eqdef /\ o.eq # x.eq THEN "equilibria"
           ELSE IF ~x.eqdef /\ ~(/\ IsInj(o.eq) /\ ToSet(o.eq) \subseteq ToSet(x.eq)
                                /\ { o.eq[k][1] : k \in DOMAIN o.eq } = ToSet(x.eqfw)) THEN "equilibria-open"
           ELSE IF o.part # x.part THEN "participation"
           ELSE IF o.eff # x.eff THEN "effect" ELSE ""
      [] kind = "dot" ->
           IF o.snodes # x.snodes THEN "substance-nodes" ELSE IF o.rnodes # x.rnodes THEN "reaction-nodes"
           ELSE IF o.edges # x.edges THEN "edges" ELSE ""
      [] kind = "order" -> IF o.names # x.names THEN "names" ELSE IF o.arr # x.arr THEN "array"
                           ELSE IF o.idx # x.idx THEN "index" ELSE IF o.col # x.col THEN "varied" ELSE ""
      [] kind = "subset" -> IF o.yes # x.yes \/ o.no # x.no THEN "subset" ELSE ""
      [] kind = "conv" ->
           IF o.fault # "" THEN "fault:" \o o.fault
           ELSE IF o.arr # x.arr THEN "array" ELSE IF o.dict # x.dict THEN "dict"
           ELSE IF o.idx # x.idx \/ o.idxint # x.idxint THEN "index"
           ELSE IF o.names # x.names THEN "names" ELSE IF o.arrlist # x.arrlist THEN "array-from-list"
           ELSE IF o.arrint # x.arrint THEN "array-dtype" ELSE IF o.arr2d # x.arr2d THEN "array-2d"
           ELSE IF o.argkept # x.argkept THEN "argument-changed" ELSE IF o.varied0 # x.varied0 THEN "varied-none"
           ELSE IF o.arrextra # x.arrextra THEN "array-extra-key" ELSE IF o.refused # x.refused THEN "refusals"
           ELSE IF o.vkeys # x.vkeys THEN "varied-keys"
           ELSE IF o.varied # x.varied THEN "varied" ELSE ""
      [] kind = "bounds" -> IF o.ub # x.ub THEN "bounds" ELSE ""
      [] kind = "yields" -> IF o.k # x.k THEN "yields" ELSE ""
      [] kind = "add" -> IF o.src # x.src THEN "sum-reactions" ELSE IF o.ss # x.ss THEN "sum-substances" ELSE ""
      [] kind = "eq" -> IF o.eq # x.eq THEN "equality" ELSE ""
      [] kind = "concatn" -> IF o.sum # x.sum THEN "concat-sum" ELSE IF o.dup # x.dup THEN "concat-duplicates" ELSE ""
      [] kind = "concat" -> IF o.sum # x.sum THEN "concat-sum" ELSE IF o.dup # x.dup THEN "concat-duplicates" ELSE ""
Clean(o) == ~o.raised /\ o.bad = ""

Step(e) ==
    CASE e.op = "Make" -> /\ Make(e.rx, e.mode, e.given, e.comp, e.opt)
                          /\ e.obs.bad = ""
                          /\ e.obs.raised = out'.raised
                          /\ (~e.obs.raised => (e.obs.ss = out'.ss /\ e.obs.nr = out'.nr))
      [] e.op = "DoSplit"  -> Clean(e.obs) /\ DoSplit(e.i, e.obs.parts)
      [] e.op = "DoSubset" -> Clean(e.obs) /\ DoSubset(e.i, e.p, e.obs.yes, e.obs.no)
      [] e.op = "DoAdd"    -> Clean(e.obs) /\ DoAdd(e.i, e.j, e.how, e.obs.src, e.obs.ss)
      [] e.op = "DoSort"   -> Clean(e.obs) /\ DoSort(e.i, e.how) /\ e.obs.ss = out'.ss
      [] e.op = "Query"    -> Clean(e.obs) /\ Query(e.i, e.kind, e.arg) /\ QBad(e.kind, e.obs, out'.exp) = ""
      [] e.op = "Peek"     -> Clean(e.obs) /\ Peek(e.i, e.kind, e.arg) /\ QBad(e.kind, e.obs, out'.exp) = ""
      [] e.op = "QueryCat" -> Clean(e.obs) /\ QueryCat(e.js) /\ QBad("concatn", e.obs, out'.exp) = ""
      [] e.op = "Query2"   -> Clean(e.obs) /\ Query2(e.i, e.j, e.kind) /\ QBad(e.kind, e.obs, out'.exp) = ""
      [] OTHER -> FALSE

(* frame property: a step changes only the systems it names.  Every observation lists all      *)
(* systems as they are after the step; the listing of the previous step must be the workspace    *)
(* the specification arrived at (checked before the next event, and before "End")               *)
PrevAllOK ==
    IF pos = 1 THEN TRUE
    ELSE LET p == Traces[tid][pos - 1] IN
         IF "all" \notin DOMAIN p.obs THEN TRUE
         ELSE IF Len(p.obs.all) # Len(ws) THEN FALSE
         ELSE \A k \in 1..Len(ws) : ShapeOK(p.obs.all[k], ws[k])

TStep ==
    /\ verdict = "none" /\ pos <= Len(Traces[tid])
    /\ PrevAllOK
    /\ IF Ev.op = "End"
       THEN verdict' = "accept" /\ UNCHANGED vars
       ELSE Step(Ev) /\ verdict' = "none"
    /\ pos' = pos + 1 /\ UNCHANGED tid

TReject ==
    /\ verdict = "none" /\ ~ENABLED TStep
    /\ verdict' = "reject" /\ UNCHANGED <<vars, tid, pos>>

TNext == TStep \/ TReject

(* "model:" = the event is not an operation of the model (harness defect); "outside:" = the  *)
(* query is not defined by the property for this system (skipped); else the failing clause   *)
ObsFault(o) == IF o.raised THEN "raised:" \o o.exc ELSE IF o.bad # "" THEN "bad:" \o o.bad ELSE ""
Clause ==
    IF pos > Len(Traces[tid]) THEN "model:no-end-event"
    ELSE IF ~PrevAllOK THEN "frame:another-system-changed"
    ELSE IF Ev.op = "End" THEN "model:end"
    ELSE LET e == Ev IN
      IF e.op = "Make" THEN
          (IF ~MakeInModel(e.rx, e.mode, e.given, e.opt) THEN "model:Make"
           ELSE IF e.obs.bad # "" THEN "bad:" \o e.obs.bad
           ELSE IF e.obs.raised # MakeRefused(e.rx, e.mode, e.given, e.opt)
                THEN (IF e.obs.raised THEN "make-raised:" \o e.obs.exc ELSE "make-not-refused")
           ELSE IF e.obs.ss # MakeSubst(e.rx, e.mode, e.given, e.opt) THEN "substance-order"
           ELSE "reaction-count")
      ELSE IF e.op \in {"DoSplit", "DoSubset"} THEN
          (IF ~IsSys(e.i) THEN "model:" \o e.op
           ELSE IF ObsFault(e.obs) # "" THEN ObsFault(e.obs)
           ELSE IF e.op = "DoSplit" THEN
                (IF \E k \in DOMAIN e.obs.parts : ~PartShape(e.obs.parts[k]) THEN "split-repeats"
                 ELSE IF { ToSet(e.obs.parts[k].rx) : k \in DOMAIN e.obs.parts } # { g.rx : g \in Split(ws[e.i]) }
                      THEN "split-reactions"
                 ELSE IF Len(e.obs.parts) # Cardinality(Split(ws[e.i])) THEN "split-count"
                 ELSE "split-substances")
           ELSE (IF ToSet(e.obs.yes.rx) # SubsetYes(ws[e.i], e.p) \/ ToSet(e.obs.no.rx) # RIdx(ws[e.i]) \ SubsetYes(ws[e.i], e.p)
                    \/ ~IsInj(e.obs.yes.rx) \/ ~IsInj(e.obs.no.rx)
                 THEN "subset-reactions" ELSE "subset-substances"))
      ELSE IF e.op = "DoAdd" THEN
          (IF ~IsSys(e.i) \/ ~IsSys(e.j) \/ e.how \notin AddHows \/ (~IsNewHow(e.how) /\ e.i = e.j) THEN "model:DoAdd"
           ELSE IF IsPlainHow(e.how) /\ ~(SysKeys(ws[e.j]) \subseteq Subst(ws[e.i])) THEN "outside:list-add"
           ELSE IF ObsFault(e.obs) # "" THEN ObsFault(e.obs)
           ELSE IF ~(IsInj(e.obs.src) /\ ToSet(e.obs.src) = ({1} \X RIdx(ws[e.i])) \cup ({2} \X RIdx(ws[e.j])))
                THEN "sum-reactions" ELSE "sum-substances")
      ELSE IF e.op = "DoSort" THEN
          (IF ~IsSys(e.i) \/ e.how \notin {"name", "rev"} THEN "model:DoSort"
           ELSE IF ObsFault(e.obs) # "" THEN ObsFault(e.obs) ELSE "sorted-order")
      ELSE IF e.op \in {"Query", "Peek"} THEN
          (IF ~IsSys(e.i) THEN "model:Query"
           ELSE IF ~QueryDefined(ws[e.i], e.kind, e.arg) THEN "outside:" \o e.kind
           ELSE IF ObsFault(e.obs) # "" THEN ObsFault(e.obs)
           ELSE e.kind \o ":" \o QBad(e.kind, e.obs, QueryExp(ws[e.i], e.kind, e.arg)))
      ELSE IF e.op = "Query2" THEN
          (IF ~IsSys(e.i) \/ ~IsSys(e.j) \/ e.kind \notin {"add", "eq", "concat"} THEN "model:Query2"
           ELSE IF ObsFault(e.obs) # "" THEN ObsFault(e.obs)
           ELSE e.kind \o ":" \o QBad(e.kind, e.obs, Query2Exp(ws[e.i], ws[e.j], e.kind)))
      ELSE IF e.op = "QueryCat" THEN
          (IF ~(Len(e.js) >= 2 /\ IsInj(e.js) /\ \A k \in DOMAIN e.js : IsSys(e.js[k])) THEN "model:QueryCat"
           ELSE IF ObsFault(e.obs) # "" THEN ObsFault(e.obs)
           ELSE "concatn:" \o QBad("concatn", e.obs, ConcatNExp([k \in DOMAIN e.js |-> ws[e.js[k]]])))
      ELSE "model:unknown-op"

Verdict == verdict # "none" =>
    PrintT(<<"VERDICT", tid, verdict, pos, IF verdict = "accept" THEN "" ELSE Clause>>)
=============================================================================
