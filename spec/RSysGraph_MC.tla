---------------------------- MODULE RSysGraph_MC ----------------------------
(* Constants for the exhaustive configurations of RSysGraph (C15).                          *)
EXTENDS RSysGraph

M1(a, x) == [s \in {a} |-> x]
M2(a, x, b, y) == [s \in {a, b} |-> IF s = a THEN x ELSE y]
R(re, pr) == [reac |-> re, prod |-> pr]

Species5 == <<"A", "B", "C", "D", "E">>
(* 12 reactions over 5 species: forward/backward pairs (1/2, 3/4, 6/12), a bridge between     *)
(* components (5), a catalyst (E in 6, 12), autocatalysis (9, 10), several components          *)
Cat12 == <<
    R(M1("A", 1), M1("B", 1)),                      \*  1  A -> B
    R(M1("B", 1), M1("A", 1)),                      \*  2  B -> A
    R(M1("C", 1), M1("D", 1)),                      \*  3  C -> D
    R(M1("D", 1), M1("C", 1)),                      \*  4  D -> C
    R(M1("B", 1), M1("C", 1)),                      \*  5  B -> C
    R(M2("A", 1, "E", 1), M2("B", 1, "E", 1)),      \*  6  A + E -> B + E
    R(M1("A", 2), M1("C", 1)),                      \*  7  2 A -> C
    R(M1("D", 1), M1("E", 1)),                      \*  8  D -> E
    R(M2("A", 1, "B", 1), M1("B", 2)),              \*  9  A + B -> 2 B
    R(M1("E", 1), M1("E", 2)),                      \* 10  E -> 2 E
    R(M2("C", 1, "D", 1), M1("E", 1)),              \* 11  C + D -> E
    R(M2("B", 1, "E", 1), M2("A", 1, "E", 1)) >>    \* 12  B + E -> A + E
(* two more reactions with inactive parts, for the graph-export slice *)
RI(re, pr, ire, ipr) == [reac |-> re, prod |-> pr, ireac |-> ire, iprod |-> ipr]
Cat14 == Cat12 \o <<
    RI(M1("A", 1), M1("B", 1), M1("C", 1), <<>>),   \* 13  A + (C) -> B
    RI(M1("D", 1), M1("E", 1), <<>>, M1("E", 1)) >> \* 14  D -> E + (E)
(* the four-part identity of a reaction: reactions over the same active stoichiometry A -> B that differ in *)
(* exactly one inactive part (and the plain one); "the same reaction" in add / == / concatenate must look at  *)
(* all four parts, so no two of these are duplicates of one another                                          *)
CatParts == <<
    R(M1("A", 1), M1("B", 1)),                               \* A -> B
    RI(M1("A", 1), M1("B", 1), <<>>, M1("C", 1)),            \* A -> B + (C)
    RI(M1("A", 1), M1("B", 1), M1("C", 1), <<>>),            \* A + (C) -> B
    RI(M1("A", 1), M1("B", 1), <<>>, M1("D", 1)),            \* A -> B + (D)
    RI(M1("A", 1), M1("B", 1), M1("C", 1), M1("C", 1)),      \* A + (C) -> B + (C)
    RI(M1("A", 1), M1("B", 1), M1("C", 2), <<>>) >>          \* A + (2 C) -> B
Q_Dot == {"graph", "dot"}
(* the chained shape that needs transitive fusion in split: greedy grouping of A->B, C->D,     *)
(* E->F, C+F->G, B+E->H leaves three provisional groups chained only through the last one       *)
Species8 == <<"A", "B", "C", "D", "E", "F", "G", "H">>
CatChain == <<
    R(M1("A", 1), M1("B", 1)), R(M1("C", 1), M1("D", 1)), R(M1("E", 1), M1("F", 1)),
    R(M2("C", 1, "F", 1), M1("G", 1)), R(M2("B", 1, "E", 1), M1("H", 1)), R(M1("D", 1), M1("G", 1)) >>
Cat6 == <<Cat12[1], Cat12[2], Cat12[3], Cat12[5], Cat12[6], Cat12[10]>>
(* named reactions; "f" and "g" are the same reaction under two names (twins once two systems *)
(* are added), "f2" carries the name "f" again on another reaction                              *)
RN(re, pr, nm) == [reac |-> re, prod |-> pr, name |-> nm]
CatN == << RN(M1("A", 1), M1("B", 1), "f"), RN(M1("A", 1), M1("B", 1), "g"),
           R(M1("B", 1), M1("C", 1)), RN(M1("C", 1), M1("D", 1), "f") >>
F_None == {}
F_Sys == {"add", "iadd"}
F_Hist == {"add", "iadd", "add-list", "add-gen", "iadd-list", "iadd-gen", "iadd-iter"}
F_HistQ == {"add", "iadd", "add-list", "iadd-gen"}
F_HistT == {"add", "iadd", "add-gen", "iadd-list", "iadd-iter"}
CatN3 == <<CatN[1], CatN[2], CatN[4]>>
Cat4 == <<Cat12[1], Cat12[2], Cat12[3], Cat12[5]>>
CatChain5 == SubSeq(CatChain, 1, 5)
NoComp == <<>>

Modes_All == {"deduce", "list-all", "str-keys", "set-all", "odict-rot", "list-miss",
              "dict-all", "dict-nosort", "tuple-keys", "tuple-sort", "list-sort", "list-add", "list-add-sort",
              "deduce-nodup", "deduce-nocheck", "list-nocheck", "odict-alias", "dict-alias"}
Modes_Two == {"deduce", "list-all"}
Modes_Dot == {"deduce", "list-all", "odict-alias"}
Modes_One == {"deduce"}
Modes_Conv == {"deduce", "list-all", "str-keys", "odict-rot", "odict-alias"}
Modes_B == {"list-all", "odict-rot"}
Modes_Pair == {"deduce", "list-all", "set-all"}

P(kind, s, n) == [kind |-> kind, s |-> s, n |-> n]
Preds_All == {P("has", "A", 0), P("has", "E", 0), P("has", "C", 0), P("consumes", "B", 0), P("consumes", "E", 0),
              P("order", "", 1), P("order", "", 2), P("nprod", "", 2)}
Preds_Few == {P("has", "B", 0), P("consumes", "A", 0), P("order", "", 1)}
Preds_None == {}
Preds_Named == {P("named", "f", 0), P("named", "g", 0), P("has", "C", 0)}
Preds_Named2 == {P("named", "f", 0), P("named", "g", 0)}

Q_None == {}
Q_Graph == {"graph"}
Q_Subset == {"subset"}
Q_Pair == {"add", "eq", "concat"}
Q_Conv == {"conv"}
Q_Cat3 == {"concatn"}
Q_HistCat == {"concatn-last"}
Q_Bounds == {"bounds"}
Q_Yields == {"yields"}
Q_HistEnd == {"graph", "concatn-last", "order", "peek"}
Q_SubYld == {"subset", "yields"}
G_None == {}
G_Q == {0, 2}
G_T == {0, 1, 3}
K_None == {}
K_Q == {0, 1, 2}
K_T == {0, 1, 3}

(* balanced reactions over substances with compositions, for the upper bounds *)
SpeciesB == <<"H2", "H2O", "H2O2", "O2", "OH-", "e-">>
CompB == [s \in ToSet(SpeciesB) |->
    CASE s = "H2"   -> M1("1", 2)
      [] s = "H2O"  -> M2("1", 2, "8", 1)
      [] s = "H2O2" -> M2("1", 2, "8", 2)
      [] s = "O2"   -> M1("8", 2)
      [] s = "OH-"  -> [e \in {"0", "1", "8"} |-> IF e = "0" THEN -1 ELSE 1]
      [] s = "e-"   -> M1("0", -1)]
CatB == <<
    R(M2("H2", 2, "O2", 1), M1("H2O", 2)),          \* 2 H2 + O2 -> 2 H2O
    R(M1("H2O2", 2), M2("H2O", 2, "O2", 1)),        \* 2 H2O2 -> 2 H2O + O2
    R(M2("H2", 1, "O2", 1), M1("H2O2", 1)) >>       \* H2 + O2 -> H2O2
=============================================================================
