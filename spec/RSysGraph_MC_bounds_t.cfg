INIT Init
NEXT Next
CONSTANTS
  SpeciesSeq <- SpeciesB
  Catalog <- CatB
  Comp <- CompB
  UseComp = TRUE
  MaxRx = 1
  AllowDup = FALSE
  Modes <- Modes_B
  MaxSys = 1
  MaxOps = 0
  Preds <- Preds_None
  QueryKinds <- Q_Bounds
  ConcGrid <- G_T
  YieldK <- K_None
  TerminalQueries = TRUE
  AllowEmpty = FALSE
  AddForms <- F_None

INVARIANT WorkspaceWellFormed
INVARIANT SplitPartitions
INVARIANT SplitOrderInvariant
INVARIANT CategoriesPartition
INVARIANT BoundDominatesFeasibleStates
INVARIANT YieldsUnique
INVARIANT DotComponentsMatchSplit
INVARIANT Emit
CHECK_DEADLOCK FALSE
