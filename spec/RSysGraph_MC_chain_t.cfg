INIT Init
NEXT Next
CONSTANTS
  SpeciesSeq <- Species8
  Catalog <- CatChain
  Comp <- NoComp
  UseComp = FALSE
  MaxRx = 6
  AllowDup = FALSE
  Modes <- Modes_One
  MaxSys = 1
  MaxOps = 0
  Preds <- Preds_None
  QueryKinds <- Q_Graph
  ConcGrid <- G_None
  YieldK <- K_None
  TerminalQueries = TRUE
  AllowEmpty = FALSE
  AddForms <- F_None

INVARIANT WorkspaceWellFormed
INVARIANT SplitPartitions
INVARIANT CategoriesPartition
INVARIANT BoundDominatesFeasibleStates
INVARIANT YieldsUnique
INVARIANT DotComponentsMatchSplit
INVARIANT Emit
CHECK_DEADLOCK FALSE
