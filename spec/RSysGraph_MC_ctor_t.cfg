INIT Init
NEXT Next
CONSTANTS
  SpeciesSeq <- Species5
  Catalog <- Cat12
  Comp <- NoComp
  UseComp = FALSE
  MaxRx = 3
  AllowDup = TRUE
  Modes <- Modes_All
  MaxSys = 1
  MaxOps = 0
  Preds <- Preds_None
  QueryKinds <- Q_None
  ConcGrid <- G_None
  YieldK <- K_None
  TerminalQueries = TRUE
  AllowEmpty = FALSE
  AddForms <- F_None

INVARIANT WorkspaceWellFormed
INVARIANT SplitPartitions
INVARIANT SplitOrderInvariant
INVARIANT CategoriesPartition
INVARIANT BoundDominatesFeasibleStates
INVARIANT YieldsUnique
INVARIANT DotComponentsMatchSplit
INVARIANT Emit
CHECK_DEADLOCK FALSE
