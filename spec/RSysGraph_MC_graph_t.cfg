INIT Init
NEXT Next
CONSTANTS
  SpeciesSeq <- Species5
  Catalog <- Cat12
  Comp <- NoComp
  UseComp = FALSE
  MaxRx = 4
  AllowDup = FALSE
  Modes <- Modes_Two
  MaxSys = 1
  MaxOps = 0
  Preds <- Preds_None
  QueryKinds <- Q_Graph
  ConcGrid <- G_None
  YieldK <- K_None
  TerminalQueries = TRUE
  AllowEmpty = TRUE
  AddForms <- F_None

INVARIANT WorkspaceWellFormed
INVARIANT SplitPartitions
INVARIANT SplitOrderInvariant
INVARIANT CategoriesPartition
INVARIANT BoundDominatesFeasibleStates
INVARIANT YieldsUnique
INVARIANT DotComponentsMatchSplit
INVARIANT Emit
CHECK_DEADLOCK FALSE
