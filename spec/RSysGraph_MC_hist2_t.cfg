INIT Init
NEXT Next
CONSTANTS
  SpeciesSeq <- Species5
  Catalog <- Cat6
  Comp <- NoComp
  UseComp = FALSE
  MaxRx = 3
  AllowDup = FALSE
  Modes <- Modes_One
  MaxSys = 1
  MaxOps = 2
  Preds <- Preds_Few
  QueryKinds <- Q_HistEnd
  ConcGrid <- G_None
  YieldK <- K_None
  TerminalQueries = TRUE
  AllowEmpty = FALSE
  AddForms <- F_HistQ

INVARIANT WorkspaceWellFormed
INVARIANT SplitPartitions
INVARIANT SplitOrderInvariant
INVARIANT CategoriesPartition
INVARIANT BoundDominatesFeasibleStates
INVARIANT YieldsUnique
INVARIANT DotComponentsMatchSplit
INVARIANT Emit
CHECK_DEADLOCK FALSE
