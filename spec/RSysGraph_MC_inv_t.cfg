INIT Init
NEXT Next
CONSTANTS
  SpeciesSeq <- Species5
  Catalog <- Cat4
  Comp <- NoComp
  UseComp = FALSE
  MaxRx = 2
  AllowDup = FALSE
  Modes <- Modes_One
  MaxSys = 1
  MaxOps = 3
  Preds <- Preds_Few
  QueryKinds <- Q_None
  ConcGrid <- G_None
  YieldK <- K_None
  TerminalQueries = TRUE
  AllowEmpty = FALSE
  AddForms <- F_HistQ
VIEW View
INVARIANT WorkspaceWellFormed
INVARIANT SplitPartitions
INVARIANT SplitOrderInvariant
INVARIANT CategoriesPartition
INVARIANT BoundDominatesFeasibleStates
INVARIANT YieldsUnique
INVARIANT DotComponentsMatchSplit

CHECK_DEADLOCK FALSE
