INIT Init
NEXT Next
CONSTANTS
  SpeciesSeq <- Species5
  Catalog <- CatParts
  Comp <- NoComp
  UseComp = FALSE
  MaxRx = 2
  AllowDup = FALSE
  Modes <- Modes_Two
  MaxSys = 2
  MaxOps = 0
  Preds <- Preds_None
  QueryKinds <- Q_Pair
  ConcGrid <- G_None
  YieldK <- K_None
  TerminalQueries = TRUE
  AllowEmpty = FALSE
  AddForms <- F_None

INVARIANT WorkspaceWellFormed
INVARIANT SplitPartitions
INVARIANT SplitOrderInvariant
INVARIANT CategoriesPartition
INVARIANT BoundDominatesFeasibleStates
INVARIANT YieldsUnique
INVARIANT DotComponentsMatchSplit
INVARIANT Emit
CHECK_DEADLOCK FALSE
