INIT Init
NEXT Next
CONSTANTS
  SpeciesSeq <- Species5
  Catalog <- CatN3
  Comp <- NoComp
  UseComp = FALSE
  MaxRx = 1
  AllowDup = FALSE
  Modes <- Modes_One
  MaxSys = 2
  MaxOps = 2
  Preds <- Preds_Named2
  QueryKinds <- Q_Graph
  ConcGrid <- G_None
  YieldK <- K_None
  TerminalQueries = TRUE
  AllowEmpty = FALSE
  AddForms <- F_Sys

INVARIANT WorkspaceWellFormed
INVARIANT SplitPartitions
INVARIANT SplitOrderInvariant
INVARIANT CategoriesPartition
INVARIANT BoundDominatesFeasibleStates
INVARIANT YieldsUnique
INVARIANT DotComponentsMatchSplit
INVARIANT Emit
CHECK_DEADLOCK FALSE
