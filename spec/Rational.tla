---------------------------- MODULE Rational ----------------------------
(* Exact rational arithmetic on pairs <<n, d>> with d > 0, always normalised.                  *)
(* TLC integers are 32-bit: callers keep numerators and denominators small (documented at    *)
(* each use); TLC reports an overflow as an error, never silently wraps.                     *)
EXTENDS Integers, Sequences

Abs(x) == IF x < 0 THEN -x ELSE x
Sgn(x) == IF x < 0 THEN -1 ELSE IF x = 0 THEN 0 ELSE 1

RECURSIVE GCD(_, _)
GCD(a, b) == IF b = 0 THEN Abs(a) ELSE GCD(b, a % b)
LCM(a, b) == IF a = 0 \/ b = 0 THEN 0 ELSE (Abs(a) \div GCD(a, b)) * Abs(b)

Norm(q) ==
    LET n == q[1]  d == q[2]
        g == GCD(Abs(n), Abs(d))
        s == IF d < 0 THEN -1 ELSE 1
    IN  IF n = 0 THEN <<0, 1>> ELSE <<s * (n \div g), s * (d \div g)>>

Q(n) == <<n, 1>>
QZero == <<0, 1>>
QOne == <<1, 1>>
IsQ(q) == q \in Int \X Int /\ q[2] > 0
\* cross-reduce before multiplying so that intermediate products stay small
QAdd(a, b) == LET g == GCD(a[2], b[2])
              IN  Norm(<<a[1] * (b[2] \div g) + b[1] * (a[2] \div g), (a[2] \div g) * b[2]>>)
QNeg(a) == <<-a[1], a[2]>>
QSub(a, b) == QAdd(a, QNeg(b))
QMul(a, b) == LET g1 == GCD(Abs(a[1]), b[2])  g2 == GCD(Abs(b[1]), a[2])
              IN  IF a[1] = 0 \/ b[1] = 0 THEN QZero
                  ELSE Norm(<<(a[1] \div g1) * (b[1] \div g2), (a[2] \div g2) * (b[2] \div g1)>>)
QInv(a) == Norm(<<a[2], a[1]>>)
QDiv(a, b) == QMul(a, QInv(b))
QEq(a, b) == Norm(a) = Norm(b)
QLt(a, b) == a[1] * b[2] < b[1] * a[2]
QLe(a, b) == a[1] * b[2] <= b[1] * a[2]
QIsInt(a) == Norm(a)[2] = 1
QIsZero(a) == a[1] = 0
QSgn(a) == Sgn(a[1])
QAbs(a) == <<Abs(a[1]), a[2]>>

RECURSIVE IPow(_, _)
IPow(b, e) == IF e = 0 THEN 1 ELSE b * IPow(b, e - 1)
QPow(a, k) == IF k >= 0 THEN Norm(<<IPow(a[1], k), IPow(a[2], k)>>)
              ELSE Norm(<<IPow(a[2], -k), IPow(a[1], -k)>>)

RECURSIVE QSumSeq(_)
QSumSeq(s) == IF s = <<>> THEN QZero ELSE QAdd(Head(s), QSumSeq(Tail(s)))
RECURSIVE QProdSeq(_)
QProdSeq(s) == IF s = <<>> THEN QOne ELSE QMul(Head(s), QProdSeq(Tail(s)))

RECURSIVE SumSeq(_)
SumSeq(s) == IF s = <<>> THEN 0 ELSE Head(s) + SumSeq(Tail(s))
RECURSIVE GCDSeq(_)
GCDSeq(s) == IF s = <<>> THEN 0 ELSE GCD(Head(s), GCDSeq(Tail(s)))
=============================================================================
