---------------------------- MODULE ReactionRender ----------------------------
(* What a printed reaction/equilibrium shows (last sentence of C13): side by side, in stored  *)
(* order, each coefficient (omitted when 1) followed by the rendered name of its species,     *)
(* terms joined by a plus, the two sides around the arrow of the reaction kind.               *)
(* A reaction is built term by term; the state carries the stored-order term lists and the    *)
(* presentation tokens are derived from them.  Species are indices into a pool of formulas    *)
(* that the binding layer instantiates (their rendered names come from the Formula spec).     *)
EXTENDS Integers, Sequences, FiniteSets, TLC, Json

CONSTANTS NSpecies, Coefs, MaxReac, MaxProd, Kinds

VARIABLES reac, prod, kind, phase
vars == <<reac, prod, kind, phase>>

Init == reac = <<>> /\ prod = <<>> /\ kind = "none" /\ phase = "reac"

Used(side) == { side[i][1] : i \in 1..Len(side) }

AddReac(s, c) == /\ phase = "reac" /\ Len(reac) < MaxReac /\ s \notin Used(reac)
                 /\ reac' = Append(reac, <<s, c>>) /\ UNCHANGED <<prod, kind, phase>>
Arrow(k) == /\ phase = "reac" /\ reac # <<>> /\ kind' = k /\ phase' = "prod" /\ UNCHANGED <<reac, prod>>
AddProd(s, c) == /\ phase = "prod" /\ Len(prod) < MaxProd /\ s \notin Used(prod)
                 /\ prod' = Append(prod, <<s, c>>) /\ UNCHANGED <<reac, kind, phase>>
Finish == /\ phase = "prod" /\ prod # <<>> /\ phase' = "done" /\ UNCHANGED <<reac, prod, kind>>

GenAddReac == \E s \in 1..NSpecies, c \in Coefs : AddReac(s, c)
GenArrow == \E k \in Kinds : Arrow(k)
GenAddProd == \E s \in 1..NSpecies, c \in Coefs : AddProd(s, c)
Next == GenAddReac \/ GenArrow \/ GenAddProd \/ Finish

(* presentation tokens *)
\* a coefficient is a positive rational <<n, d>> (1/2, 3/2 ... occur in unchecked reactions); it is shown unless it is 1
TermToks(t) == (IF t[2][1] = t[2][2] THEN <<>> ELSE <<[r |-> "Coef", n |-> t[2][1], d |-> t[2][2]]>>)
               \o <<[r |-> "Name", s |-> t[1]]>>
RECURSIVE SideToks(_)
SideToks(side) == IF side = <<>> THEN <<>>
                  ELSE IF Len(side) = 1 THEN TermToks(side[1])
                  ELSE TermToks(Head(side)) \o <<[r |-> "Plus"]>> \o SideToks(Tail(side))
Shown == SideToks(reac) \o <<[r |-> "Arrow", k |-> kind]>> \o SideToks(prod)

(* invariants: every stored term is shown exactly once, in order; a coefficient token never shows 1 *)
NamesInOrder ==
    phase = "done" =>
        LET names == SelectSeq(Shown, LAMBDA t : t.r = "Name")
        IN  names = [i \in 1..(Len(reac) + Len(prod)) |->
                        [r |-> "Name", s |-> IF i <= Len(reac) THEN reac[i][1] ELSE prod[i - Len(reac)][1]]]
NoUnitCoef == \A i \in 1..Len(Shown) : Shown[i].r = "Coef" => Shown[i].n # Shown[i].d
\* every stored coefficient other than 1 is shown, also those below 1
AllNonUnitShown == phase = "done" =>
    Cardinality({ i \in 1..Len(Shown) : Shown[i].r = "Coef" }) =
    Cardinality({ i \in 1..Len(reac) : reac[i][2][1] # reac[i][2][2] }) + Cardinality({ i \in 1..Len(prod) : prod[i][2][1] # prod[i][2][2] })
OneArrow == phase = "done" => Cardinality({ i \in 1..Len(Shown) : Shown[i].r = "Arrow" }) = 1

Done == phase = "done"
CaseRec == [ in |-> [reac |-> reac, prod |-> prod, kind |-> kind],
             exp |-> [shown |-> Shown],
             cls |-> kind \o "-" \o ToString(Len(reac)) \o ToString(Len(prod)) ]
CoefsQ == { <<1, 1>>, <<2, 1>>, <<10, 1>>, <<1, 2>>, <<3, 2>> }
CoefsT == { <<1, 1>>, <<2, 1>>, <<10, 1>>, <<1, 2>> }
Emit == Done => PrintT(<<"CASE", ToJson(CaseRec)>>)
=============================================================================
