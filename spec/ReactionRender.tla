---------------------------- MODULE ReactionRender ----------------------------
(* What a printed reaction/equilibrium shows (last sentence of C13): side by side, in stored  *)
(* order, each coefficient (omitted when 1) followed by the rendered name of its species,     *)
(* terms joined by a plus, the two sides around the arrow of the reaction kind.               *)
(* A reaction is built term by term; the state carries the stored-order term lists and the    *)
(* presentation tokens are derived from them.  Species are indices into a pool of formulas    *)
(* that the binding layer instantiates (their rendered names come from the Formula spec).     *)
EXTENDS Integers, Sequences, FiniteSets, TLC, Json

CONSTANTS NSpecies, Coefs, MaxReac, MaxProd, Kinds,
          MaxIReac, MaxIProd   \* inactive (parenthesised) species per side; stored apart from the active ones

VARIABLES reac, prod, kind, phase, ireac, iprod
vars == <<reac, prod, kind, phase, ireac, iprod>>

Init == reac = <<>> /\ prod = <<>> /\ kind = "none" /\ phase = "reac" /\ ireac = <<>> /\ iprod = <<>>

Used(side) == { side[i][1] : i \in 1..Len(side) }

AddReac(s, c) == /\ phase = "reac" /\ Len(reac) < MaxReac /\ s \notin Used(reac)
                 /\ reac' = Append(reac, <<s, c>>) /\ UNCHANGED <<prod, kind, phase, ireac, iprod>>
Arrow(k) == /\ phase = "reac" /\ reac # <<>> /\ kind' = k /\ phase' = "prod" /\ UNCHANGED <<reac, prod, ireac, iprod>>
AddProd(s, c) == /\ phase = "prod" /\ Len(prod) < MaxProd /\ s \notin Used(prod)
                 /\ prod' = Append(prod, <<s, c>>) /\ UNCHANGED <<reac, kind, phase, ireac, iprod>>
Finish == /\ phase = "prod" /\ prod # <<>> /\ phase' = "done" /\ UNCHANGED <<reac, prod, kind, ireac, iprod>>
(* inactive species are stored in their own ordered maps (one per side); a species may be inactive on a side *)
(* where it is also active                                                                                  *)
AddIReac(s, c) == /\ phase = "reac" /\ Len(ireac) < MaxIReac /\ s \notin Used(ireac)
                  /\ ireac' = Append(ireac, <<s, c>>) /\ UNCHANGED <<reac, prod, kind, phase, iprod>>
AddIProd(s, c) == /\ phase = "prod" /\ Len(iprod) < MaxIProd /\ s \notin Used(iprod)
                  /\ iprod' = Append(iprod, <<s, c>>) /\ UNCHANGED <<reac, prod, kind, phase, ireac>>

GenAddReac == \E s \in 1..NSpecies, c \in Coefs : AddReac(s, c)
GenArrow == \E k \in Kinds : Arrow(k)
GenAddProd == \E s \in 1..NSpecies, c \in Coefs : AddProd(s, c)
GenAddIReac == \E s \in 1..NSpecies, c \in Coefs : AddIReac(s, c)
GenAddIProd == \E s \in 1..NSpecies, c \in Coefs : AddIProd(s, c)
Next == GenAddReac \/ GenArrow \/ GenAddProd \/ Finish \/ GenAddIReac \/ GenAddIProd

(* presentation tokens *)
\* a coefficient is a positive rational <<n, d>> (1/2, 3/2 ... occur in unchecked reactions); it is shown unless it is 1
TermToks(t) == (IF t[2][1] = t[2][2] THEN <<>> ELSE <<[r |-> "Coef", n |-> t[2][1], d |-> t[2][2]]>>)
               \o <<[r |-> "Name", s |-> t[1]]>>
RECURSIVE SideToks(_)
SideToks(side) == IF side = <<>> THEN <<>>
                  ELSE IF Len(side) = 1 THEN TermToks(side[1])
                  ELSE TermToks(Head(side)) \o <<[r |-> "Plus"]>> \o SideToks(Tail(side))
\* the inactive species of a side follow its active ones as one parenthesised group: " + ( 2 X + Y)"
InactToks(side) == IF side = <<>> THEN <<>> ELSE <<[r |-> "Plus"], [r |-> "Open"]>> \o SideToks(side) \o <<[r |-> "Close"]>>
Shown == SideToks(reac) \o InactToks(ireac) \o <<[r |-> "Arrow", k |-> kind]>> \o SideToks(prod) \o InactToks(iprod)
AllTerms == reac \o ireac \o prod \o iprod

(* invariants: every stored term is shown exactly once, in order; a coefficient token never shows 1 *)
NamesInOrder ==
    phase = "done" =>
        LET names == SelectSeq(Shown, LAMBDA t : t.r = "Name")
        IN  names = [i \in 1..Len(AllTerms) |-> [r |-> "Name", s |-> AllTerms[i][1]]]
NoUnitCoef == \A i \in 1..Len(Shown) : Shown[i].r = "Coef" => Shown[i].n # Shown[i].d
\* every stored coefficient other than 1 is shown, also those below 1
AllNonUnitShown == phase = "done" =>
    Cardinality({ i \in 1..Len(Shown) : Shown[i].r = "Coef" }) =
    Cardinality({ i \in 1..Len(AllTerms) : AllTerms[i][2][1] # AllTerms[i][2][2] })
\* each side's inactive species stay on their side, inside one group that closes before the arrow / the end
ArrowPos == CHOOSE i \in 1..Len(Shown) : Shown[i].r = "Arrow"
InactiveStayOnTheirSide == phase = "done" =>
    /\ Cardinality({ i \in 1..(ArrowPos - 1) : Shown[i].r = "Open" }) = (IF ireac = <<>> THEN 0 ELSE 1)
    /\ Cardinality({ i \in (ArrowPos + 1)..Len(Shown) : Shown[i].r = "Open" }) = (IF iprod = <<>> THEN 0 ELSE 1)
    /\ (ireac # <<>> => Shown[ArrowPos - 1].r = "Close") /\ (iprod # <<>> => Shown[Len(Shown)].r = "Close")
OneArrow == phase = "done" => Cardinality({ i \in 1..Len(Shown) : Shown[i].r = "Arrow" }) = 1

Done == phase = "done"
CaseRec == [ in |-> [reac |-> reac, prod |-> prod, kind |-> kind, ireac |-> ireac, iprod |-> iprod],
             exp |-> [shown |-> Shown],
             cls |-> kind \o "-" \o ToString(Len(reac)) \o ToString(Len(prod)) \o "-i" \o ToString(Len(ireac)) \o ToString(Len(iprod)) ]
CoefsQ == { <<1, 1>>, <<2, 1>>, <<10, 1>>, <<1, 2>>, <<3, 2>> }
CoefsI == { <<1, 1>>, <<2, 1>> }
CoefsT == { <<1, 1>>, <<2, 1>>, <<10, 1>>, <<1, 2>> }
Emit == Done => PrintT(<<"CASE", ToJson(CaseRec)>>)
=============================================================================
