INIT Init
NEXT Next
CONSTANTS
  NSpecies = 3
  Coefs <- CoefsI
  MaxReac = 1
  MaxProd = 1
  MaxIReac = 2
  MaxIProd = 2
  Kinds = {"Reaction", "Equilibrium"}
INVARIANT NamesInOrder
INVARIANT NoUnitCoef
INVARIANT AllNonUnitShown
INVARIANT OneArrow
INVARIANT InactiveStayOnTheirSide
INVARIANT Emit
CHECK_DEADLOCK FALSE
