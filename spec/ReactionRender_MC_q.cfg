INIT Init
NEXT Next
CONSTANTS
  NSpecies = 4
  Coefs = {1, 2, 10}
  MaxReac = 2
  MaxProd = 2
  Kinds = {"Reaction", "Equilibrium"}
INVARIANT NamesInOrder
INVARIANT NoUnitCoef
INVARIANT OneArrow
INVARIANT Emit
CHECK_DEADLOCK FALSE
