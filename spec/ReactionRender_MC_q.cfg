INIT Init
NEXT Next
CONSTANTS
  NSpecies = 3
  Coefs <- CoefsQ
  MaxReac = 2
  MaxProd = 2
  Kinds = {"Reaction", "Equilibrium"}
INVARIANT NamesInOrder
INVARIANT NoUnitCoef
INVARIANT AllNonUnitShown
INVARIANT OneArrow
INVARIANT Emit
CHECK_DEADLOCK FALSE
