INIT Init
NEXT Next
CONSTANTS
  NSpecies = 4
  Coefs <- CoefsT
  MaxReac = 3
  MaxProd = 2
  MaxIReac = 0
  MaxIProd = 0
  Kinds = {"Reaction", "Equilibrium"}
INVARIANT NamesInOrder
INVARIANT NoUnitCoef
INVARIANT AllNonUnitShown
INVARIANT OneArrow
INVARIANT Emit
CHECK_DEADLOCK FALSE
