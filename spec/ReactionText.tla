---------------------------- MODULE ReactionText ----------------------------
(* Reaction text is read exactly as written; printing and parsing are inverse (property C12). *)
(*                                                                                            *)
(* A generator of reaction lines in the documented notation                                   *)
(*     [n | n.d | n *] Key + ... + (n Key) -> ... ; parameter ; keyword='value'               *)
(* builds a text (doc: sequence of lines, joined with newlines by the harness) token by       *)
(* token and carries its denotation along: per line the maps reac / prod (active species),    *)
(* ireac / iprod (species of parenthesised "(n X)" terms, inactive), the parameter as an      *)
(* exact decimal and the keyword values.  The denotation is accumulated OPERATIONALLY (den)   *)
(* and must equal the DECLARATIVE one recomputed from the tokens ("the coefficient of a key   *)
(* on a side is the sum of the coefficients of the terms that name it there", DenoteLine).    *)
(* Species keys are atomic space-free strings with one attribute: the bracket they begin with *)
(* (lead), so that keys like "(NH4)2SO4" are told apart from parenthesised terms by the       *)
(* grammar, never by their first character.                                                   *)
(* A second phase prints every read text that has no inactive group under every printing      *)
(* option (with_param x with_name; coefficient omitted iff it is 1, each species once,        *)
(* parameter to three significant digits) and parses the printed tokens again:                *)
(* ParsePrintIdentity.                                                                        *)
EXTENDS Integers, Sequences, FiniteSets, FiniteSetsExt, TLC, Json, Rational, Decimal

CONSTANTS
    SliceTable,   \* slice name -> record of the alphabets and bounds the texts of that slice are generated from
    SliceNames    \* the slices explored in this run (one TLC run may explore several, independent ones)

VARIABLES doc, line, toks, den, lines, side, nside, ninact, stage, fault, allowed, arrow, klass,
          ncom, printed, reparsed, cfgv, sl

vars == <<doc, line, toks, den, lines, side, nside, ninact, stage, fault, allowed, arrow, klass,
          ncom, printed, reparsed, cfgv, sl>>


(* the alphabets of the slice being explored (sl is fixed in the initial state) *)
SliceRec == SliceTable[sl]
Keys == SliceRec.Keys                  \* species keys: records [t |-> text, lead |-> "" | "(" | "[" | "{"]
AllowedKeys == SliceRec.AllowedKeys    \* key texts of the allowed-key list (used when a list is given)
AllowedModes == SliceRec.AllowedModes  \* subset of BOOLEAN: may a list be given (TRUE) / not given (FALSE)
AllowedForms == SliceRec.AllowedForms  \* container of the list: subset of {"list", "tuple", "set", "dict", "str"}
Forms == SliceRec.Forms                \* subset of {"bare", "n", "nstar", "dec", "decstar"}
IntCoefs == SliceRec.IntCoefs          \* coefficient records written as integers
DecCoefs == SliceRec.DecCoefs          \* coefficient records written as decimals
InactCoefs == SliceRec.InactCoefs      \* coefficient records inside "(n X)"
MaxReac == SliceRec.MaxReac            \* terms per side (active + inactive)
MaxProd == SliceRec.MaxProd
MaxInact == SliceRec.MaxInact          \* parenthesised terms per line
Arrows == SliceRec.Arrows              \* subset of {"->", "="}
Params == SliceRec.Params              \* parameter records [kind |-> "num" | "qty" | "sym", ...]
Kws == SliceRec.Kws                    \* keyword records [k |-> "ref" | "name", v |-> text]
MaxLines == SliceRec.MaxLines          \* reaction lines per text
Comments == SliceRec.Comments          \* comment / blank line records [t |-> text, tok |-> token ("" = blank)]
MaxComments == SliceRec.MaxComments
FaultKinds == SliceRec.FaultKinds      \* subset of {"unknownkey", "missingarrow", "wrongarrow", "notacomment"}
PrintOpts == SliceRec.PrintOpts        \* printing options tried in the second phase: records [wp, wn]
Configs == SliceRec.Configs            \* reader / writing configurations the texts are generated under

------------------------------------------------------------------------------
(* vocabulary *)
Key(t, l) == [t |-> t, lead |-> l]
Pow10(k) == IPow(10, k)
\* coefficients: ip.fp with fd fractional digits; text and value travel together
Coef(ip, fd, fp) == [ip |-> ip, fd |-> fd, fp |-> fp]
One == Coef(1, 0, 0)
IsCoef(c) == c.ip \in Nat /\ c.fd \in 0..5 /\ c.fp \in 0..(Pow10(c.fd) - 1) /\ (c.ip > 0 \/ c.fp > 0)
CoefVal(c) == Norm(<<c.ip * Pow10(c.fd) + c.fp, Pow10(c.fd)>>)
RECURSIVE PadN(_, _)
PadN(k, w) == IF w = 0 THEN "" ELSE PadN(k \div 10, w - 1) \o ToString(k % 10)
CoefText(c) == ToString(c.ip) \o (IF c.fd = 0 THEN "" ELSE "." \o PadN(c.fp, c.fd))
FormOK(f, c) == /\ IsCoef(c)
                /\ (f = "bare" => c = One)
                /\ (f \in {"n", "nstar"} => c.fd = 0)
                /\ (f \in {"dec", "decstar"} => c.fd > 0)
                /\ f \in {"bare", "n", "nstar", "dec", "decstar"}

(* the configuration a text is written and read under.  Everything here is an argument or an     *)
(* option of the readers, or a freedom of the notation, that must not change what is read:      *)
(*   spc    spacing: "normal" | "wide" (extra blanks around every token, leading / trailing      *)
(*          blanks) | "tight" (no blank after ';' and ',')                                       *)
(*   eol    line ends: "lf" (final newline) | "lfnt" (no final newline) | "crlf"                 *)
(*   gmode  globals_ argument: "default" | "empty" (a dict without units) | "none" (False: the   *)
(*          parameter part is not evaluated, the parameter is None)                             *)
(*   ctoks  comment_tokens argument: "default" ("#") | "custom" ("//", "%")                      *)
(*   msfk   missing_substances_from_keys (systems): keys outside the given list are added to    *)
(*          the system instead of being rejected                                                *)
(*   dq     keyword values in double instead of single quotes                                   *)
(*   argname / argref / argparam  name=, ref=, param= handed over as keyword arguments of       *)
(*          from_string instead of being written in the text (the text wins)                    *)
NoArgParam == [some |-> FALSE]
(*   chk    how the constructor's default checks are switched off where they must be: checks=() or     *)
(*          dont_check={...}                                                                         *)
DefaultCfg == [chk |-> "checks", spc |-> "normal", eol |-> "lf", gmode |-> "default", ctoks |-> "default", msfk |-> FALSE,
               dq |-> FALSE, argname |-> "", argref |-> "", argparam |-> NoArgParam]
Wide == cfgv.spc = "wide"
Tight == cfgv.spc = "tight"
Gap == IF Wide THEN "  " ELSE " "
PlusSep == IF Wide THEN "  +  " ELSE " + "
ArrowText(a) == IF Wide THEN "   " \o a \o "  " ELSE " " \o a \o " "
SemiSep == IF Wide THEN " ;  " ELSE IF Tight THEN ";" ELSE "; "
CommaSep == IF Wide THEN " ,  " ELSE IF Tight THEN "," ELSE ", "
Quote == IF cfgv.dq THEN "\"" ELSE "'"
HasArgs == cfgv.argname # "" \/ cfgv.argref # "" \/ cfgv.argparam.some
ActiveTokens == IF cfgv.ctoks = "default" THEN {"#"} ELSE {"//", "%"}
FormText(f, c) == IF f = "bare" THEN ""
                  ELSE IF f \in {"nstar", "decstar"} THEN CoefText(c) \o Gap \o "*" \o Gap
                  ELSE CoefText(c) \o Gap

\* parameters.  kind "num": an exact decimal and the way it is written; "qty": a number times a unit
\* expression of the default parsing context (a quantity); "sym": a quoted name (a symbolic rate constant)
NoParam == [some |-> FALSE]
SomeParam(v) == [some |-> TRUE, kind |-> "num", v |-> v]
QtyParam(v, dim) == [some |-> TRUE, kind |-> "qty", v |-> v, unit |-> dim]
SymParam(name) == [some |-> TRUE, kind |-> "sym", name |-> name]
\* unit expressions as they are written after the number, and the dimensionality they denote
UnitExprs == { [expr |-> "/second", dim |-> "1/s"], [expr |-> "/molar/second", dim |-> "1/(s*M)"],
               [expr |-> "*molar", dim |-> "M"], [expr |-> "/molar**2/second", dim |-> "1/(s*M**2)"] }
IntPart(v) == [i \in 1..(v.e + 1) |-> IF i <= Len(v.digs) THEN v.digs[i] ELSE 0]
FracPart(v) == IF Len(v.digs) > v.e + 1 THEN SubSeq(v.digs, v.e + 2, Len(v.digs)) ELSE <<>>
ParamStyleOK(v, st) ==
    /\ IsNorm(v)
    \* (exactly zero is written "0" or "0.0")
    /\ ((v.digs = <<>>) <=> (st \in {"zero", "zerof"}))
    /\ st \in {"sci", "sciP", "sciE", "fix", "int", "pow10", "zero", "zerof"}
    /\ (st = "int" => (v.e >= 0 /\ Len(v.digs) <= v.e + 1 /\ v.e <= 8))
    /\ (st = "fix" => (v.e >= -6 /\ v.e <= 15))
    /\ (st = "sciP" => (v.e >= -99 /\ v.e <= 99))
    /\ (st = "pow10" => (v.digs = <<1>> /\ ~v.neg /\ v.e >= 0 /\ v.e <= 8))
Mantissa(v) == ToString(v.digs[1]) \o (IF Len(v.digs) > 1 THEN "." \o DigStr(Tail(v.digs)) ELSE "")
Abs2(k) == IF k < 0 THEN -k ELSE k
ParamText(v, st) ==
    IF st = "zero" THEN "0" ELSE IF st = "zerof" THEN "0.0" ELSE
    (IF v.neg THEN "-" ELSE "") \o
    (IF st = "sci" THEN Mantissa(v) \o "e" \o ToString(v.e)
     ELSE IF st = "sciE" THEN Mantissa(v) \o "E" \o ToString(v.e)
     \* the spelling printf (and hence the printer) uses: explicit sign, two exponent digits
     ELSE IF st = "sciP" THEN Mantissa(v) \o "e" \o (IF v.e < 0 THEN "-" ELSE "+") \o PadN(Abs2(v.e), 2)
     ELSE IF st = "pow10" THEN "10**" \o ToString(v.e)
     ELSE IF st = "int" THEN DigStr(IntPart(v))
     ELSE IF v.e >= 0 THEN DigStr(IntPart(v)) \o "." \o (IF FracPart(v) = <<>> THEN "0" ELSE DigStr(FracPart(v)))
     ELSE "0." \o DigStr([i \in 1..(-v.e - 1) |-> 0]) \o DigStr(v.digs))

\* maps key text -> rational
EmptyM == <<>>
Get(f, k) == IF k \in DOMAIN f THEN f[k] ELSE QZero
Accumulate(f, k, q) == [y \in DOMAIN f \cup {k} |-> IF y = k THEN QAdd(Get(f, k), q) ELSE f[y]]
EmptyDen == [reac |-> EmptyM, prod |-> EmptyM, ireac |-> EmptyM, iprod |-> EmptyM,
             param |-> NoParam, ref |-> "", name |-> ""]
IField(s) == IF s = "reac" THEN "ireac" ELSE "iprod"
KlassOf(a) == IF a = "->" THEN "Reaction" ELSE "Equilibrium"
OtherKlass(a) == IF a = "->" THEN "Equilibrium" ELSE "Reaction"
\* what the keyword arguments contribute: only where the text is silent
WithArgs(d) == [d EXCEPT !.name = IF @ = "" THEN cfgv.argname ELSE @,
                         !.ref = IF @ = "" THEN cfgv.argref ELSE @,
                         !.param = IF @.some THEN @ ELSE IF cfgv.argparam.some THEN SomeParam(cfgv.argparam.v) ELSE @]
\* a parameter part that is not evaluated (globals_=False) leaves no parameter; a quoted name is not evaluated anyway
ReadParam(p) == IF cfgv.gmode = "none" /\ p.kind # "sym" THEN NoParam ELSE p

------------------------------------------------------------------------------
NoList == [given |-> FALSE, keys |-> {}, form |-> "list"]
Init ==
    /\ doc = <<>> /\ line = "" /\ toks = <<>> /\ den = EmptyDen /\ lines = <<>>
    /\ side = "reac" /\ nside = 0 /\ ninact = 0 /\ stage = "start" /\ fault = "none"
    /\ allowed = NoList /\ arrow = "" /\ klass = "" /\ ncom = 0
    /\ printed = <<>> /\ reparsed = <<>> /\ cfgv = DefaultCfg /\ sl \in SliceNames

Sep == IF nside > 0 THEN PlusSep ELSE IF line = "" /\ Wide THEN "  " ELSE ""
InStoich == stage \in {"start", "line"}
useAllowed == allowed.given
KeyAllowed(key) == ~allowed.given \/ key.t \in allowed.keys \/ cfgv.msfk
Fresh == stage = "start" /\ doc = <<>> /\ lines = <<>> /\ line = ""

\* the configuration is fixed before the first character is written
Configure(c) ==
    /\ Fresh /\ cfgv = DefaultCfg /\ c # DefaultCfg
    /\ c.spc \in {"normal", "wide", "tight"} /\ c.eol \in {"lf", "lfnt", "crlf"}
    /\ c.gmode \in {"default", "empty", "none"} /\ c.ctoks \in {"default", "custom"}
    /\ c.msfk \in BOOLEAN /\ c.dq \in BOOLEAN /\ c.chk \in {"checks", "dontcheck"}
    /\ (c.msfk => allowed.given)
    /\ cfgv' = c
    /\ UNCHANGED <<doc, line, toks, den, lines, side, nside, ninact, stage, fault, allowed, arrow, klass, ncom, printed, reparsed, sl>>

\* an allowed-key list accompanies the text (a string is split at blanks: it needs two keys)
GiveAllowed(ks, form) ==
    /\ Fresh /\ ~allowed.given /\ cfgv = DefaultCfg
    \* ("alias": a mapping key -> Substance whose NAME differs from the key; texts are written with keys)
    /\ form \in {"list", "tuple", "set", "dict", "str", "alias"}
    /\ (form = "str" => Cardinality(ks) >= 2)
    /\ allowed' = [given |-> TRUE, keys |-> ks, form |-> form]
    /\ UNCHANGED <<doc, line, toks, den, lines, side, nside, ninact, stage, fault, arrow, klass, ncom, printed, reparsed, cfgv, sl>>

TermEffect(s, form, c, key) ==
    /\ line' = line \o Sep \o FormText(form, c) \o key.t
    /\ toks' = Append(toks, [k |-> "term", side |-> s, form |-> form, coef |-> c, key |-> key])
    /\ den' = [den EXCEPT ![s] = Accumulate(@, key.t, CoefVal(c))]
    /\ nside' = nside + 1 /\ stage' = "line"

\* an active term: Key, n Key, n * Key, n.d Key, n.d * Key
Term(s, form, c, key) ==
    /\ InStoich /\ s = side /\ FormOK(form, c) /\ KeyAllowed(key)
    /\ TermEffect(s, form, c, key)
    /\ UNCHANGED <<doc, lines, side, ninact, fault, allowed, arrow, klass, ncom, printed, reparsed, cfgv, sl>>

InactEffect(s, c, key) ==
    /\ line' = line \o Sep \o "(" \o CoefText(c) \o Gap \o key.t \o ")"
    /\ toks' = Append(toks, [k |-> "inact", side |-> s, form |-> "inact", coef |-> c, key |-> key])
    /\ den' = [den EXCEPT ![IField(s)] = Accumulate(@, key.t, CoefVal(c))]
    /\ nside' = nside + 1 /\ ninact' = ninact + 1 /\ stage' = "line"

\* a parenthesised term "(n Key)": counted on its side, but inactive
Inactive(s, c, key) ==
    /\ InStoich /\ s = side /\ IsCoef(c) /\ KeyAllowed(key)
    /\ InactEffect(s, c, key)
    /\ UNCHANGED <<doc, lines, side, fault, allowed, arrow, klass, ncom, printed, reparsed, cfgv, sl>>

Arrow(a) ==
    /\ stage = "line" /\ side = "reac" /\ nside >= 1 /\ a \in {"->", "="}
    /\ arrow \in {"", a}
    /\ line' = line \o ArrowText(a)
    /\ toks' = Append(toks, [k |-> "arrow", a |-> a])
    /\ side' = "prod" /\ nside' = 0 /\ arrow' = a
    /\ klass' = IF klass = "" THEN KlassOf(a) ELSE klass
    /\ UNCHANGED <<doc, den, lines, ninact, stage, fault, allowed, ncom, printed, reparsed, cfgv, sl>>

LineComplete == side = "prod" /\ nside >= 1 /\ stage \in {"line", "tail"}

ParamEffect(text, p, tok) ==
    /\ line' = line \o SemiSep \o text
    /\ toks' = Append(toks, tok)
    /\ den' = [den EXCEPT !.param = ReadParam(p)]
    /\ stage' = "tail"

\* a numeric parameter
Param(v, st) ==
    /\ stage = "line" /\ LineComplete /\ ParamStyleOK(v, st) /\ ~cfgv.argparam.some
    /\ ParamEffect(ParamText(v, st), SomeParam(v), [k |-> "param", kind |-> "num", v |-> v, style |-> st])
    /\ UNCHANGED <<doc, lines, side, nside, ninact, fault, allowed, arrow, klass, ncom, printed, reparsed, cfgv, sl>>

\* a quantity: number times a unit expression (needs the default parsing context)
ParamQty(v, st, ue) ==
    /\ stage = "line" /\ LineComplete /\ ParamStyleOK(v, st) /\ st # "pow10" /\ ~cfgv.argparam.some
    /\ ue \in UnitExprs /\ cfgv.gmode # "empty"
    /\ ParamEffect(ParamText(v, st) \o ue.expr, QtyParam(v, ue.dim),
                   [k |-> "param", kind |-> "qty", v |-> v, style |-> st, unit |-> ue.dim, expr |-> ue.expr])
    /\ UNCHANGED <<doc, lines, side, nside, ninact, fault, allowed, arrow, klass, ncom, printed, reparsed, cfgv, sl>>

\* a quoted name: a symbolic rate constant / equilibrium constant
ParamSym(name) ==
    /\ stage = "line" /\ LineComplete /\ name # "" /\ ~cfgv.argparam.some
    /\ ParamEffect("'" \o name \o "'", SymParam(name), [k |-> "param", kind |-> "sym", name |-> name])
    /\ UNCHANGED <<doc, lines, side, nside, ninact, fault, allowed, arrow, klass, ncom, printed, reparsed, cfgv, sl>>

NKw == Cardinality({ i \in 1..Len(toks) : toks[i].k = "kw" })
\* keyword part after the parameter: ; ref='...' [, name='...']
Kw(k, v) ==
    /\ stage = "tail" /\ k \in {"ref", "name"} /\ den[k] = "" /\ v # ""
    /\ line' = line \o (IF NKw = 0 THEN SemiSep ELSE CommaSep) \o k \o "=" \o Quote \o v \o Quote
    /\ toks' = Append(toks, [k |-> "kw", key |-> k, val |-> v])
    /\ den' = [den EXCEPT ![k] = v]
    /\ UNCHANGED <<doc, lines, side, nside, ninact, stage, fault, allowed, arrow, klass, ncom, printed, reparsed, cfgv, sl>>

\* a comment or blank line between reaction lines: it begins (after blanks) with one of the
\* comment tokens in force, or is blank
Comment(c) ==
    /\ stage = "start" /\ line = "" /\ ~HasArgs
    /\ (c.tok = "" \/ c.tok \in ActiveTokens)
    /\ doc' = Append(doc, c.t) /\ ncom' = ncom + 1
    /\ UNCHANGED <<line, toks, den, lines, side, nside, ninact, stage, fault, allowed, arrow, klass, printed, reparsed, cfgv, sl>>

PushLine ==
    /\ doc' = Append(doc, line \o (IF Wide THEN " " ELSE ""))
    /\ lines' = Append(lines, [toks |-> toks, den |-> WithArgs(den)])
    /\ line' = "" /\ toks' = <<>> /\ den' = EmptyDen /\ side' = "reac" /\ nside' = 0 /\ ninact' = 0

NewLine ==
    /\ LineComplete /\ ~HasArgs
    /\ PushLine /\ stage' = "start"
    /\ UNCHANGED <<fault, allowed, arrow, klass, ncom, printed, reparsed, cfgv, sl>>

\* the text ends: after a complete line, after a trailing comment, or - a text of comments only -
\* without any reaction (an empty system)
Finish ==
    /\ \/ LineComplete /\ PushLine
       \/ stage = "start" /\ line = "" /\ (lines # <<>> \/ ncom > 0)
          /\ UNCHANGED <<doc, line, toks, den, lines, side, nside, ninact>>
    /\ stage' = "read"
    /\ UNCHANGED <<fault, allowed, arrow, klass, ncom, printed, reparsed, cfgv, sl>>

------------------------------------------------------------------------------
(* ill-formed texts: expected observation "raises" *)
\* a species key that is not in the given allowed-key list (active or parenthesised term)
UnknownKey(s, form, c, key) ==
    /\ InStoich /\ s = side /\ fault \in {"none", "unknownkey"} /\ allowed.given /\ key.t \notin allowed.keys /\ ~cfgv.msfk
    /\ IF form = "inact" THEN IsCoef(c) /\ InactEffect(s, c, key)
       ELSE FormOK(form, c) /\ TermEffect(s, form, c, key) /\ UNCHANGED ninact
    /\ fault' = "unknownkey"
    /\ UNCHANGED <<doc, lines, side, allowed, arrow, klass, ncom, printed, reparsed, cfgv, sl>>

\* the text ends without any arrow
MissingArrow(k) ==
    /\ stage = "line" /\ side = "reac" /\ nside >= 1 /\ fault = "none" /\ lines = <<>>
    /\ k \in {"Reaction", "Equilibrium"}
    /\ PushLine /\ fault' = "missingarrow" /\ klass' = k /\ stage' = "read"
    /\ UNCHANGED <<allowed, arrow, ncom, printed, reparsed, cfgv, sl>>

\* the arrow of the other class: "A = B" handed to Reaction, "A -> B" handed to Equilibrium
WrongArrow(a) ==
    /\ stage = "line" /\ side = "reac" /\ nside >= 1 /\ fault = "none" /\ a \in {"->", "="}
    /\ lines = <<>>
    /\ line' = line \o ArrowText(a)
    /\ toks' = Append(toks, [k |-> "arrow", a |-> a])
    /\ side' = "prod" /\ nside' = 0 /\ arrow' = a /\ klass' = OtherKlass(a)
    /\ fault' = "wrongarrow"
    /\ UNCHANGED <<doc, den, lines, ninact, stage, allowed, ncom, printed, reparsed, cfgv, sl>>

\* a line that begins with a comment token which is NOT in force is not a comment
StaleComment(c) ==
    /\ stage = "start" /\ line = "" /\ ~HasArgs /\ fault = "none"
    /\ c.tok # "" /\ c.tok \notin ActiveTokens
    /\ doc' = Append(doc, c.t) /\ ncom' = ncom + 1 /\ fault' = "notacomment"
    /\ UNCHANGED <<line, toks, den, lines, side, nside, ninact, stage, allowed, arrow, klass, printed, reparsed, cfgv, sl>>

------------------------------------------------------------------------------
(* DECLARATIVE denotation of a token sequence, straight from the statement of C12 *)
QSumSet(S, f(_)) == FoldSet(LAMBDA y, acc : QAdd(f(y), acc), QZero, S)
TermsOn(ts, kind, s) == { i \in 1..Len(ts) : ts[i].k = kind /\ ts[i].side = s }
SideMap(ts, kind, s) ==
    LET I == TermsOn(ts, kind, s) IN
    [key \in { ts[i].key.t : i \in I } |->
        QSumSet({ i \in I : ts[i].key.t = key }, LAMBDA i : CoefVal(ts[i].coef))]
KwOf(ts, k) == LET I == { i \in 1..Len(ts) : ts[i].k = "kw" /\ ts[i].key = k } IN
               IF I = {} THEN "" ELSE ts[CHOOSE i \in I : TRUE].val
TokParam(t) == IF t.kind = "num" THEN SomeParam(t.v)
               ELSE IF t.kind = "qty" THEN QtyParam(t.v, t.unit) ELSE SymParam(t.name)
ParamOf(ts) == LET I == { i \in 1..Len(ts) : ts[i].k = "param" } IN
               IF I = {} THEN NoParam ELSE ReadParam(TokParam(ts[CHOOSE i \in I : TRUE]))
DenoteLine(ts) ==
    [reac |-> SideMap(ts, "term", "reac"), prod |-> SideMap(ts, "term", "prod"),
     ireac |-> SideMap(ts, "inact", "reac"), iprod |-> SideMap(ts, "inact", "prod"),
     param |-> ParamOf(ts), ref |-> KwOf(ts, "ref"), name |-> KwOf(ts, "name")]

(* printing: each species once, coefficient written unless it is 1, parameter to 3 digits *)
SetSeq(S) == LET RECURSIVE f(_)
                 f(T) == IF T = {} THEN <<>> ELSE LET a == CHOOSE b \in T : TRUE IN <<a>> \o f(T \ {a})
             IN f(S)
\* a printed coefficient is the value itself; its text is the printer's business
PCoef(q) == [ip |-> q[1], fd |-> 0, fp |-> 0, den |-> q[2]]
PCoefVal(c) == Norm(<<c.ip, c.den>>)
PrintSide(m, s) ==
    LET ks == SetSeq(DOMAIN m) IN
    [i \in 1..Len(ks) |-> [k |-> "term", side |-> s, form |-> IF m[ks[i]] = QOne THEN "bare" ELSE "n",
                           coef |-> PCoef(m[ks[i]]), key |-> Key(ks[i], "")]]
\* a number is printed to three significant digits, a quoted name as it is
PrintedParam(p, nd) == IF p.some /\ p.kind = "num" THEN SomeParam(RoundSig(p.v, nd)) ELSE p
\* printing takes two options: with_param (the parameter is printed) and with_name (the name is
\* printed after it).  A printed name ("A -> B; 2.5; r1") is not part of the notation, so printing
\* WITH names is a second-phase option only for texts whose reactions carry no name; a printed
\* quantity ("1e+08 1/(s*M)") is not part of it either, so printing WITH parameters is an option
\* only for texts without quantity parameters.
\* nd: significant digits of the magnitude formatter (printer setting magnitude_fmt; default 3; reactions only)
OptN(wp, wn, nd) == [wp |-> wp, wn |-> wn, nd |-> nd]
Opt(wp, wn) == OptN(wp, wn, 3)
AllPrintOpts == { Opt(a, b) : a \in BOOLEAN, b \in BOOLEAN } \cup { OptN(TRUE, FALSE, 10) }
PrintTokens(d, a, o) ==
    PrintSide(d.reac, "reac") \o <<[k |-> "arrow", a |-> a]>> \o PrintSide(d.prod, "prod")
    \o (IF o.wp /\ d.param.some
        THEN <<IF d.param.kind = "sym" THEN [k |-> "param", kind |-> "sym", name |-> d.param.name]
               ELSE [k |-> "param", kind |-> "num", v |-> RoundSig(d.param.v, o.nd), style |-> "sci"]>>
        ELSE <<>>)
\* reading printed tokens: the same declarative denotation (printed coefficients are rationals);
\* the printed text is read under the default configuration
PSideMap(ts, s) ==
    LET I == TermsOn(ts, "term", s) IN
    [key \in { ts[i].key.t : i \in I } |->
        QSumSet({ i \in I : ts[i].key.t = key }, LAMBDA i : PCoefVal(ts[i].coef))]
PParamOf(ts) == LET I == { i \in 1..Len(ts) : ts[i].k = "param" } IN
                IF I = {} THEN NoParam ELSE TokParam(ts[CHOOSE i \in I : TRUE])
ParsePrinted(ts) ==
    [reac |-> PSideMap(ts, "reac"), prod |-> PSideMap(ts, "prod"), ireac |-> EmptyM, iprod |-> EmptyM,
     param |-> PParamOf(ts), ref |-> "", name |-> ""]

HasInactive(d) == d.ireac # EmptyM \/ d.iprod # EmptyM
HasName == \E i \in 1..Len(lines) : lines[i].den.name # ""
HasQty == \E i \in 1..Len(lines) : lines[i].den.param.some /\ lines[i].den.param.kind = "qty"
SystemText == Len(lines) > 1 \/ ncom > 0 \/ cfgv.msfk \/ cfgv.ctoks # "default" \/ lines = <<>>
Applicable(o) == (o.wn => ~HasName) /\ (o.wp => ~HasQty) /\ (o.nd # 3 => ~SystemText)
OptSeq == SetSeq({ o \in PrintOpts : Applicable(o) })
Printable == /\ fault = "none" /\ lines # <<>>
             /\ \A i \in 1..Len(lines) : ~HasInactive(lines[i].den)
             /\ OptSeq # <<>>

\* every applicable printing option is applied to the whole text
PrintText ==
    /\ stage = "read" /\ Printable
    /\ printed' = [j \in 1..Len(OptSeq) |->
                      [opt |-> OptSeq[j],
                       lines |-> [i \in 1..Len(lines) |-> PrintTokens(lines[i].den, arrow, OptSeq[j])]]]
    /\ stage' = "printed"
    /\ UNCHANGED <<doc, line, toks, den, lines, side, nside, ninact, fault, allowed, arrow, klass, ncom, reparsed, cfgv, sl>>

ParseText ==
    /\ stage = "printed"
    /\ reparsed' = [j \in 1..Len(printed) |->
                       [opt |-> printed[j].opt,
                        lines |-> [i \in 1..Len(printed[j].lines) |-> ParsePrinted(printed[j].lines[i])]]]
    /\ stage' = "final"
    /\ UNCHANGED <<doc, line, toks, den, lines, side, nside, ninact, fault, allowed, arrow, klass, ncom, printed, cfgv, sl>>

------------------------------------------------------------------------------
(* generation steps restricted to the alphabets of the configuration *)
CoefsOf(f) == IF f = "bare" THEN {One} ELSE IF f \in {"dec", "decstar"} THEN DecCoefs ELSE IntCoefs
SideRoom == nside < (IF side = "reac" THEN MaxReac ELSE MaxProd)
GenAllowed == TRUE \in AllowedModes /\ Fresh /\ \E f \in AllowedForms : GiveAllowed(AllowedKeys, f)
GenConfig == Fresh /\ cfgv = DefaultCfg /\ (allowed.given \/ FALSE \in AllowedModes) /\ \E c \in Configs : Configure(c)
GenTerm == InStoich /\ SideRoom /\ \E f \in Forms, key \in Keys : \E c \in CoefsOf(f) :
              SideRoom /\ (useAllowed \/ FALSE \in AllowedModes) /\ Term(side, f, c, key)
GenInactive == InStoich /\ SideRoom /\ ninact < MaxInact /\ \E c \in InactCoefs, key \in Keys :
              SideRoom /\ ninact < MaxInact /\ (useAllowed \/ FALSE \in AllowedModes) /\ Inactive(side, c, key)
GenArrow == \E a \in Arrows : Arrow(a)
GenParam == stage = "line" /\ LineComplete /\ \E p \in Params :
               IF p.kind = "num" THEN Param(p.v, p.style)
               ELSE IF p.kind = "qty" THEN ParamQty(p.v, p.style, p.ue)
               ELSE ParamSym(p.name)
GenKw == stage = "tail" /\ \E w \in Kws : Kw(w.k, w.v)
GenComment == stage = "start" /\ \E c \in Comments : ncom < MaxComments /\ MaxLines > 1 /\ Comment(c)
GenNewLine == Len(lines) + 1 < MaxLines /\ NewLine
GenUnknownKey == "unknownkey" \in FaultKinds /\ InStoich /\ SideRoom /\ fault \in {"none", "unknownkey"} /\ allowed.given /\ \E f \in Forms \cup {"inact"}, key \in Keys :
                    \E c \in (IF f = "inact" THEN InactCoefs ELSE CoefsOf(f)) :
                        SideRoom /\ (f = "inact" => ninact < MaxInact) /\ UnknownKey(side, f, c, key)
GenMissingArrow == "missingarrow" \in FaultKinds /\ \E k \in {"Reaction", "Equilibrium"} : MissingArrow(k)
GenWrongArrow == "wrongarrow" \in FaultKinds /\ \E a \in {"->", "="} : WrongArrow(a)
GenStaleComment == "notacomment" \in FaultKinds /\ stage = "start" /\ \E c \in Comments :
                      ncom < MaxComments /\ MaxLines > 1 /\ StaleComment(c)

Next ==
    \/ GenAllowed \/ GenConfig \/ GenTerm \/ GenInactive \/ GenArrow \/ GenParam \/ GenKw \/ GenComment
    \/ GenNewLine \/ Finish \/ GenUnknownKey \/ GenMissingArrow \/ GenWrongArrow \/ GenStaleComment
    \/ PrintText \/ ParseText

Spec == Init /\ [][Next]_vars

------------------------------------------------------------------------------
(* invariants *)
TypeOK == /\ stage \in {"start", "line", "tail", "read", "printed", "final"}
          /\ side \in {"reac", "prod"}
          /\ fault \in {"none", "unknownkey", "missingarrow", "wrongarrow", "notacomment"}

\* finished lines carry the keyword arguments, the line being written does not yet
AllDens == [i \in 1..Len(lines) |-> [toks |-> lines[i].toks, den |-> lines[i].den, done |-> TRUE]]
           \o (IF toks = <<>> THEN <<>> ELSE <<[toks |-> toks, den |-> den, done |-> FALSE]>>)

\* operational accumulation = declarative denotation: repeated species are summed, per side
RepeatedSpeciesSummed ==
    \A i \in 1..Len(AllDens) :
        AllDens[i].den = IF AllDens[i].done THEN WithArgs(DenoteLine(AllDens[i].toks)) ELSE DenoteLine(AllDens[i].toks)

\* a parenthesised term never contributes to the active maps and vice versa
InactiveNeverActive ==
    \A i \in 1..Len(AllDens) :
        LET ts == AllDens[i].toks  d == AllDens[i].den IN
        \A s \in {"reac", "prod"} :
            /\ DOMAIN d[s] = { ts[j].key.t : j \in TermsOn(ts, "term", s) }
            /\ DOMAIN d[IField(s)] = { ts[j].key.t : j \in TermsOn(ts, "inact", s) }
            /\ \A k \in DOMAIN d[s] : QLt(QZero, d[s][k])
            /\ \A k \in DOMAIN d[IField(s)] : QLt(QZero, d[IField(s)][k])

\* what reading the printed text must give back: the same species and coefficients, the
\* parameter to the printed precision, nothing inactive
StoichParamEq(d1, d2) == d1.reac = d2.reac /\ d1.prod = d2.prod /\ d1.ireac = d2.ireac /\ d1.iprod = d2.iprod
                         /\ d1.param = d2.param
\* (printed without parameter: no parameter comes back; names and references are never read back)
RoundTrip(d, o) == [d EXCEPT !.param = IF o.wp THEN PrintedParam(d.param, o.nd) ELSE NoParam, !.ref = "", !.name = ""]
\* the re-read object compares equal to the original iff no parameter was lost or rounded
\* (equality of reactions ignores names and references)
ExactUnder(d, o) == ~d.param.some \/ (o.wp /\ (d.param.kind = "sym" \/ (d.param.kind = "num" /\ NumSig(d.param.v) <= o.nd)))
ParsePrintIdentity ==
    stage = "final" =>
        /\ Len(reparsed) = Len(OptSeq) /\ Len(reparsed) >= 1
        /\ \A j \in 1..Len(reparsed) :
              /\ reparsed[j].opt = OptSeq[j] /\ Len(reparsed[j].lines) = Len(lines)
              /\ \A i \in 1..Len(lines) :
                    /\ reparsed[j].lines[i] = RoundTrip(lines[i].den, reparsed[j].opt)
                    /\ ((lines[i].den.param.some /\ lines[i].den.param.kind = "num" /\ reparsed[j].opt.wp) =>
                           WithinHalfUlpExact(reparsed[j].lines[i].param.v, lines[i].den.param.v, reparsed[j].opt.nd))
                    /\ (ExactUnder(lines[i].den, reparsed[j].opt) =>
                           StoichParamEq(reparsed[j].lines[i], lines[i].den))

\* keyword arguments never override what the text says
TextWins ==
    \A i \in 1..Len(lines) :
        LET t == DenoteLine(lines[i].toks) IN
        /\ (t.name # "" => lines[i].den.name = t.name)
        /\ (t.ref # "" => lines[i].den.ref = t.ref)
        /\ (t.param.some => lines[i].den.param = t.param)

------------------------------------------------------------------------------
(* case export *)
Terminal == stage = "final" \/ (stage = "read" /\ ~Printable)
Pairs(m) == SetSeq({ <<k, m[k]>> : k \in DOMAIN m })
DecJ(v) == [neg |-> v.neg, digs |-> v.digs, e |-> v.e]
ParamJ(p) == IF ~p.some THEN [some |-> FALSE]
             ELSE IF p.kind = "num" THEN [some |-> TRUE, kind |-> "num", v |-> DecJ(p.v)]
             ELSE IF p.kind = "qty" THEN [some |-> TRUE, kind |-> "qty", v |-> DecJ(p.v), unit |-> p.unit]
             ELSE [some |-> TRUE, kind |-> "sym", name |-> p.name]
DenJ(d) == [reac |-> Pairs(d.reac), prod |-> Pairs(d.prod), ireac |-> Pairs(d.ireac), iprod |-> Pairs(d.iprod),
            param |-> ParamJ(d.param), ref |-> d.ref, name |-> d.name]
\* the round trip may give a number back exactly or rounded to three digits (either neighbour on a tie)
RTParamJ(p, nd) == IF ~p.some THEN [some |-> FALSE]
               ELSE IF p.kind = "sym" THEN [some |-> TRUE, kind |-> "sym", name |-> p.name]
               ELSE [some |-> TRUE, kind |-> "num", allowed |-> SetSeq({DecJ(r) : r \in RoundSigSet(p.v, nd) \cup {p.v}})]
RTJ(d, o) == [reac |-> Pairs(d.reac), prod |-> Pairs(d.prod),
              param |-> IF o.wp THEN RTParamJ(d.param, o.nd) ELSE [some |-> FALSE],
              exact |-> ExactUnder(d, o)]
\* constructor checks that are not properties of reading the text (documented defaults):
\* all coefficients integral, some net effect, units of a quantity parameter consistent with the order
AllKeys(d) == DOMAIN d.reac \cup DOMAIN d.prod \cup DOMAIN d.ireac \cup DOMAIN d.iprod
NetZero(d) == \A k \in AllKeys(d) :
                 QAdd(Get(d.prod, k), Get(d.iprod, k)) = QAdd(Get(d.reac, k), Get(d.ireac, k))
NonIntegral(d) == \E f \in {"reac", "prod", "ireac", "iprod"} : \E k \in DOMAIN d[f] : ~QIsInt(d[f][k])
NeedsNoChecks(d) == NetZero(d) \/ NonIntegral(d) \/ (d.param.some /\ d.param.kind = "qty")
StoichEq(d1, d2) == d1.reac = d2.reac /\ d1.prod = d2.prod /\ d1.ireac = d2.ireac /\ d1.iprod = d2.iprod
                    /\ d1.param = d2.param
\* (systems also refuse two reactions with the same name by default)
Duplicates == \E i, j \in 1..Len(lines) : i < j /\ (StoichEq(lines[i].den, lines[j].den)
                  \/ (lines[i].den.name # "" /\ lines[i].den.name = lines[j].den.name))

\* reading the printed text may meet duplicates that the original did not have (parameters dropped
\* or rounded to the same three digits): the default duplicate check is then switched off as well
RTDuplicates(o) == \E i, j \in 1..Len(lines) : i < j /\
                      StoichParamEq(RoundTrip(lines[i].den, o), RoundTrip(lines[j].den, o))
TokSet == UNION { { lines[i].toks[j] : j \in 1..Len(lines[i].toks) } : i \in 1..Len(lines) }
TermToks == { t \in TokSet : t.k \in {"term", "inact"} }
UsedKeys == UNION { AllKeys(lines[i].den) : i \in 1..Len(lines) }
\* the substances of a system: the given list (plus, with missing_substances_from_keys, what else
\* the reactions name), or - no list given - exactly the keys the reactions name
SystemKeys == IF allowed.given THEN allowed.keys \cup (IF cfgv.msfk THEN UsedKeys ELSE {}) ELSE UsedKeys
\* a bare term (no coefficient) whose key itself begins with a parenthesis
BareParenSides == { t.side : t \in { u \in TermToks : u.k = "term" /\ u.form = "bare" /\ u.key.lead = "(" } }
HasRepeat == \E i \in 1..Len(lines) : \E s \in {"reac", "prod"} : \E kind \in {"term", "inact"} :
                Cardinality(TermsOn(lines[i].toks, kind, s)) > Cardinality(DOMAIN SideMap(lines[i].toks, kind, s))
\* the system readers are used for several lines, comments, and the options only they have
IsSystem == Len(lines) > 1 \/ ncom > 0 \/ cfgv.msfk \/ cfgv.ctoks # "default" \/ lines = <<>>
\* history: the read object is edited in place (a species whose key sorts before all others joins the
\* reactants, one that sorts after all others the products), then copied: the copy equals the edited
\* original, has its content, and prints the same text
EditLow == "!M"
EditHigh == "~M"
EditedDen(d) == [d EXCEPT !.reac = Accumulate(@, EditLow, QOne), !.prod = Accumulate(@, EditHigh, Q(2))]
\* copy(param=...) replaces the parameter and nothing else
OverrideParam == Dec(FALSE, <<7, 2, 5>>, 0)
Class ==
    (IF fault # "none" THEN "fault-" \o fault ELSE "ok")
    \o (IF IsSystem THEN "-sys" ELSE "")
    \o (IF lines = <<>> THEN "-empty" ELSE "")
    \o (IF \E t \in TermToks : t.k = "inact" THEN "-inact" ELSE "")
    \o (IF HasRepeat THEN "-rep" ELSE "")
    \o (IF \E t \in TermToks : t.coef.fd > 0 THEN "-dec" ELSE "")
    \o (IF \E t \in TermToks : t.form \in {"nstar", "decstar"} THEN "-star" ELSE "")
    \o (IF \E t \in TermToks : t.key.lead # "" THEN "-br" ELSE "")
    \o (IF BareParenSides # {} THEN "-bareparen" ELSE "")
    \o (IF \E t \in TokSet : t.k = "param" /\ t.kind = "num" THEN "-param" ELSE "")
    \o (IF \E t \in TokSet : t.k = "param" /\ t.kind = "qty" THEN "-qty" ELSE "")
    \o (IF \E t \in TokSet : t.k = "param" /\ t.kind = "sym" THEN "-sym" ELSE "")
    \o (IF \E t \in TokSet : t.k = "kw" THEN "-kw" ELSE "")
    \o (IF useAllowed THEN "-allowed-" \o allowed.form ELSE "")
    \o (IF arrow = "=" THEN "-eq" ELSE "")
    \o (IF cfgv # DefaultCfg THEN "-cfg" ELSE "")
    \o (IF cfgv.spc # "normal" THEN "-" \o cfgv.spc ELSE "")
    \o (IF cfgv.eol # "lf" THEN "-" \o cfgv.eol ELSE "")
    \o (IF cfgv.gmode # "default" THEN "-g" \o cfgv.gmode ELSE "")
    \o (IF cfgv.ctoks # "default" THEN "-ctoks" ELSE "")
    \o (IF cfgv.msfk THEN "-msfk" ELSE "") \o (IF cfgv.chk # "checks" THEN "-dontcheck" ELSE "")
    \o (IF \E t \in TokSet : t.k = "param" /\ t.kind = "num" /\ t.v.digs = <<>> THEN "-zero" ELSE "")
    \o (IF HasArgs THEN "-args" ELSE "")
CaseRec ==
    [ in |-> [slice |-> sl, doc |-> doc, klass |-> klass, system |-> IsSystem,
              allowed |-> [given |-> useAllowed, keys |-> SetSeq(allowed.keys), form |-> allowed.form],
              cfg |-> [chk |-> cfgv.chk, spc |-> cfgv.spc, eol |-> cfgv.eol, gmode |-> cfgv.gmode, ctoks |-> cfgv.ctoks,
                       msfk |-> cfgv.msfk, dq |-> cfgv.dq, argname |-> cfgv.argname, argref |-> cfgv.argref,
                       argparam |-> IF cfgv.argparam.some THEN [some |-> TRUE, v |-> DecJ(cfgv.argparam.v)]
                                    ELSE [some |-> FALSE]]],
      cls |-> Class,
      exp |-> [ raise |-> fault # "none", fault |-> fault,
                lines |-> [i \in 1..Len(lines) |-> DenJ(lines[i].den)],
                nochecks |-> [i \in 1..Len(lines) |-> NeedsNoChecks(lines[i].den)],
                duplicates |-> Duplicates,
                substances |-> SetSeq(SystemKeys),
                copy_eq |-> TRUE, copy_indep |-> TRUE,
                edit |-> [low |-> EditLow, high |-> EditHigh],
                edited |-> [i \in 1..Len(lines) |-> DenJ(EditedDen(lines[i].den))],
                edit_copy_eq |-> TRUE, edit_str_eq |-> TRUE,
                override |-> DecJ(OverrideParam),
                copy_over |-> [i \in 1..Len(lines) |-> DenJ([lines[i].den EXCEPT !.param = SomeParam(OverrideParam)])],
                \* history: the parameter is reassigned (to OverrideParam) on the read object, then printed
                \* (with_param) and read back
                reassign |-> [i \in 1..Len(lines) |->
                                RTJ([lines[i].den EXCEPT !.param = SomeParam(OverrideParam)], Opt(TRUE, FALSE))],
                twin_eq |-> TRUE, twin_indep |-> TRUE,
                printable |-> (stage = "final"),
                rt |-> IF stage = "final"
                       THEN [j \in 1..Len(OptSeq) |->
                               [wp |-> OptSeq[j].wp, wn |-> OptSeq[j].wn, nd |-> OptSeq[j].nd, duplicates |-> RTDuplicates(OptSeq[j]),
                                lines |-> [i \in 1..Len(lines) |-> RTJ(lines[i].den, OptSeq[j])]]]
                       ELSE <<>> ] ]
Emit == Terminal => PrintT(<<"CASE", ToJson(CaseRec)>>)
=============================================================================
