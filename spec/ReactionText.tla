---------------------------- MODULE ReactionText ----------------------------
(* Reaction text is read exactly as written; printing and parsing are inverse (property C12). *)
(*                                                                                            *)
(* A generator of reaction lines in the documented notation                                   *)
(*     [n | n.d | n *] Key + ... + (n Key) -> ... ; parameter ; keyword='value'               *)
(* builds a text (doc: sequence of lines, joined with newlines by the harness) token by       *)
(* token and carries its denotation along: per line the maps reac / prod (active species),    *)
(* ireac / iprod (species of parenthesised "(n X)" terms, inactive), the parameter as an      *)
(* exact decimal and the keyword values.  The denotation is accumulated OPERATIONALLY (den)   *)
(* and must equal the DECLARATIVE one recomputed from the tokens ("the coefficient of a key   *)
(* on a side is the sum of the coefficients of the terms that name it there", DenoteLine).    *)
(* Species keys are atomic space-free strings with one attribute: the bracket they begin with *)
(* (lead), so that keys like "(NH4)2SO4" are told apart from parenthesised terms by the       *)
(* grammar, never by their first character.                                                   *)
(* A second phase prints every read text that has no inactive group under every printing      *)
(* option (with_param x with_name; coefficient omitted iff it is 1, each species once,        *)
(* parameter to three significant digits) and parses the printed tokens again:                *)
(* ParsePrintIdentity.                                                                        *)
EXTENDS Integers, Sequences, FiniteSets, FiniteSetsExt, TLC, Json, Rational, Decimal

CONSTANTS
    Keys,         \* species keys: records [t |-> text, lead |-> "" | "(" | "[" | "{"]
    AllowedKeys,  \* key texts of the allowed-key list (used when a list is given)
    AllowedModes, \* subset of BOOLEAN: may a list be given (TRUE) / not given (FALSE)
    Forms,        \* subset of {"bare", "n", "nstar", "dec"}
    IntCoefs,     \* coefficient records written as integers
    DecCoefs,     \* coefficient records written as decimals
    InactCoefs,   \* coefficient records inside "(n X)"
    MaxReac, MaxProd,   \* terms per side (active + inactive)
    MaxInact,     \* parenthesised terms per line
    Arrows,       \* subset of {"->", "="}
    Params,       \* parameter records [v |-> decimal, style |-> "sci" | "fix" | "int"]
    Kws,          \* keyword records [k |-> "ref" | "name", v |-> text]
    MaxLines,     \* reaction lines per text
    Comments,     \* comment / blank line texts
    MaxComments,
    FaultKinds,   \* subset of {"unknownkey", "missingarrow", "wrongarrow"}
    PrintOpts     \* printing options tried in the second phase: records [wp |-> with_param, wn |-> with_name]

VARIABLES doc, line, toks, den, lines, side, nside, ninact, stage, fault, allowed, arrow, klass,
          ncom, printed, reparsed

vars == <<doc, line, toks, den, lines, side, nside, ninact, stage, fault, allowed, arrow, klass,
          ncom, printed, reparsed>>

------------------------------------------------------------------------------
(* vocabulary *)
Key(t, l) == [t |-> t, lead |-> l]
Pow10(k) == IPow(10, k)
\* coefficients: ip.fp with fd fractional digits; text and value travel together
Coef(ip, fd, fp) == [ip |-> ip, fd |-> fd, fp |-> fp]
One == Coef(1, 0, 0)
IsCoef(c) == c.ip \in Nat /\ c.fd \in 0..3 /\ c.fp \in 0..(Pow10(c.fd) - 1) /\ (c.ip > 0 \/ c.fp > 0)
CoefVal(c) == Norm(<<c.ip * Pow10(c.fd) + c.fp, Pow10(c.fd)>>)
PadN(k, w) == IF w = 0 THEN ""
              ELSE IF w = 1 THEN ToString(k)
              ELSE IF w = 2 THEN (IF k < 10 THEN "0" ELSE "") \o ToString(k)
              ELSE (IF k < 10 THEN "00" ELSE IF k < 100 THEN "0" ELSE "") \o ToString(k)
CoefText(c) == ToString(c.ip) \o (IF c.fd = 0 THEN "" ELSE "." \o PadN(c.fp, c.fd))
FormOK(f, c) == /\ IsCoef(c)
                /\ (f = "bare" => c = One)
                /\ (f \in {"n", "nstar"} => c.fd = 0)
                /\ (f = "dec" => c.fd > 0)
                /\ f \in {"bare", "n", "nstar", "dec"}
FormText(f, c) == IF f = "bare" THEN ""
                  ELSE IF f = "nstar" THEN CoefText(c) \o " * "
                  ELSE CoefText(c) \o " "

\* parameters: an exact decimal and the way it is written
NoParam == [some |-> FALSE]
SomeParam(v) == [some |-> TRUE, v |-> v]
IntPart(v) == [i \in 1..(v.e + 1) |-> IF i <= Len(v.digs) THEN v.digs[i] ELSE 0]
FracPart(v) == IF Len(v.digs) > v.e + 1 THEN SubSeq(v.digs, v.e + 2, Len(v.digs)) ELSE <<>>
ParamStyleOK(v, st) ==
    /\ IsNorm(v) /\ v.digs # <<>>
    /\ st \in {"sci", "fix", "int"}
    /\ (st = "int" => (v.e >= 0 /\ Len(v.digs) <= v.e + 1 /\ v.e <= 8))
    /\ (st = "fix" => (v.e >= -6 /\ v.e <= 15))
ParamText(v, st) ==
    (IF v.neg THEN "-" ELSE "") \o
    (IF st = "sci"
     THEN ToString(v.digs[1]) \o (IF Len(v.digs) > 1 THEN "." \o DigStr(Tail(v.digs)) ELSE "")
          \o "e" \o ToString(v.e)
     ELSE IF st = "int" THEN DigStr(IntPart(v))
     ELSE IF v.e >= 0 THEN DigStr(IntPart(v)) \o "." \o (IF FracPart(v) = <<>> THEN "0" ELSE DigStr(FracPart(v)))
     ELSE "0." \o DigStr([i \in 1..(-v.e - 1) |-> 0]) \o DigStr(v.digs))

\* maps key text -> rational
EmptyM == <<>>
Get(f, k) == IF k \in DOMAIN f THEN f[k] ELSE QZero
Accumulate(f, k, q) == [y \in DOMAIN f \cup {k} |-> IF y = k THEN QAdd(Get(f, k), q) ELSE f[y]]
EmptyDen == [reac |-> EmptyM, prod |-> EmptyM, ireac |-> EmptyM, iprod |-> EmptyM,
             param |-> NoParam, ref |-> "", name |-> ""]
IField(s) == IF s = "reac" THEN "ireac" ELSE "iprod"
KlassOf(a) == IF a = "->" THEN "Reaction" ELSE "Equilibrium"
OtherKlass(a) == IF a = "->" THEN "Equilibrium" ELSE "Reaction"

------------------------------------------------------------------------------
NoList == [given |-> FALSE, keys |-> {}]
Init ==
    /\ doc = <<>> /\ line = "" /\ toks = <<>> /\ den = EmptyDen /\ lines = <<>>
    /\ side = "reac" /\ nside = 0 /\ ninact = 0 /\ stage = "start" /\ fault = "none"
    /\ allowed = NoList /\ arrow = "" /\ klass = "" /\ ncom = 0
    /\ printed = <<>> /\ reparsed = <<>>

Sep == IF nside = 0 THEN "" ELSE " + "
InStoich == stage \in {"start", "line"}
useAllowed == allowed.given
KeyAllowed(key) == ~allowed.given \/ key.t \in allowed.keys

\* an allowed-key list accompanies the text
GiveAllowed(ks) ==
    /\ stage = "start" /\ doc = <<>> /\ lines = <<>> /\ ~allowed.given
    /\ allowed' = [given |-> TRUE, keys |-> ks]
    /\ UNCHANGED <<doc, line, toks, den, lines, side, nside, ninact, stage, fault, arrow, klass, ncom, printed, reparsed>>

TermEffect(s, form, c, key) ==
    /\ line' = line \o Sep \o FormText(form, c) \o key.t
    /\ toks' = Append(toks, [k |-> "term", side |-> s, form |-> form, coef |-> c, key |-> key])
    /\ den' = [den EXCEPT ![s] = Accumulate(@, key.t, CoefVal(c))]
    /\ nside' = nside + 1 /\ stage' = "line"

\* an active term: Key, n Key, n * Key, n.d Key
Term(s, form, c, key) ==
    /\ InStoich /\ s = side /\ FormOK(form, c) /\ KeyAllowed(key)
    /\ TermEffect(s, form, c, key)
    /\ UNCHANGED <<doc, lines, side, ninact, fault, allowed, arrow, klass, ncom, printed, reparsed>>

InactEffect(s, c, key) ==
    /\ line' = line \o Sep \o "(" \o CoefText(c) \o " " \o key.t \o ")"
    /\ toks' = Append(toks, [k |-> "inact", side |-> s, form |-> "inact", coef |-> c, key |-> key])
    /\ den' = [den EXCEPT ![IField(s)] = Accumulate(@, key.t, CoefVal(c))]
    /\ nside' = nside + 1 /\ ninact' = ninact + 1 /\ stage' = "line"

\* a parenthesised term "(n Key)": counted on its side, but inactive
Inactive(s, c, key) ==
    /\ InStoich /\ s = side /\ IsCoef(c) /\ KeyAllowed(key)
    /\ InactEffect(s, c, key)
    /\ UNCHANGED <<doc, lines, side, fault, allowed, arrow, klass, ncom, printed, reparsed>>

Arrow(a) ==
    /\ stage = "line" /\ side = "reac" /\ nside >= 1 /\ a \in {"->", "="}
    /\ arrow \in {"", a}
    /\ line' = line \o " " \o a \o " "
    /\ toks' = Append(toks, [k |-> "arrow", a |-> a])
    /\ side' = "prod" /\ nside' = 0 /\ arrow' = a
    /\ klass' = IF klass = "" THEN KlassOf(a) ELSE klass
    /\ UNCHANGED <<doc, den, lines, ninact, stage, fault, allowed, ncom, printed, reparsed>>

LineComplete == side = "prod" /\ nside >= 1 /\ stage \in {"line", "tail"}

Param(v, st) ==
    /\ stage = "line" /\ LineComplete /\ ParamStyleOK(v, st)
    /\ line' = line \o "; " \o ParamText(v, st)
    /\ toks' = Append(toks, [k |-> "param", v |-> v, style |-> st])
    /\ den' = [den EXCEPT !.param = SomeParam(v)]
    /\ stage' = "tail"
    /\ UNCHANGED <<doc, lines, side, nside, ninact, fault, allowed, arrow, klass, ncom, printed, reparsed>>

NKw == Cardinality({ i \in 1..Len(toks) : toks[i].k = "kw" })
\* keyword part after the parameter: ; ref='...' [, name='...']
Kw(k, v) ==
    /\ stage = "tail" /\ k \in {"ref", "name"} /\ den[k] = "" /\ v # ""
    /\ line' = line \o (IF NKw = 0 THEN "; " ELSE ", ") \o k \o "='" \o v \o "'"
    /\ toks' = Append(toks, [k |-> "kw", key |-> k, val |-> v])
    /\ den' = [den EXCEPT ![k] = v]
    /\ UNCHANGED <<doc, lines, side, nside, ninact, stage, fault, allowed, arrow, klass, ncom, printed, reparsed>>

\* a comment or blank line between reaction lines (multi-line texts)
Comment(c) ==
    /\ stage = "start" /\ line = ""
    /\ doc' = Append(doc, c) /\ ncom' = ncom + 1
    /\ UNCHANGED <<line, toks, den, lines, side, nside, ninact, stage, fault, allowed, arrow, klass, printed, reparsed>>

PushLine ==
    /\ doc' = Append(doc, line)
    /\ lines' = Append(lines, [toks |-> toks, den |-> den])
    /\ line' = "" /\ toks' = <<>> /\ den' = EmptyDen /\ side' = "reac" /\ nside' = 0 /\ ninact' = 0

NewLine ==
    /\ LineComplete
    /\ PushLine /\ stage' = "start"
    /\ UNCHANGED <<fault, allowed, arrow, klass, ncom, printed, reparsed>>

Finish ==
    /\ \/ LineComplete /\ PushLine
       \/ stage = "start" /\ line = "" /\ lines # <<>>
          /\ UNCHANGED <<doc, line, toks, den, lines, side, nside, ninact>>
    /\ stage' = "read"
    /\ UNCHANGED <<fault, allowed, arrow, klass, ncom, printed, reparsed>>

------------------------------------------------------------------------------
(* ill-formed texts: expected observation "raises" *)
\* a species key that is not in the given allowed-key list (active or parenthesised term)
UnknownKey(s, form, c, key) ==
    /\ InStoich /\ s = side /\ fault = "none" /\ allowed.given /\ key.t \notin allowed.keys
    /\ IF form = "inact" THEN IsCoef(c) /\ InactEffect(s, c, key)
       ELSE FormOK(form, c) /\ TermEffect(s, form, c, key) /\ UNCHANGED ninact
    /\ fault' = "unknownkey"
    /\ UNCHANGED <<doc, lines, side, allowed, arrow, klass, ncom, printed, reparsed>>

\* the text ends without any arrow
MissingArrow(k) ==
    /\ stage = "line" /\ side = "reac" /\ nside >= 1 /\ fault = "none" /\ lines = <<>>
    /\ k \in {"Reaction", "Equilibrium"}
    /\ PushLine /\ fault' = "missingarrow" /\ klass' = k /\ stage' = "read"
    /\ UNCHANGED <<allowed, arrow, ncom, printed, reparsed>>

\* the arrow of the other class: "A = B" handed to Reaction, "A -> B" handed to Equilibrium
WrongArrow(a) ==
    /\ stage = "line" /\ side = "reac" /\ nside >= 1 /\ fault = "none" /\ a \in {"->", "="}
    /\ lines = <<>>
    /\ line' = line \o " " \o a \o " "
    /\ toks' = Append(toks, [k |-> "arrow", a |-> a])
    /\ side' = "prod" /\ nside' = 0 /\ arrow' = a /\ klass' = OtherKlass(a)
    /\ fault' = "wrongarrow"
    /\ UNCHANGED <<doc, den, lines, ninact, stage, allowed, ncom, printed, reparsed>>

------------------------------------------------------------------------------
(* DECLARATIVE denotation of a token sequence, straight from the statement of C12 *)
QSumSet(S, f(_)) == FoldSet(LAMBDA y, acc : QAdd(f(y), acc), QZero, S)
TermsOn(ts, kind, s) == { i \in 1..Len(ts) : ts[i].k = kind /\ ts[i].side = s }
SideMap(ts, kind, s) ==
    LET I == TermsOn(ts, kind, s) IN
    [key \in { ts[i].key.t : i \in I } |->
        QSumSet({ i \in I : ts[i].key.t = key }, LAMBDA i : CoefVal(ts[i].coef))]
KwOf(ts, k) == LET I == { i \in 1..Len(ts) : ts[i].k = "kw" /\ ts[i].key = k } IN
               IF I = {} THEN "" ELSE ts[CHOOSE i \in I : TRUE].val
ParamOf(ts) == LET I == { i \in 1..Len(ts) : ts[i].k = "param" } IN
               IF I = {} THEN NoParam ELSE SomeParam(ts[CHOOSE i \in I : TRUE].v)
DenoteLine(ts) ==
    [reac |-> SideMap(ts, "term", "reac"), prod |-> SideMap(ts, "term", "prod"),
     ireac |-> SideMap(ts, "inact", "reac"), iprod |-> SideMap(ts, "inact", "prod"),
     param |-> ParamOf(ts), ref |-> KwOf(ts, "ref"), name |-> KwOf(ts, "name")]

(* printing: each species once, coefficient written unless it is 1, parameter to 3 digits *)
SetSeq(S) == LET RECURSIVE f(_)
                 f(T) == IF T = {} THEN <<>> ELSE LET a == CHOOSE b \in T : TRUE IN <<a>> \o f(T \ {a})
             IN f(S)
\* a printed coefficient is the value itself; its text is the printer's business
PCoef(q) == [ip |-> q[1], fd |-> 0, fp |-> 0, den |-> q[2]]
PCoefVal(c) == Norm(<<c.ip, c.den>>)
PrintSide(m, s) ==
    LET ks == SetSeq(DOMAIN m) IN
    [i \in 1..Len(ks) |-> [k |-> "term", side |-> s, form |-> IF m[ks[i]] = QOne THEN "bare" ELSE "n",
                           coef |-> PCoef(m[ks[i]]), key |-> Key(ks[i], "")]]
PrintedParam(p) == IF p.some THEN SomeParam(RoundSig(p.v, 3)) ELSE NoParam
\* printing takes two options: with_param (the parameter is printed) and with_name (the name is
\* printed after it).  A printed name ("A -> B; 2.5; r1") is not part of the notation, so printing
\* WITH names is a second-phase option only for texts whose reactions carry no name.
Opt(wp, wn) == [wp |-> wp, wn |-> wn]
AllPrintOpts == { Opt(a, b) : a \in BOOLEAN, b \in BOOLEAN }
PrintTokens(d, a, o) ==
    PrintSide(d.reac, "reac") \o <<[k |-> "arrow", a |-> a]>> \o PrintSide(d.prod, "prod")
    \o (IF o.wp /\ d.param.some THEN <<[k |-> "param", v |-> RoundSig(d.param.v, 3), style |-> "sci"]>> ELSE <<>>)
\* reading printed tokens: the same declarative denotation (printed coefficients are rationals)
PSideMap(ts, s) ==
    LET I == TermsOn(ts, "term", s) IN
    [key \in { ts[i].key.t : i \in I } |->
        QSumSet({ i \in I : ts[i].key.t = key }, LAMBDA i : PCoefVal(ts[i].coef))]
ParsePrinted(ts) ==
    [reac |-> PSideMap(ts, "reac"), prod |-> PSideMap(ts, "prod"), ireac |-> EmptyM, iprod |-> EmptyM,
     param |-> ParamOf(ts), ref |-> "", name |-> ""]

HasInactive(d) == d.ireac # EmptyM \/ d.iprod # EmptyM
HasName == \E i \in 1..Len(lines) : lines[i].den.name # ""
Applicable(o) == o.wn => ~HasName
OptSeq == SetSeq({ o \in PrintOpts : Applicable(o) })
Printable == /\ fault = "none" /\ lines # <<>>
             /\ \A i \in 1..Len(lines) : ~HasInactive(lines[i].den)
             /\ OptSeq # <<>>

\* every applicable printing option is applied to the whole text
PrintText ==
    /\ stage = "read" /\ Printable
    /\ printed' = [j \in 1..Len(OptSeq) |->
                      [opt |-> OptSeq[j],
                       lines |-> [i \in 1..Len(lines) |-> PrintTokens(lines[i].den, arrow, OptSeq[j])]]]
    /\ stage' = "printed"
    /\ UNCHANGED <<doc, line, toks, den, lines, side, nside, ninact, fault, allowed, arrow, klass, ncom, reparsed>>

ParseText ==
    /\ stage = "printed"
    /\ reparsed' = [j \in 1..Len(printed) |->
                       [opt |-> printed[j].opt,
                        lines |-> [i \in 1..Len(printed[j].lines) |-> ParsePrinted(printed[j].lines[i])]]]
    /\ stage' = "final"
    /\ UNCHANGED <<doc, line, toks, den, lines, side, nside, ninact, fault, allowed, arrow, klass, ncom, printed>>

------------------------------------------------------------------------------
(* generation steps restricted to the alphabets of the configuration *)
CoefsOf(f) == IF f = "bare" THEN {One} ELSE IF f = "dec" THEN DecCoefs ELSE IntCoefs
SideRoom == nside < (IF side = "reac" THEN MaxReac ELSE MaxProd)
GenAllowed == TRUE \in AllowedModes /\ GiveAllowed(AllowedKeys)
GenTerm == InStoich /\ SideRoom /\ \E f \in Forms, key \in Keys : \E c \in CoefsOf(f) :
              SideRoom /\ (useAllowed \/ FALSE \in AllowedModes) /\ Term(side, f, c, key)
GenInactive == InStoich /\ SideRoom /\ ninact < MaxInact /\ \E c \in InactCoefs, key \in Keys :
              SideRoom /\ ninact < MaxInact /\ (useAllowed \/ FALSE \in AllowedModes) /\ Inactive(side, c, key)
GenArrow == \E a \in Arrows : Arrow(a)
GenParam == stage = "line" /\ LineComplete /\ \E p \in Params : Param(p.v, p.style)
GenKw == stage = "tail" /\ \E w \in Kws : Kw(w.k, w.v)
GenComment == \E c \in Comments : ncom < MaxComments /\ MaxLines > 1 /\ Comment(c)
GenNewLine == Len(lines) + 1 < MaxLines /\ NewLine
GenUnknownKey == "unknownkey" \in FaultKinds /\ InStoich /\ SideRoom /\ fault = "none" /\ allowed.given /\ \E f \in Forms \cup {"inact"}, key \in Keys :
                    \E c \in (IF f = "inact" THEN InactCoefs ELSE CoefsOf(f)) :
                        SideRoom /\ (f = "inact" => ninact < MaxInact) /\ UnknownKey(side, f, c, key)
GenMissingArrow == "missingarrow" \in FaultKinds /\ \E k \in {"Reaction", "Equilibrium"} : MissingArrow(k)
GenWrongArrow == "wrongarrow" \in FaultKinds /\ \E a \in {"->", "="} : WrongArrow(a)

Next ==
    \/ GenAllowed \/ GenTerm \/ GenInactive \/ GenArrow \/ GenParam \/ GenKw \/ GenComment
    \/ GenNewLine \/ Finish \/ GenUnknownKey \/ GenMissingArrow \/ GenWrongArrow \/ PrintText \/ ParseText

Spec == Init /\ [][Next]_vars

------------------------------------------------------------------------------
(* invariants *)
TypeOK == /\ stage \in {"start", "line", "tail", "read", "printed", "final"}
          /\ side \in {"reac", "prod"}
          /\ fault \in {"none", "unknownkey", "missingarrow", "wrongarrow"}

AllDens == [i \in 1..Len(lines) |-> lines[i]] \o (IF toks = <<>> THEN <<>> ELSE <<[toks |-> toks, den |-> den]>>)

\* operational accumulation = declarative denotation: repeated species are summed, per side
RepeatedSpeciesSummed ==
    \A i \in 1..Len(AllDens) : AllDens[i].den = DenoteLine(AllDens[i].toks)

\* a parenthesised term never contributes to the active maps and vice versa
InactiveNeverActive ==
    \A i \in 1..Len(AllDens) :
        LET ts == AllDens[i].toks  d == AllDens[i].den IN
        \A s \in {"reac", "prod"} :
            /\ DOMAIN d[s] = { ts[j].key.t : j \in TermsOn(ts, "term", s) }
            /\ DOMAIN d[IField(s)] = { ts[j].key.t : j \in TermsOn(ts, "inact", s) }
            /\ \A k \in DOMAIN d[s] : QLt(QZero, d[s][k])
            /\ \A k \in DOMAIN d[IField(s)] : QLt(QZero, d[IField(s)][k])

\* what reading the printed text must give back: the same species and coefficients, the
\* parameter to the printed precision, nothing inactive
StoichParamEq(d1, d2) == d1.reac = d2.reac /\ d1.prod = d2.prod /\ d1.ireac = d2.ireac /\ d1.iprod = d2.iprod
                         /\ d1.param = d2.param
\* (printed without parameter: no parameter comes back; names and references are never read back)
RoundTrip(d, o) == [d EXCEPT !.param = IF o.wp THEN PrintedParam(d.param) ELSE NoParam, !.ref = "", !.name = ""]
\* the re-read object compares equal to the original iff no parameter was lost or rounded
\* (equality of reactions ignores names and references)
ExactUnder(d, o) == ~d.param.some \/ (o.wp /\ NumSig(d.param.v) <= 3)
ParsePrintIdentity ==
    stage = "final" =>
        /\ Len(reparsed) = Len(OptSeq) /\ Len(reparsed) >= 1
        /\ \A j \in 1..Len(reparsed) :
              /\ reparsed[j].opt = OptSeq[j] /\ Len(reparsed[j].lines) = Len(lines)
              /\ \A i \in 1..Len(lines) :
                    /\ reparsed[j].lines[i] = RoundTrip(lines[i].den, reparsed[j].opt)
                    /\ ((lines[i].den.param.some /\ reparsed[j].opt.wp) =>
                           WithinHalfUlpExact(reparsed[j].lines[i].param.v, lines[i].den.param.v, 3))
                    /\ (ExactUnder(lines[i].den, reparsed[j].opt) =>
                           StoichParamEq(reparsed[j].lines[i], lines[i].den))

------------------------------------------------------------------------------
(* case export *)
Terminal == stage = "final" \/ (stage = "read" /\ ~Printable)
Pairs(m) == SetSeq({ <<k, m[k]>> : k \in DOMAIN m })
DecJ(v) == [neg |-> v.neg, digs |-> v.digs, e |-> v.e]
ParamJ(p) == IF p.some THEN [some |-> TRUE, v |-> DecJ(p.v)] ELSE [some |-> FALSE]
DenJ(d) == [reac |-> Pairs(d.reac), prod |-> Pairs(d.prod), ireac |-> Pairs(d.ireac), iprod |-> Pairs(d.iprod),
            param |-> ParamJ(d.param), ref |-> d.ref, name |-> d.name]
\* the round trip may give the parameter back exactly or rounded to three digits (either neighbour on a tie)
RTParamJ(p) == IF p.some THEN [some |-> TRUE, allowed |-> SetSeq({DecJ(r) : r \in RoundSigSet(p.v, 3) \cup {p.v}})]
               ELSE [some |-> FALSE]
RTJ(d, o) == [reac |-> Pairs(d.reac), prod |-> Pairs(d.prod),
              param |-> IF o.wp THEN RTParamJ(d.param) ELSE [some |-> FALSE],
              exact |-> ExactUnder(d, o)]
\* constructor checks that are not properties of reading the text (documented defaults):
\* all coefficients integral, some net effect
AllKeys(d) == DOMAIN d.reac \cup DOMAIN d.prod \cup DOMAIN d.ireac \cup DOMAIN d.iprod
NetZero(d) == \A k \in AllKeys(d) :
                 QAdd(Get(d.prod, k), Get(d.iprod, k)) = QAdd(Get(d.reac, k), Get(d.ireac, k))
NonIntegral(d) == \E f \in {"reac", "prod", "ireac", "iprod"} : \E k \in DOMAIN d[f] : ~QIsInt(d[f][k])
NeedsNoChecks(d) == NetZero(d) \/ NonIntegral(d)
StoichEq(d1, d2) == d1.reac = d2.reac /\ d1.prod = d2.prod /\ d1.ireac = d2.ireac /\ d1.iprod = d2.iprod
                    /\ d1.param = d2.param
\* (systems also refuse two reactions with the same name by default)
Duplicates == \E i, j \in 1..Len(lines) : i < j /\ (StoichEq(lines[i].den, lines[j].den)
                  \/ (lines[i].den.name # "" /\ lines[i].den.name = lines[j].den.name))

\* reading the printed text may meet duplicates that the original did not have (parameters dropped
\* or rounded to the same three digits): the default duplicate check is then switched off as well
RTDuplicates(o) == \E i, j \in 1..Len(lines) : i < j /\
                      StoichParamEq(RoundTrip(lines[i].den, o), RoundTrip(lines[j].den, o))
TokSet == UNION { { lines[i].toks[j] : j \in 1..Len(lines[i].toks) } : i \in 1..Len(lines) }
TermToks == { t \in TokSet : t.k \in {"term", "inact"} }
\* a bare term (no coefficient) whose key itself begins with a parenthesis
BareParenSides == { t.side : t \in { u \in TermToks : u.k = "term" /\ u.form = "bare" /\ u.key.lead = "(" } }
\* sides on which the PRINTED text has such a term: a key beginning with "(" whose coefficient is 1
PrintedBareParenSides ==
    UNION { { t.side : t \in { u \in { lines[i].toks[j] : j \in 1..Len(lines[i].toks) } :
                                  u.k = "term" /\ u.key.lead = "(" /\ lines[i].den[u.side][u.key.t] = QOne } }
            : i \in 1..Len(lines) }
HasRepeat == \E i \in 1..Len(lines) : \E s \in {"reac", "prod"} : \E kind \in {"term", "inact"} :
                Cardinality(TermsOn(lines[i].toks, kind, s)) > Cardinality(DOMAIN SideMap(lines[i].toks, kind, s))
Class ==
    (IF fault # "none" THEN "fault-" \o fault ELSE "ok")
    \o (IF Len(lines) > 1 \/ ncom > 0 THEN "-sys" ELSE "")
    \o (IF \E t \in TermToks : t.k = "inact" THEN "-inact" ELSE "")
    \o (IF HasRepeat THEN "-rep" ELSE "")
    \o (IF \E t \in TermToks : t.coef.fd > 0 THEN "-dec" ELSE "")
    \o (IF \E t \in TermToks : t.form = "nstar" THEN "-star" ELSE "")
    \o (IF \E t \in TermToks : t.key.lead # "" THEN "-br" ELSE "")
    \o (IF BareParenSides # {} THEN "-bareparen" ELSE "")
    \o (IF \E t \in TokSet : t.k = "param" THEN "-param" ELSE "")
    \o (IF \E t \in TokSet : t.k = "kw" THEN "-kw" ELSE "")
    \o (IF useAllowed THEN "-allowed" ELSE "")
    \o (IF arrow = "=" THEN "-eq" ELSE "")
CaseRec ==
    [ in |-> [doc |-> doc, klass |-> klass, system |-> (Len(lines) > 1 \/ ncom > 0),
              allowed |-> [given |-> useAllowed, keys |-> SetSeq(allowed.keys)]],
      cls |-> Class,
      exp |-> [ raise |-> fault # "none", fault |-> fault,
                lines |-> [i \in 1..Len(lines) |-> DenJ(lines[i].den)],
                nochecks |-> [i \in 1..Len(lines) |-> NeedsNoChecks(lines[i].den)],
                duplicates |-> Duplicates,
                bareparen |-> SetSeq(BareParenSides),
                rt_bareparen |-> SetSeq(PrintedBareParenSides),
                unknown_bareparen |-> (allowed.given /\ \E t \in TermToks : t.k = "term" /\ t.form = "bare"
                                          /\ t.key.lead = "(" /\ t.key.t \notin allowed.keys),
                copy_eq |-> TRUE,
                printable |-> (stage = "final"),
                rt |-> IF stage = "final"
                       THEN [j \in 1..Len(OptSeq) |->
                               [wp |-> OptSeq[j].wp, wn |-> OptSeq[j].wn, duplicates |-> RTDuplicates(OptSeq[j]),
                                lines |-> [i \in 1..Len(lines) |-> RTJ(lines[i].den, OptSeq[j])]]]
                       ELSE <<>> ] ]
Emit == Terminal => PrintT(<<"CASE", ToJson(CaseRec)>>)
=============================================================================
