INIT TInit
NEXT TNext
CONSTANTS
  SliceTable <- TraceTable
  SliceNames = {"trace"}
INVARIANT Verdict
INVARIANT RepeatedSpeciesSummed
INVARIANT InactiveNeverActive
INVARIANT ParsePrintIdentity
CHECK_DEADLOCK FALSE
