INIT TInit
NEXT TNext
CONSTANTS
  Keys = {}
  AllowedKeys = {}
  AllowedModes = {}
  Forms = {}
  IntCoefs = {}
  DecCoefs = {}
  InactCoefs = {}
  MaxReac = 0
  MaxProd = 0
  MaxInact = 0
  Arrows = {}
  Params = {}
  Kws = {}
  MaxLines = 0
  Comments = {}
  MaxComments = 0
  FaultKinds = {}
  PrintOpts <- AllPrintOpts
INVARIANT Verdict
INVARIANT RepeatedSpeciesSummed
INVARIANT InactiveNeverActive
INVARIANT ParsePrintIdentity
CHECK_DEADLOCK FALSE
