---------------------------- MODULE ReactionTextTrace ----------------------------
(* Trace validation for ReactionText (C12).  A trace is the token events of a reaction text  *)
(* (the harness builds the text from the same events; the specification rebuilds it and       *)
(* compares), optionally the events "print" / "parse", and the observation made on the real   *)
(* code: the projected reactions read from the text, whether a copy compares equal, and - for *)
(* texts without inactive groups - what reading the printed text gave back.  The events       *)
(* drive the actions of ReactionText; the observation is judged against the denotation the    *)
(* specification accumulated (parameters of the round trip: within half a unit of the third   *)
(* significant digit, Decimal!WithinHalfUlp).                                                 *)
EXTENDS ReactionText, IOUtils

Traces == JsonDeserialize(IOEnv.TRACE_FILE)

VARIABLES tid, pos, verdict
tvars == <<vars, tid, pos, verdict>>

Ev == Traces[tid][pos]
D(r) == Dec(r.neg, r.digs, r.e)
C(r) == Coef(r.ip, r.fd, r.fp)
K(r) == Key(r.t, r.lead)
SeqSet(s) == { s[i] : i \in 1..Len(s) }

CfgOf(r) == [chk |-> r.chk, spc |-> r.spc, eol |-> r.eol, gmode |-> r.gmode, ctoks |-> r.ctoks, msfk |-> r.msfk, dq |-> r.dq,
             argname |-> r.argname, argref |-> r.argref,
             argparam |-> IF r.argparam.some THEN [some |-> TRUE, v |-> D(r.argparam.v)] ELSE NoArgParam]

TraceSlice == [Keys |-> {}, AllowedKeys |-> {}, AllowedModes |-> {}, AllowedForms |-> {}, Forms |-> {}, IntCoefs |-> {},
               DecCoefs |-> {}, InactCoefs |-> {}, MaxReac |-> 0, MaxProd |-> 0, MaxInact |-> 0, Arrows |-> {},
               Params |-> {}, Kws |-> {}, MaxLines |-> 0, Comments |-> {}, MaxComments |-> 0, FaultKinds |-> {},
               PrintOpts |-> AllPrintOpts, Configs |-> {}]
TraceTable == [n \in {"trace"} |-> TraceSlice]

TInit == Init /\ tid \in 1..Len(Traces) /\ pos = 1 /\ verdict = "none"

Step(e) ==
    CASE e.k = "allowed"      -> GiveAllowed(SeqSet(e.keys), e.form)
      [] e.k = "config"       -> Configure(CfgOf(e.cfg))
      [] e.k = "term"         -> Term(e.side, e.form, C(e.coef), K(e.key))
      [] e.k = "inact"        -> Inactive(e.side, C(e.coef), K(e.key))
      [] e.k = "arrow"        -> Arrow(e.a)
      [] e.k = "param"        -> (IF e.kind = "num" THEN Param(D(e.v), e.style)
                                  ELSE IF e.kind = "qty"
                                       THEN \E ue \in UnitExprs : ue.expr = e.expr /\ ue.dim = e.unit /\ ParamQty(D(e.v), e.style, ue)
                                       ELSE ParamSym(e.name))
      [] e.k = "kw"           -> Kw(e.key, e.val)
      [] e.k = "comment"      -> Comment(e.c)
      [] e.k = "stale"        -> StaleComment(e.c)
      [] e.k = "newline"      -> NewLine
      [] e.k = "finish"       -> Finish
      [] e.k = "unknown"      -> UnknownKey(e.side, e.form, C(e.coef), K(e.key))
      [] e.k = "missingarrow" -> MissingArrow(e.klass)
      [] e.k = "wrongarrow"   -> WrongArrow(e.a)
      [] e.k = "print"        -> PrintText
      [] e.k = "parse"        -> ParseText
      [] OTHER                -> FALSE

\* observed map (list of [key, [n, d]] pairs) against a denotation map
MapEq(ps, m) ==
    /\ Len(ps) = Cardinality(DOMAIN m)
    /\ \A i \in 1..Len(ps) : ps[i][1] \in DOMAIN m /\ Norm(<<ps[i][2][1], ps[i][2][2]>>) = m[ps[i][1]]

\* observed parameter against the denoted one: same kind; numbers and magnitudes exactly (as decimals)
ParamEq(op, dp) ==
    /\ op.some = dp.some
    /\ (dp.some => /\ op.kind = dp.kind
                   /\ (dp.kind = "num" => DEq(D(op.v), dp.v))
                   /\ (dp.kind = "qty" => DEq(D(op.v), dp.v) /\ op.unit = dp.unit)
                   /\ (dp.kind = "sym" => op.name = dp.name))

\* a reaction as read from the text: exactly the written species, coefficients, parameter, keywords
LineClause(o, d) ==
    IF ~MapEq(o.reac, d.reac) THEN "reac"
    ELSE IF ~MapEq(o.prod, d.prod) THEN "prod"
    ELSE IF ~MapEq(o.ireac, d.ireac) THEN "ireac"
    ELSE IF ~MapEq(o.iprod, d.iprod) THEN "iprod"
    ELSE IF ~ParamEq(o.param, d.param) THEN "param"
    ELSE IF o.ref # d.ref THEN "ref"
    ELSE IF o.name # d.name THEN "name"
    ELSE ""

\* a reaction read back from its printed text: same active species and coefficients, nothing
\* inactive, the parameter to the printed precision (three significant digits)
RTLineClause(o, d, withparam, nd) ==
    IF ~MapEq(o.reac, d.reac) THEN "reac"
    ELSE IF ~MapEq(o.prod, d.prod) THEN "prod"
    ELSE IF o.ireac # <<>> THEN "ireac"
    ELSE IF o.iprod # <<>> THEN "iprod"
    ELSE IF o.param.some # (withparam /\ d.param.some) THEN "param"
    ELSE IF o.param.some /\ o.param.kind # d.param.kind THEN "param"
    ELSE IF o.param.some /\ d.param.kind = "sym" /\ o.param.name # d.param.name THEN "param"
    ELSE IF o.param.some /\ d.param.kind = "num" /\ d.param.v.digs = <<>> /\ ~DEq(D(o.param.v), d.param.v) THEN "param-prec"
    ELSE IF o.param.some /\ d.param.kind = "num" /\ d.param.v.digs # <<>>
            /\ ~WithinHalfUlp(D(o.param.v), d.param.v, nd) THEN "param-prec"
    ELSE ""

RECURSIVE FirstLineClause(_, _)
FirstLineClause(ls, i) ==
    IF i > Len(lines) THEN ""
    ELSE LET c == LineClause(ls[i], lines[i].den) IN
         IF c # "" THEN "line" \o ToString(i) \o ":" \o c ELSE FirstLineClause(ls, i + 1)
OverDen(d) == [d EXCEPT !.param = SomeParam(OverrideParam)]
RECURSIVE FirstOverClause(_, _)
FirstOverClause(ls, i) ==
    IF i > Len(lines) THEN ""
    ELSE LET c == LineClause(ls[i], OverDen(lines[i].den)) IN
         IF c # "" THEN "line" \o ToString(i) \o ":" \o c ELSE FirstOverClause(ls, i + 1)
RECURSIVE FirstEditClause(_, _)
FirstEditClause(ls, i) ==
    IF i > Len(lines) THEN ""
    ELSE LET c == LineClause(ls[i], EditedDen(lines[i].den)) IN
         IF c # "" THEN "line" \o ToString(i) \o ":" \o c ELSE FirstEditClause(ls, i + 1)
RECURSIVE FirstRTClause(_, _, _)
FirstRTClause(ls, i, o) ==
    IF i > Len(lines) THEN ""
    ELSE LET c == RTLineClause(ls[i], lines[i].den, o.wp, o.nd) IN
         IF c # "" THEN "line" \o ToString(i) \o ":" \o c ELSE FirstRTClause(ls, i + 1, o)
RECURSIVE FirstReassignClause(_, _)
FirstReassignClause(ls, i) ==
    IF i > Len(lines) THEN ""
    ELSE LET c == RTLineClause(ls[i], OverDen(lines[i].den), TRUE, 3) IN
         IF c # "" THEN "line" \o ToString(i) \o ":" \o c ELSE FirstReassignClause(ls, i + 1)

AllExact(o) == \A i \in 1..Len(lines) : ExactUnder(lines[i].den, o)
RECURSIVE FirstRTsClause(_, _)
FirstRTsClause(rts, j) ==
    IF j > Len(rts) THEN ""
    ELSE LET r == rts[j]
             o == OptN(r.wp, r.wn, r.nd)
             c == IF ~Applicable(o) THEN "option"
                  ELSE IF r.raised THEN "rejected"
                  ELSE IF Len(r.lines) # Len(lines) THEN "nlines"
                  ELSE LET lc == FirstRTClause(r.lines, 1, o) IN
                       IF lc # "" THEN lc
                       ELSE IF AllExact(o) /\ ~r.eq THEN "not-equal"
                       ELSE ""
         IN  IF c # "" THEN "rt-" \o r.kind \o ":" \o c ELSE FirstRTsClause(rts, j + 1)

ObsClause(o) ==
    IF o.doc # doc THEN "text"
    ELSE IF o.klass # klass THEN "class"
    ELSE IF o.raised /\ fault = "none" THEN "unexpected-raise"
    ELSE IF ~o.raised /\ fault # "none" THEN "missing-raise"
    ELSE IF o.raised THEN ""
    ELSE IF Len(o.lines) # Len(lines) THEN "nlines"
    ELSE LET lc == FirstLineClause(o.lines, 1) IN
         IF lc # "" THEN lc
         ELSE IF IsSystem /\ SeqSet(o.substances) # SystemKeys THEN "substances"
         ELSE IF ~o.copy_eq THEN "copy-neq"
         ELSE IF Len(o.copy_lines) # Len(lines) \/ Len(o.after_lines) # Len(lines)
                 \/ Len(o.copy_over_lines) # Len(lines) THEN "copy-nlines"
         ELSE IF ~o.copy_indep THEN "copy-aliased"
         ELSE IF FirstLineClause(o.after_lines, 1) # "" THEN "copy-alias:" \o FirstLineClause(o.after_lines, 1)
         ELSE IF FirstOverClause(o.copy_over_lines, 1) # "" THEN "copy-over:" \o FirstOverClause(o.copy_over_lines, 1)
         ELSE IF ~o.twin_eq THEN "twin-neq"
         ELSE IF ~o.twin_indep THEN "twin-aliased"
         ELSE IF o.edit.low # EditLow \/ o.edit.high # EditHigh THEN "copy-edit-keys"
         ELSE IF Len(o.edit_lines) # Len(lines) THEN "copy-edit-nlines"
         ELSE IF ~o.edit_copy_eq THEN "copy-edit-neq"
         ELSE IF ~o.edit_str_eq THEN "copy-edit-text"
         ELSE IF FirstEditClause(o.edit_lines, 1) # "" THEN "copy-edit:" \o FirstEditClause(o.edit_lines, 1)
         ELSE LET cc == FirstLineClause(o.copy_lines, 1) IN
              IF cc # "" THEN "copy:" \o cc
              ELSE IF stage = "final"
                   THEN (IF \E q \in SeqSet(OptSeq) : ~\E j \in 1..Len(o.rts) : OptN(o.rts[j].wp, o.rts[j].wn, o.rts[j].nd) = q
                         THEN "no-rt"
                         ELSE IF FirstRTsClause(o.rts, 1) # "" THEN FirstRTsClause(o.rts, 1)
                         ELSE IF o.reassign.raised THEN "reassign:rejected"
                         ELSE IF Len(o.reassign.lines) # Len(lines) THEN "reassign:nlines"
                         ELSE IF FirstReassignClause(o.reassign.lines, 1) # "" THEN "reassign:" \o FirstReassignClause(o.reassign.lines, 1)
                         ELSE "")
              ELSE ""

ResultOK(e) == Terminal /\ ObsClause(e.obs) = ""

TStep ==
    /\ verdict = "none" /\ pos <= Len(Traces[tid])
    /\ IF Ev.k = "result"
       THEN ResultOK(Ev) /\ verdict' = "accept" /\ UNCHANGED vars
       ELSE Step(Ev) /\ verdict' = "none"
    /\ pos' = pos + 1 /\ UNCHANGED tid

TReject ==
    /\ verdict = "none" /\ ~ENABLED TStep
    /\ verdict' = "reject" /\ UNCHANGED <<vars, tid, pos>>

TNext == TStep \/ TReject

Clause ==
    IF pos > Len(Traces[tid]) THEN "no-result-event"
    ELSE LET e == Ev IN
      IF e.k # "result" THEN "step:" \o e.k
      ELSE IF ~Terminal THEN "notdone"
      ELSE ObsClause(e.obs)

Verdict == verdict # "none" =>
    PrintT(<<"VERDICT", tid, verdict, pos, IF verdict = "accept" THEN "" ELSE Clause>>)
=============================================================================
