---------------------------- MODULE ReactionText_MC ----------------------------
(* Constant definitions for the sliced exhaustive configurations of ReactionText.          *)
EXTENDS ReactionText

kA == Key("A", "")            kB == Key("B", "")          kHp == Key("H+", "")
kSO4 == Key("SO4-2", "")      kNH4 == Key("NH4+", "")     kAmS == Key("(NH4)2SO4", "(")
kAmSs == Key("(NH4)2SO4(s)", "(")                          kFe == Key("[Fe(CN)6]-4", "[")
kX == Key("{X}", "{")         kW == Key("H2O(l)", "")     kAp == Key("A'", "")
kBs == Key("B*", "")          kCO3 == Key("CO3-2(aq)", "") kPar == Key("(CH3)3COH", "(")

K6 == {kA, kHp, kSO4, kAmS, kFe, kX}
K8 == {kA, kHp, kSO4, kAmS, kFe, kX, kAp, kCO3}
K10 == K8 \cup {kAmSs, kBs}
K2 == {kA, kAmS}
K1p == {kAmS}
K2b == {kA, kB}
K3 == {kA, kB, kAmS}

I_2 == {Coef(2, 0, 0)}
I_q == {Coef(1, 0, 0), Coef(1000, 0, 0)}
I_t == {Coef(1, 0, 0), Coef(2, 0, 0), Coef(10, 0, 0), Coef(1000, 0, 0)}
D_q == {Coef(2, 1, 0), Coef(0, 4, 625)}
D_t == {Coef(0, 1, 5), Coef(1, 1, 5), Coef(2, 2, 25), Coef(0, 3, 125), Coef(2, 1, 0), Coef(0, 4, 625), Coef(1, 5, 3125)}
N_q == {Coef(2, 0, 0), Coef(0, 1, 5)}
N_t == {Coef(1, 0, 0), Coef(2, 0, 0), Coef(1000, 0, 0), Coef(0, 1, 5)}
None == {}

P(neg, digs, e, st) == [kind |-> "num", v |-> Dec(neg, digs, e), style |-> st]
PQ(digs, e, st, ex) == [kind |-> "qty", v |-> Dec(FALSE, digs, e), style |-> st,
                        ue |-> CHOOSE u \in UnitExprs : u.expr = ex]
PS(name) == [kind |-> "sym", name |-> name]
P_one == {P(FALSE, <<1, 5>>, 0, "fix")}
\* parameters over 30 decades: integers, fixed and scientific notation, more than three digits,
\* ties at the third digit, all nines (carry when printed), negative
P_few == { P(FALSE, <<3>>, 0, "int"), P(FALSE, <<1, 5>>, 0, "fix"), P(FALSE, <<1, 2, 3, 4, 5, 6>>, -17, "sci"),
           P(FALSE, <<1>>, 10, "sci"), P(FALSE, <<9, 9, 9, 6>>, 2, "fix"), P(FALSE, <<1, 2, 3, 4, 5, 6>>, 5, "int") }
P_all == P_few \cup
         { P(FALSE, <<1>>, e, "sci") : e \in {-15, -7, -4, 0, 3, 8, 15} } \cup
         { P(FALSE, <<2, 5>>, e, "sci") : e \in {-12, -5, -1, 2, 6, 14} } \cup
         { P(FALSE, <<1, 2, 3, 4, 5, 6, 7, 8, 9>>, e, "sci") : e \in {-15, -3, 0, 4, 12} } \cup
         { P(FALSE, <<9, 9, 9, 5, 1>>, e, "sci") : e \in {-9, 2} } \cup
         { P(FALSE, <<1, 2, 3, 5>>, e, "sci") : e \in {-2, 7} } \cup
         { P(FALSE, <<1, 0, 0, 0>>, 3, "int"), P(FALSE, <<2, 5>>, -3, "fix"), P(FALSE, <<1, 2, 5>>, 1, "fix"),
           P(TRUE, <<2, 5>>, 0, "fix"), P(FALSE, <<1, 0, 0, 4, 9>>, 4, "int"), P(FALSE, <<7>>, -6, "fix") }
W_all == { [k |-> "ref", v |-> "doi:12/ab"], [k |-> "name", v |-> "r1"] }
W_ref == { [k |-> "ref", v |-> "doi:12/ab"] }
Cm(t, tok) == [t |-> t, tok |-> tok]
C_q == {Cm("# a comment", "#")}
C_t == {Cm("# a comment", "#"), Cm("   # A -> B; 1", "#"), Cm("", "")}
\* comment lines for the comment_tokens dimension: each token, indented, blank
C_tok == {Cm("# a comment", "#"), Cm("// note", "//"), Cm("  % A -> B; 1", "%"), Cm("  ", "")}
A_AB == {"A", "(NH4)2SO4"}
A_AB2 == {"A", "B"}
F_unk == {"unknownkey"}
Yes == {TRUE}
No == {FALSE}
YesNo == {TRUE, FALSE}
O_all == AllPrintOpts
O_def == {Opt(TRUE, TRUE)}
O_two == {Opt(TRUE, TRUE), Opt(FALSE, FALSE)}
W_name == { [k |-> "name", v |-> "r1"] }
\* parameter spellings and kinds beyond plain literals: printf-style and upper-case exponents,
\* 10**k, quantities of the default parsing context, quoted names
P_kinds == { P(FALSE, <<1, 5>>, 7, "sciP"), P(FALSE, <<1, 2, 3, 4, 5, 6>>, -17, "sciP"), P(FALSE, <<2, 5>>, -3, "sciE"),
             P(FALSE, <<1>>, 3, "pow10"), P(FALSE, <<1>>, 0, "pow10"), P(FALSE, <<1, 5>>, 0, "fix"),
             PQ(<<1>>, 8, "sci", "/molar/second"), PQ(<<2, 5>>, 0, "fix", "/second"), PQ(<<1, 2, 3, 4, 5>>, -4, "sciP", "*molar"),
             PQ(<<3>>, 0, "int", "/molar**2/second"), PS("k"), PS("k_fwd1") }
P_zero == { [kind |-> "num", v |-> DZero, style |-> "zero"], [kind |-> "num", v |-> DZero, style |-> "zerof"] }
P_fk == P_few \cup P_kinds \cup P_zero
P_ak == P_all \cup P_kinds \cup P_zero
P_cfg == { [kind |-> "num", v |-> DZero, style |-> "zero"], P(FALSE, <<1, 5>>, 0, "fix"), P(FALSE, <<1, 2, 3, 4, 5, 6>>, -17, "sci"), PS("k"),
           PQ(<<1>>, 8, "sci", "/molar/second") }
Fm_all == {"list", "tuple", "set", "dict", "str", "alias"}
Fm_la == {"list", "alias"}
Fm_list == {"list"}
\* configurations: one dimension varied at a time, plus two combinations
Cfg(spc, eol, g, ct, ms, dq) == [DefaultCfg EXCEPT !.spc = spc, !.eol = eol, !.gmode = g, !.ctoks = ct, !.msfk = ms, !.dq = dq]
ArgP == [some |-> TRUE, v |-> Dec(FALSE, <<2, 5>>, 0)]
Cfg_none == {}
Cfg_dc == [DefaultCfg EXCEPT !.chk = "dontcheck"]
Cfg_read == { Cfg_dc, Cfg("wide", "lf", "default", "default", FALSE, FALSE), Cfg("tight", "lf", "default", "default", FALSE, TRUE),
              Cfg("normal", "lfnt", "default", "default", FALSE, FALSE), Cfg("normal", "crlf", "default", "default", FALSE, FALSE),
              Cfg("normal", "lf", "empty", "default", FALSE, FALSE), Cfg("normal", "lf", "none", "default", FALSE, FALSE),
              Cfg("wide", "crlf", "none", "default", FALSE, TRUE),
              [DefaultCfg EXCEPT !.argname = "n1"], [DefaultCfg EXCEPT !.argref = "r9", !.argparam = ArgP],
              [DefaultCfg EXCEPT !.argname = "n1", !.argref = "r9", !.gmode = "none", !.argparam = ArgP] }
Cfg_sys == { Cfg_dc, Cfg("normal", "lf", "default", "custom", FALSE, FALSE), Cfg("wide", "crlf", "default", "custom", FALSE, FALSE),
             Cfg("normal", "lfnt", "default", "default", TRUE, FALSE), Cfg("normal", "lf", "none", "custom", TRUE, FALSE) }
Cfg_one == { Cfg("wide", "crlf", "default", "custom", FALSE, TRUE) }
C_two == {Cm("# a comment", "#"), Cm("// note", "//")}
F_all4 == {"unknownkey", "missingarrow", "wrongarrow", "notacomment"}
F_cmt == {"notacomment", "unknownkey"}
F_all == {"unknownkey", "missingarrow", "wrongarrow"}
\* the slices (one record per former configuration file)
SL_coefs_q == [Keys |-> K1p, AllowedKeys |-> None, AllowedModes |-> No, AllowedForms |-> Fm_list, Forms |-> {"bare", "n", "nstar", "dec", "decstar"}, IntCoefs |-> I_q, DecCoefs |-> D_q, InactCoefs |-> N_q, MaxReac |-> 2, MaxProd |-> 1, MaxInact |-> 1, Arrows |-> {"->"}, Params |-> None, Kws |-> None, MaxLines |-> 1, Comments |-> None, MaxComments |-> 0, FaultKinds |-> None, PrintOpts |-> O_two, Configs |-> Cfg_none]
SL_coefs_t == [Keys |-> K1p, AllowedKeys |-> None, AllowedModes |-> No, AllowedForms |-> Fm_list, Forms |-> {"bare", "n", "nstar", "dec", "decstar"}, IntCoefs |-> I_t, DecCoefs |-> D_t, InactCoefs |-> N_t, MaxReac |-> 2, MaxProd |-> 1, MaxInact |-> 1, Arrows |-> {"->"}, Params |-> None, Kws |-> None, MaxLines |-> 1, Comments |-> None, MaxComments |-> 0, FaultKinds |-> None, PrintOpts |-> O_two, Configs |-> Cfg_none]
SL_config_q == [Keys |-> K2b, AllowedKeys |-> A_AB2, AllowedModes |-> No, AllowedForms |-> Fm_list, Forms |-> {"bare", "n"}, IntCoefs |-> I_2, DecCoefs |-> None, InactCoefs |-> I_2, MaxReac |-> 1, MaxProd |-> 1, MaxInact |-> 1, Arrows |-> {"->"}, Params |-> P_cfg, Kws |-> W_ref, MaxLines |-> 1, Comments |-> None, MaxComments |-> 0, FaultKinds |-> None, PrintOpts |-> O_two, Configs |-> Cfg_read]
SL_config_t == [Keys |-> K2b, AllowedKeys |-> A_AB2, AllowedModes |-> YesNo, AllowedForms |-> Fm_list, Forms |-> {"bare", "n"}, IntCoefs |-> I_2, DecCoefs |-> None, InactCoefs |-> I_2, MaxReac |-> 1, MaxProd |-> 1, MaxInact |-> 1, Arrows |-> {"->", "="}, Params |-> P_cfg, Kws |-> W_all, MaxLines |-> 1, Comments |-> None, MaxComments |-> 0, FaultKinds |-> None, PrintOpts |-> O_two, Configs |-> Cfg_read]
SL_configsys_q == [Keys |-> K2, AllowedKeys |-> A_AB2, AllowedModes |-> YesNo, AllowedForms |-> Fm_la, Forms |-> {"bare"}, IntCoefs |-> None, DecCoefs |-> None, InactCoefs |-> None, MaxReac |-> 1, MaxProd |-> 1, MaxInact |-> 0, Arrows |-> {"->"}, Params |-> P_one, Kws |-> None, MaxLines |-> 2, Comments |-> C_tok, MaxComments |-> 1, FaultKinds |-> F_cmt, PrintOpts |-> O_two, Configs |-> Cfg_sys]
SL_configsys_t == [Keys |-> K2, AllowedKeys |-> A_AB2, AllowedModes |-> YesNo, AllowedForms |-> Fm_la, Forms |-> {"bare"}, IntCoefs |-> None, DecCoefs |-> None, InactCoefs |-> None, MaxReac |-> 1, MaxProd |-> 1, MaxInact |-> 0, Arrows |-> {"->", "="}, Params |-> P_one, Kws |-> None, MaxLines |-> 2, Comments |-> C_tok, MaxComments |-> 1, FaultKinds |-> F_cmt, PrintOpts |-> O_two, Configs |-> Cfg_sys]
SL_cover == [Keys |-> K2b, AllowedKeys |-> A_AB, AllowedModes |-> Yes, AllowedForms |-> Fm_list, Forms |-> {"bare"}, IntCoefs |-> I_2, DecCoefs |-> None, InactCoefs |-> I_2, MaxReac |-> 1, MaxProd |-> 1, MaxInact |-> 1, Arrows |-> {"->"}, Params |-> P_one, Kws |-> W_ref, MaxLines |-> 2, Comments |-> C_two, MaxComments |-> 1, FaultKinds |-> F_all4, PrintOpts |-> O_all, Configs |-> Cfg_one]
SL_faults2_q == [Keys |-> K3, AllowedKeys |-> A_AB2, AllowedModes |-> Yes, AllowedForms |-> Fm_all, Forms |-> {"bare", "n"}, IntCoefs |-> I_2, DecCoefs |-> None, InactCoefs |-> I_2, MaxReac |-> 1, MaxProd |-> 1, MaxInact |-> 1, Arrows |-> {"->", "="}, Params |-> None, Kws |-> None, MaxLines |-> 1, Comments |-> None, MaxComments |-> 0, FaultKinds |-> F_all, PrintOpts |-> O_two, Configs |-> Cfg_none]
SL_emptylist_q == [Keys |-> K3, AllowedKeys |-> None, AllowedModes |-> Yes, AllowedForms |-> {"list", "tuple", "set", "dict"}, Forms |-> {"bare", "n"}, IntCoefs |-> I_2, DecCoefs |-> None, InactCoefs |-> I_2, MaxReac |-> 1, MaxProd |-> 1, MaxInact |-> 1, Arrows |-> {"->", "="}, Params |-> None, Kws |-> None, MaxLines |-> 1, Comments |-> None, MaxComments |-> 0, FaultKinds |-> F_unk, PrintOpts |-> O_two, Configs |-> Cfg_none]
SL_faults_q == [Keys |-> K3, AllowedKeys |-> A_AB, AllowedModes |-> Yes, AllowedForms |-> Fm_list, Forms |-> {"bare", "n"}, IntCoefs |-> I_2, DecCoefs |-> None, InactCoefs |-> I_2, MaxReac |-> 2, MaxProd |-> 1, MaxInact |-> 1, Arrows |-> {"->", "="}, Params |-> None, Kws |-> None, MaxLines |-> 1, Comments |-> None, MaxComments |-> 0, FaultKinds |-> F_all, PrintOpts |-> O_two, Configs |-> Cfg_none]
SL_faults_t == [Keys |-> K3, AllowedKeys |-> A_AB, AllowedModes |-> YesNo, AllowedForms |-> Fm_list, Forms |-> {"bare", "n"}, IntCoefs |-> I_2, DecCoefs |-> None, InactCoefs |-> I_2, MaxReac |-> 2, MaxProd |-> 1, MaxInact |-> 1, Arrows |-> {"->", "="}, Params |-> P_one, Kws |-> None, MaxLines |-> 1, Comments |-> None, MaxComments |-> 0, FaultKinds |-> F_all, PrintOpts |-> O_two, Configs |-> Cfg_none]
SL_keys_q == [Keys |-> K6, AllowedKeys |-> None, AllowedModes |-> No, AllowedForms |-> Fm_list, Forms |-> {"bare", "n"}, IntCoefs |-> I_2, DecCoefs |-> None, InactCoefs |-> I_2, MaxReac |-> 2, MaxProd |-> 1, MaxInact |-> 1, Arrows |-> {"->"}, Params |-> None, Kws |-> None, MaxLines |-> 1, Comments |-> None, MaxComments |-> 0, FaultKinds |-> None, PrintOpts |-> O_two, Configs |-> Cfg_none]
SL_keys_t == [Keys |-> K10, AllowedKeys |-> None, AllowedModes |-> No, AllowedForms |-> Fm_list, Forms |-> {"bare", "n"}, IntCoefs |-> I_2, DecCoefs |-> None, InactCoefs |-> I_2, MaxReac |-> 2, MaxProd |-> 1, MaxInact |-> 1, Arrows |-> {"->", "="}, Params |-> None, Kws |-> None, MaxLines |-> 1, Comments |-> None, MaxComments |-> 0, FaultKinds |-> None, PrintOpts |-> O_two, Configs |-> Cfg_none]
SL_params_q == [Keys |-> K2b, AllowedKeys |-> None, AllowedModes |-> No, AllowedForms |-> Fm_list, Forms |-> {"bare"}, IntCoefs |-> None, DecCoefs |-> None, InactCoefs |-> None, MaxReac |-> 1, MaxProd |-> 1, MaxInact |-> 0, Arrows |-> {"->", "="}, Params |-> P_few, Kws |-> W_all, MaxLines |-> 1, Comments |-> None, MaxComments |-> 0, FaultKinds |-> None, PrintOpts |-> O_all, Configs |-> Cfg_none]
SL_params_t == [Keys |-> K2b, AllowedKeys |-> None, AllowedModes |-> No, AllowedForms |-> Fm_list, Forms |-> {"bare", "n"}, IntCoefs |-> I_2, DecCoefs |-> None, InactCoefs |-> None, MaxReac |-> 1, MaxProd |-> 1, MaxInact |-> 0, Arrows |-> {"->", "="}, Params |-> P_all, Kws |-> W_all, MaxLines |-> 1, Comments |-> None, MaxComments |-> 0, FaultKinds |-> None, PrintOpts |-> O_all, Configs |-> Cfg_none]
SL_pkinds_q == [Keys |-> K2b, AllowedKeys |-> None, AllowedModes |-> No, AllowedForms |-> Fm_list, Forms |-> {"bare", "n"}, IntCoefs |-> I_2, DecCoefs |-> None, InactCoefs |-> None, MaxReac |-> 1, MaxProd |-> 1, MaxInact |-> 0, Arrows |-> {"->", "="}, Params |-> P_fk, Kws |-> W_all, MaxLines |-> 1, Comments |-> None, MaxComments |-> 0, FaultKinds |-> None, PrintOpts |-> O_all, Configs |-> Cfg_none]
SL_pkinds_t == [Keys |-> K2b, AllowedKeys |-> None, AllowedModes |-> No, AllowedForms |-> Fm_list, Forms |-> {"bare", "n"}, IntCoefs |-> I_2, DecCoefs |-> None, InactCoefs |-> None, MaxReac |-> 1, MaxProd |-> 1, MaxInact |-> 0, Arrows |-> {"->", "="}, Params |-> P_ak, Kws |-> W_all, MaxLines |-> 1, Comments |-> None, MaxComments |-> 0, FaultKinds |-> None, PrintOpts |-> O_all, Configs |-> Cfg_none]
SL_system2_t == [Keys |-> K2b, AllowedKeys |-> None, AllowedModes |-> No, AllowedForms |-> Fm_list, Forms |-> {"bare", "n"}, IntCoefs |-> I_2, DecCoefs |-> None, InactCoefs |-> I_2, MaxReac |-> 1, MaxProd |-> 1, MaxInact |-> 1, Arrows |-> {"->", "="}, Params |-> P_one, Kws |-> W_ref, MaxLines |-> 2, Comments |-> C_q, MaxComments |-> 1, FaultKinds |-> None, PrintOpts |-> O_all, Configs |-> Cfg_none]
SL_system3_q == [Keys |-> K2b, AllowedKeys |-> None, AllowedModes |-> No, AllowedForms |-> Fm_list, Forms |-> {"bare"}, IntCoefs |-> I_2, DecCoefs |-> None, InactCoefs |-> None, MaxReac |-> 1, MaxProd |-> 1, MaxInact |-> 0, Arrows |-> {"="}, Params |-> P_one, Kws |-> W_name, MaxLines |-> 2, Comments |-> None, MaxComments |-> 0, FaultKinds |-> None, PrintOpts |-> O_all, Configs |-> Cfg_none]
SL_system_q == [Keys |-> K2b, AllowedKeys |-> None, AllowedModes |-> No, AllowedForms |-> Fm_list, Forms |-> {"bare"}, IntCoefs |-> I_2, DecCoefs |-> None, InactCoefs |-> None, MaxReac |-> 1, MaxProd |-> 1, MaxInact |-> 0, Arrows |-> {"->", "="}, Params |-> P_one, Kws |-> W_name, MaxLines |-> 2, Comments |-> C_q, MaxComments |-> 1, FaultKinds |-> None, PrintOpts |-> O_all, Configs |-> Cfg_none]
SL_system_t == [Keys |-> K2b, AllowedKeys |-> None, AllowedModes |-> No, AllowedForms |-> Fm_list, Forms |-> {"bare"}, IntCoefs |-> None, DecCoefs |-> None, InactCoefs |-> None, MaxReac |-> 1, MaxProd |-> 1, MaxInact |-> 0, Arrows |-> {"->", "="}, Params |-> P_one, Kws |-> None, MaxLines |-> 3, Comments |-> C_t, MaxComments |-> 1, FaultKinds |-> None, PrintOpts |-> O_all, Configs |-> Cfg_none]
AllSlices == ("emptylist_q" :> SL_emptylist_q) @@ ("coefs_q" :> SL_coefs_q) @@ ("coefs_t" :> SL_coefs_t) @@ ("config_q" :> SL_config_q) @@ ("config_t" :> SL_config_t) @@ ("configsys_q" :> SL_configsys_q) @@ ("configsys_t" :> SL_configsys_t) @@ ("cover" :> SL_cover) @@ ("faults2_q" :> SL_faults2_q) @@ ("faults_q" :> SL_faults_q) @@ ("faults_t" :> SL_faults_t) @@ ("keys_q" :> SL_keys_q) @@ ("keys_t" :> SL_keys_t) @@ ("params_q" :> SL_params_q) @@ ("params_t" :> SL_params_t) @@ ("pkinds_q" :> SL_pkinds_q) @@ ("pkinds_t" :> SL_pkinds_t) @@ ("system2_t" :> SL_system2_t) @@ ("system3_q" :> SL_system3_q) @@ ("system_q" :> SL_system_q) @@ ("system_t" :> SL_system_t)
QuickNames == {"keys_q", "coefs_q", "pkinds_q", "system_q", "config_q", "configsys_q", "faults2_q", "emptylist_q"}
=============================================================================
