---------------------------- MODULE ReactionText_MC ----------------------------
(* Constant definitions for the sliced exhaustive configurations of ReactionText.          *)
EXTENDS ReactionText

kA == Key("A", "")            kB == Key("B", "")          kHp == Key("H+", "")
kSO4 == Key("SO4-2", "")      kNH4 == Key("NH4+", "")     kAmS == Key("(NH4)2SO4", "(")
kAmSs == Key("(NH4)2SO4(s)", "(")                          kFe == Key("[Fe(CN)6]-4", "[")
kX == Key("{X}", "{")         kW == Key("H2O(l)", "")     kAp == Key("A'", "")
kBs == Key("B*", "")          kCO3 == Key("CO3-2(aq)", "") kPar == Key("(CH3)3COH", "(")

K6 == {kA, kHp, kSO4, kAmS, kFe, kX}
K8 == {kA, kHp, kSO4, kAmS, kFe, kX, kAp, kCO3}
K10 == K8 \cup {kAmSs, kBs}
K2 == {kA, kAmS}
K2b == {kA, kB}
K3 == {kA, kB, kAmS}

I_2 == {Coef(2, 0, 0)}
I_q == {Coef(1, 0, 0), Coef(2, 0, 0), Coef(1000, 0, 0)}
I_t == {Coef(1, 0, 0), Coef(2, 0, 0), Coef(10, 0, 0), Coef(1000, 0, 0)}
D_q == {Coef(2, 2, 25)}
D_t == {Coef(0, 1, 5), Coef(1, 1, 5), Coef(2, 2, 25), Coef(0, 3, 125)}
N_q == {Coef(2, 0, 0), Coef(0, 1, 5)}
N_t == {Coef(1, 0, 0), Coef(2, 0, 0), Coef(1000, 0, 0), Coef(0, 1, 5)}
None == {}

P(neg, digs, e, st) == [v |-> Dec(neg, digs, e), style |-> st]
P_one == {P(FALSE, <<1, 5>>, 0, "fix")}
\* parameters over 30 decades: integers, fixed and scientific notation, more than three digits,
\* ties at the third digit, all nines (carry when printed), negative
P_few == { P(FALSE, <<3>>, 0, "int"), P(FALSE, <<1, 5>>, 0, "fix"), P(FALSE, <<1, 2, 3, 4, 5, 6>>, -17, "sci"),
           P(FALSE, <<1>>, 10, "sci"), P(FALSE, <<9, 9, 9, 6>>, 2, "fix"), P(FALSE, <<1, 2, 3, 4, 5, 6>>, 5, "int") }
P_all == P_few \cup
         { P(FALSE, <<1>>, e, "sci") : e \in {-15, -7, -4, 0, 3, 8, 15} } \cup
         { P(FALSE, <<2, 5>>, e, "sci") : e \in {-12, -5, -1, 2, 6, 14} } \cup
         { P(FALSE, <<1, 2, 3, 4, 5, 6, 7, 8, 9>>, e, "sci") : e \in {-15, -3, 0, 4, 12} } \cup
         { P(FALSE, <<9, 9, 9, 5, 1>>, e, "sci") : e \in {-9, 2} } \cup
         { P(FALSE, <<1, 2, 3, 5>>, e, "sci") : e \in {-2, 7} } \cup
         { P(FALSE, <<1, 0, 0, 0>>, 3, "int"), P(FALSE, <<2, 5>>, -3, "fix"), P(FALSE, <<1, 2, 5>>, 1, "fix"),
           P(TRUE, <<2, 5>>, 0, "fix"), P(FALSE, <<1, 0, 0, 4, 9>>, 4, "int"), P(FALSE, <<7>>, -6, "fix") }
W_all == { [k |-> "ref", v |-> "doi:12/ab"], [k |-> "name", v |-> "r1"] }
W_ref == { [k |-> "ref", v |-> "doi:12/ab"] }
C_q == {"# a comment"}
C_t == {"# a comment", "   # A -> B; 1", ""}
A_AB == {"A", "(NH4)2SO4"}
A_AB2 == {"A", "B"}
F_unk == {"unknownkey"}
Yes == {TRUE}
No == {FALSE}
YesNo == {TRUE, FALSE}
O_all == AllPrintOpts
O_def == {Opt(TRUE, TRUE)}
O_two == {Opt(TRUE, TRUE), Opt(FALSE, FALSE)}
W_name == { [k |-> "name", v |-> "r1"] }
F_all == {"unknownkey", "missingarrow", "wrongarrow"}
=============================================================================
