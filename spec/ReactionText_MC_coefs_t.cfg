INIT Init
NEXT Next
CONSTANTS
  Keys <- K2
  AllowedKeys <- None
  AllowedModes <- No
  Forms = {"bare", "n", "nstar", "dec"}
  IntCoefs <- I_t
  DecCoefs <- D_t
  InactCoefs <- N_t
  MaxReac = 2
  MaxProd = 1
  MaxInact = 1
  Arrows = {"->"}
  Params <- None
  Kws <- None
  MaxLines = 1
  Comments <- None
  MaxComments = 0
  PrintOpts <- O_two
  FaultKinds <- None
INVARIANT TypeOK
INVARIANT RepeatedSpeciesSummed
INVARIANT InactiveNeverActive
INVARIANT ParsePrintIdentity
INVARIANT Emit
CHECK_DEADLOCK FALSE
