INIT Init
NEXT Next
CONSTANTS
  Keys <- K2b
  AllowedKeys <- A_AB
  AllowedModes <- Yes
  Forms = {"bare"}
  IntCoefs <- I_2
  DecCoefs <- None
  InactCoefs <- I_2
  MaxReac = 1
  MaxProd = 1
  MaxInact = 1
  Arrows = {"->"}
  Params <- P_one
  Kws <- W_ref
  MaxLines = 2
  Comments <- C_q
  MaxComments = 1
  PrintOpts <- O_all
  FaultKinds <- F_all
INVARIANT TypeOK
INVARIANT RepeatedSpeciesSummed
INVARIANT InactiveNeverActive
INVARIANT ParsePrintIdentity
INVARIANT Emit
CHECK_DEADLOCK FALSE
