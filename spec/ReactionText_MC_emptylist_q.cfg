INIT Init
NEXT Next
CONSTANTS
  SliceTable <- AllSlices
  SliceNames = {"emptylist_q"}
INVARIANT TypeOK
INVARIANT RepeatedSpeciesSummed
INVARIANT InactiveNeverActive
INVARIANT ParsePrintIdentity
INVARIANT TextWins
INVARIANT Emit
CHECK_DEADLOCK FALSE
