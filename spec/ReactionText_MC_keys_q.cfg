INIT Init
NEXT Next
CONSTANTS
  Keys <- K6
  AllowedKeys <- None
  AllowedModes <- No
  Forms = {"bare", "n"}
  IntCoefs <- I_2
  DecCoefs <- None
  InactCoefs <- I_2
  MaxReac = 2
  MaxProd = 1
  MaxInact = 1
  Arrows = {"->"}
  Params <- None
  Kws <- None
  MaxLines = 1
  Comments <- None
  MaxComments = 0
  PrintOpts <- O_two
  FaultKinds <- None
INVARIANT TypeOK
INVARIANT RepeatedSpeciesSummed
INVARIANT InactiveNeverActive
INVARIANT ParsePrintIdentity
INVARIANT Emit
CHECK_DEADLOCK FALSE
