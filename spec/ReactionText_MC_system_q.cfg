INIT Init
NEXT Next
CONSTANTS
  Keys <- K2b
  AllowedKeys <- None
  AllowedModes <- No
  Forms = {"bare", "n"}
  IntCoefs <- I_2
  DecCoefs <- None
  InactCoefs <- None
  MaxReac = 1
  MaxProd = 1
  MaxInact = 0
  Arrows = {"->"}
  Params <- P_one
  Kws <- W_name
  MaxLines = 2
  Comments <- C_q
  MaxComments = 1
  PrintOpts <- O_all
  FaultKinds <- None
INVARIANT TypeOK
INVARIANT RepeatedSpeciesSummed
INVARIANT InactiveNeverActive
INVARIANT ParsePrintIdentity
INVARIANT Emit
CHECK_DEADLOCK FALSE
