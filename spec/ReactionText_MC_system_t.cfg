INIT Init
NEXT Next
CONSTANTS
  Keys <- K2b
  AllowedKeys <- None
  AllowedModes <- No
  Forms = {"bare"}
  IntCoefs <- None
  DecCoefs <- None
  InactCoefs <- None
  MaxReac = 1
  MaxProd = 1
  MaxInact = 0
  Arrows = {"->", "="}
  Params <- P_one
  Kws <- None
  MaxLines = 3
  Comments <- C_t
  MaxComments = 2
  PrintOpts <- O_all
  FaultKinds <- None
INVARIANT TypeOK
INVARIANT RepeatedSpeciesSummed
INVARIANT InactiveNeverActive
INVARIANT ParsePrintIdentity
INVARIANT Emit
CHECK_DEADLOCK FALSE
