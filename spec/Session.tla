---------------------------- MODULE Session ----------------------------
(* Integration specification: one user-level session from TEXT to RESULT ARRAYS.              *)
(*                                                                                            *)
(*   write reaction lines  ->  build the system (admitted iff every line is balanced in       *)
(*   every element and in charge)  ->  choose a state  ->  read rates  ->  explicit Euler     *)
(*   steps  ->  structural split  ->  print and re-read.                                      *)
(*                                                                                            *)
(* Cross-module laws checked on the model and then, behaviour by behaviour, on the real API:  *)
(*   ConservedAlongSteps   every system built from text conserves every composition key of    *)
(*                         every substance total along every Euler step (action property)     *)
(*   AdmittedIffBalanced   Build succeeds exactly when all lines are balanced                 *)
(*   RatesSumContributions the rate of a substance is the sum over lines of net x k x prod    *)
(*   SplitPartitionsLines  components partition the lines and are closed under shared species *)
(* Species and lines come from a fixed pool so that the spec knows their compositions; the    *)
(* binding layer obtains compositions only by parsing the formula TEXT with the real parser.  *)
EXTENDS Integers, Sequences, FiniteSets, FiniteSetsExt, SequencesExt, TLC, Json, Rational

CONSTANTS MaxLines, MaxSteps, KVals, CVals, HVals

(* ---- pool: formula text and composition (key 0 = charge) *)
Sp == <<
    [txt |-> "H2O",  comp |-> (1 :> 2) @@ (8 :> 1)],
    [txt |-> "H+",   comp |-> (0 :> 1) @@ (1 :> 1)],
    [txt |-> "OH-",  comp |-> (0 :> -1) @@ (1 :> 1) @@ (8 :> 1)],
    [txt |-> "H2",   comp |-> (1 :> 2)],
    [txt |-> "O2",   comp |-> (8 :> 2)],
    [txt |-> "H2O2", comp |-> (1 :> 2) @@ (8 :> 2)],
    [txt |-> "Fe+3", comp |-> (0 :> 3) @@ (26 :> 1)],
    [txt |-> "Fe+2", comp |-> (0 :> 2) @@ (26 :> 1)],
    [txt |-> "e-",   comp |-> (0 :> -1)] >>
NSp == Len(Sp)
AllKeys == {0, 1, 8, 26}
CompOf(s, key) == IF key \in DOMAIN Sp[s].comp THEN Sp[s].comp[key] ELSE 0

(* ---- line templates: sequences of <<species, coefficient>> per side *)
Tmpl == <<
    [reac |-> << <<1, 1>> >>,              prod |-> << <<2, 1>>, <<3, 1>> >>],   \* H2O -> H+ + OH-
    [reac |-> << <<2, 1>>, <<3, 1>> >>,    prod |-> << <<1, 1>> >>],             \* H+ + OH- -> H2O
    [reac |-> << <<4, 2>>, <<5, 1>> >>,    prod |-> << <<1, 2>> >>],             \* 2 H2 + O2 -> 2 H2O
    [reac |-> << <<6, 2>> >>,              prod |-> << <<1, 2>>, <<5, 1>> >>],   \* 2 H2O2 -> 2 H2O + O2
    [reac |-> << <<7, 1>>, <<9, 1>> >>,    prod |-> << <<8, 1>> >>],             \* Fe+3 + e- -> Fe+2
    [reac |-> << <<8, 1>> >>,              prod |-> << <<7, 1>> >>],             \* Fe+2 -> Fe+3        (charge only)
    [reac |-> << <<4, 1>>, <<5, 1>> >>,    prod |-> << <<1, 1>> >>],             \* H2 + O2 -> H2O      (oxygen)
    [reac |-> << <<6, 1>> >>,              prod |-> << <<1, 1>> >>],             \* H2O2 -> H2O         (oxygen)
    [reac |-> << <<8, 1>>, <<6, 1>> >>,    prod |-> << <<7, 1>>, <<3, 1>> >>] >> \* Fe+2 + H2O2 -> Fe+3 + OH-  (O,H,charge)
NT == Len(Tmpl)

VARIABLES lines, built, c, step, hist
vars == <<lines, built, c, step, hist>>
\* lines : sequence of [t, k]   built : "no" | "yes" | "rejected"   c : species -> rational

(* ---- text *)
Term(p) == (IF p[2] = 1 THEN "" ELSE ToString(p[2]) \o " ") \o Sp[p[1]].txt
RECURSIVE SideText(_)
SideText(s) == IF Len(s) = 1 THEN Term(s[1]) ELSE Term(Head(s)) \o " + " \o SideText(Tail(s))
LineText(l) == SideText(Tmpl[l.t].reac) \o " -> " \o SideText(Tmpl[l.t].prod) \o "; " \o ToString(l.k)
RECURSIVE Joined(_)
Joined(ls) == IF ls = <<>> THEN "" ELSE LineText(Head(ls)) \o "\n" \o Joined(Tail(ls))

(* ---- stoichiometry *)
CoefIn(side, s) == LET hits == { i \in 1..Len(side) : side[i][1] = s }
                   IN  IF hits = {} THEN 0 ELSE side[CHOOSE i \in hits : TRUE][2]
Net(t, s) == CoefIn(Tmpl[t].prod, s) - CoefIn(Tmpl[t].reac, s)
KeyChange(t, key) == FoldSet(LAMBDA s, acc : acc + Net(t, s) * CompOf(s, key), 0, 1..NSp)
Balanced(t) == \A key \in AllKeys : KeyChange(t, key) = 0
AllBalanced == \A i \in 1..Len(lines) : Balanced(lines[i].t)
SpeciesOf(t) == { Tmpl[t].reac[i][1] : i \in 1..Len(Tmpl[t].reac) } \cup { Tmpl[t].prod[i][1] : i \in 1..Len(Tmpl[t].prod) }
Present == UNION { SpeciesOf(lines[i].t) : i \in 1..Len(lines) }

(* ---- kinetics *)
RateOfLine(l, cc) == QMul(Q(l.k),
    FoldSet(LAMBDA i, acc : QMul(acc, QPow(cc[Tmpl[l.t].reac[i][1]], Tmpl[l.t].reac[i][2])), QOne,
            1..Len(Tmpl[l.t].reac)))
RateOf(s, cc) == FoldSet(LAMBDA i, acc : QAdd(acc, QMul(Q(Net(lines[i].t, s)), RateOfLine(lines[i], cc))),
                         QZero, 1..Len(lines))
Total(key, cc) == FoldSet(LAMBDA s, acc : QAdd(acc, QMul(Q(CompOf(s, key)), cc[s])), QZero, Present)

(* ---- structure: connected components of lines through shared species *)
Linked(i, j) == SpeciesOf(lines[i].t) \cap SpeciesOf(lines[j].t) # {}
RECURSIVE Grow(_)
Grow(S) == LET T == S \cup { j \in 1..Len(lines) : \E i \in S : Linked(i, j) }
           IN  IF T = S THEN S ELSE Grow(T)
Components == { Grow({i}) : i \in 1..Len(lines) }

(* ---- actions *)
Init == lines = <<>> /\ built = "no" /\ c = <<>> /\ step = 0 /\ hist = <<>>

AddLine(t, k) ==
    /\ built = "no" /\ Len(lines) < MaxLines /\ t \in 1..NT
    /\ \A i \in 1..Len(lines) : lines[i].t # t      \* the constructor's duplicate check is not modelled
    /\ lines' = Append(lines, [t |-> t, k |-> k])
    /\ hist' = Append(hist, [a |-> "AddLine", text |-> LineText([t |-> t, k |-> k])])
    /\ UNCHANGED <<built, c, step>>

Build ==
    /\ built = "no" /\ lines # <<>>
    /\ built' = IF AllBalanced THEN "yes" ELSE "rejected"
    /\ hist' = Append(hist, [a |-> "Build", text |-> Joined(lines), accepted |-> AllBalanced,
                             \* TextRoundTrip: printing the admitted system gives back the text it was read from
                             printed |-> IF AllBalanced THEN Joined(lines) ELSE "",
                             substances |-> { Sp[s].txt : s \in Present },
                             components |-> IF AllBalanced THEN { { Sp[s].txt : s \in UNION { SpeciesOf(lines[i].t) : i \in g } }
                                                                  : g \in Components } ELSE {}])
    /\ UNCHANGED <<lines, c, step>>

SetState(f) ==
    /\ built = "yes" /\ c = <<>>
    /\ c' = [s \in Present |-> Q(f[s])]
    /\ hist' = Append(hist, [a |-> "SetState", conc |-> { <<Sp[s].txt, Q(f[s])>> : s \in Present }])
    /\ UNCHANGED <<lines, built, step>>

Observe ==      \* read rates and totals at the current state
    [ rates |-> { <<Sp[s].txt, RateOf(s, c)>> : s \in Present },
      totals |-> { <<key, Total(key, c)>> : key \in AllKeys } ]

EulerStep(h) ==
    /\ built = "yes" /\ c # <<>> /\ step < MaxSteps
    /\ c' = [s \in Present |-> QAdd(c[s], QMul(h, RateOf(s, c)))]
    /\ step' = step + 1
    /\ hist' = Append(hist, [a |-> "EulerStep", h |-> h, before |-> Observe,
                             conc |-> { <<Sp[s].txt, QAdd(c[s], QMul(h, RateOf(s, c)))>> : s \in Present }])
    /\ UNCHANGED <<lines, built>>

GenAddLine == \E t \in 1..NT, k \in KVals : AddLine(t, k)
GenSetState == \E f \in [Present -> CVals] : SetState(f)
GenEuler == \E h \in HVals : EulerStep(h)
Next == GenAddLine \/ Build \/ GenSetState \/ GenEuler
Spec == Init /\ [][Next]_vars

(* ---- laws *)
AdmittedIffBalanced == (built = "yes" => AllBalanced) /\ (built = "rejected" => ~AllBalanced)
ConservedAlongSteps ==
    [][ (c # <<>> /\ c' # <<>> /\ c' # c) => \A key \in AllKeys : Total(key, c') = Total(key, c) ]_vars
RatesBalance == (built = "yes" /\ c # <<>> /\ step = 0) =>
    \A key \in AllKeys : QSumSeq([i \in 1..Cardinality(Present) |->
        LET s == SetToSeq(Present)[i] IN QMul(Q(CompOf(s, key)), RateOf(s, c))]) = QZero
SplitPartitionsLines == built = "yes" =>
    /\ UNION Components = 1..Len(lines)
    /\ \A g1, g2 \in Components : g1 = g2 \/ g1 \cap g2 = {}
    /\ \A g1, g2 \in Components : g1 = g2 \/
           UNION { SpeciesOf(lines[i].t) : i \in g1 } \cap UNION { SpeciesOf(lines[i].t) : i \in g2 } = {}

(* ---- export of behaviours: a session is emitted when it cannot be extended *)
Done == built = "rejected" \/ (built = "yes" /\ c # <<>> /\ step = MaxSteps)
\* (exact rationals grow with every step: sessions take one Euler step; MaxSteps = 1 in all configs)
CaseRec == [ in |-> [hist |-> hist], exp |-> [built |-> built],
             cls |-> built \o "-" \o ToString(Len(lines)) ]
Emit == Done => PrintT(<<"CASE", ToJson(CaseRec)>>)
StateView == <<lines, built, c, step>>
=============================================================================
