SPECIFICATION Spec
CONSTANTS
  MaxLines = 2
  MaxSteps = 1
  KVals = {3}
  CVals = {1, 2}
  HVals <- H_Half
INVARIANT AdmittedIffBalanced
INVARIANT RatesBalance
INVARIANT SplitPartitionsLines
PROPERTY ConservedAlongSteps
VIEW StateView
CHECK_DEADLOCK FALSE
