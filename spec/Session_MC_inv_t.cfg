SPECIFICATION Spec
CONSTANTS
  MaxLines = 2
  MaxSteps = 1
  KVals = {3, 7}
  CVals = {1, 2, 3}
  HVals <- H_Two
INVARIANT AdmittedIffBalanced
INVARIANT RatesBalance
INVARIANT SplitPartitionsLines
PROPERTY ConservedAlongSteps
VIEW StateView
CHECK_DEADLOCK FALSE
