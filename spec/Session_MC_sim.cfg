INIT Init
NEXT Next
CONSTANTS
  MaxLines = 3
  MaxSteps = 1
  KVals = {2, 3, 7}
  CVals = {1, 2, 3}
  HVals <- H_Two
INVARIANT AdmittedIffBalanced
INVARIANT Emit
CHECK_DEADLOCK FALSE
