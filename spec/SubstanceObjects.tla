---------------------------- MODULE SubstanceObjects ----------------------------
(* C14 / C01, object histories: substances created one after another in one process are      *)
(* INDEPENDENT objects.  Each carries the composition of its own formula, its own charge      *)
(* (written in the formula, or given to the constructor when the formula writes none) and the *)
(* mass that follows from the two; creating a further object, giving it a charge, or editing  *)
(* one object's composition in place (the caller's own business) changes no other object.     *)
(*                                                                                            *)
(*   Create(f)            Substance.from_formula(text)                                        *)
(*   CreateCharged(f, q)  Substance.from_formula(text, charge=q): sets the charge when the    *)
(*                        formula writes none, is refused when it writes one                  *)
(*   Edit(i, z, d)        objs[i].composition[z] += d   (z = 0 edits the charge)              *)
(*                                                                                            *)
(* Frame property (action property FrameOnlyNamed): every step leaves every object it does    *)
(* not name exactly as it was.  Expected observation after each step = composition, charge    *)
(* and exact mass numerator/denominator of EVERY object alive (Mass.tla).                     *)
EXTENDS Integers, Sequences, SequencesExt, FiniteSets, TLC, Json, Rational, BigNat, Periodic, Mass

CONSTANTS MaxOps, Charges, EditElems, EditAmounts

Pool == <<
    [txt |-> "Fe",        comp |-> (26 :> <<1, 1>>), q |-> 0, hasq |-> FALSE],
    [txt |-> "H2O",       comp |-> (1 :> <<2, 1>>) @@ (8 :> <<1, 1>>), q |-> 0, hasq |-> FALSE],
    [txt |-> "UO2.25",    comp |-> (92 :> <<1, 1>>) @@ (8 :> <<9, 4>>), q |-> 0, hasq |-> FALSE],
    [txt |-> "Fe+3",      comp |-> (26 :> <<1, 1>>), q |-> 3, hasq |-> TRUE],
    [txt |-> "SO4-2",     comp |-> (16 :> <<1, 1>>) @@ (8 :> <<4, 1>>), q |-> -2, hasq |-> TRUE],
    [txt |-> "Fe(OH)2(s)", comp |-> (26 :> <<1, 1>>) @@ (8 :> <<2, 1>>) @@ (1 :> <<2, 1>>), q |-> 0, hasq |-> FALSE] >>
NP == Len(Pool)
Ch_Q == {3, -1}          \* configuration files cannot spell negative numbers
Ch_T == {3, -1, 1}

VARIABLES objs, hist, last
\* objs : sequence of [f, comp, q]      hist : sequence of operation records with the expected snapshot
\* last : the object the latest step named (0 = none: a refused creation)
vars == <<objs, hist, last>>

View(o) == [txt |-> Pool[o.f].txt,
            comp |-> LET zs == SetToSortSeq(DOMAIN o.comp, <) IN [i \in 1..Len(zs) |-> <<zs[i], o.comp[zs[i]]>>],
            q |-> o.q, massnum |-> MassNumOf(o.comp, o.q), massden |-> MassDenOf(o.comp)]
Snap(os) == [i \in 1..Len(os) |-> View(os[i])]

Init == objs = <<>> /\ hist = <<>> /\ last = 0

Create(f) ==
    /\ Len(hist) < MaxOps /\ f \in 1..NP
    /\ objs' = Append(objs, [f |-> f, comp |-> Pool[f].comp, q |-> Pool[f].q])
    /\ last' = Len(objs) + 1
    /\ hist' = Append(hist, [op |-> "create", txt |-> Pool[f].txt, refused |-> FALSE, snap |-> Snap(objs')])

CreateCharged(f, q) ==
    /\ Len(hist) < MaxOps /\ f \in 1..NP /\ q \in Charges
    /\ IF Pool[f].hasq
       THEN /\ objs' = objs /\ last' = 0          \* "cannot give both charge and composition[0]"
            /\ hist' = Append(hist, [op |-> "create-charged", txt |-> Pool[f].txt, q |-> q, refused |-> TRUE,
                                     snap |-> Snap(objs)])
       ELSE /\ objs' = Append(objs, [f |-> f, comp |-> Pool[f].comp, q |-> q])
            /\ last' = Len(objs) + 1
            /\ hist' = Append(hist, [op |-> "create-charged", txt |-> Pool[f].txt, q |-> q, refused |-> FALSE,
                                     snap |-> Snap(objs')])

Edit(i, z, d) ==
    /\ Len(hist) < MaxOps /\ i \in 1..Len(objs) /\ z \in EditElems \cup {0} /\ d \in EditAmounts
    /\ objs' = [objs EXCEPT ![i] =
                  IF z = 0 THEN [@ EXCEPT !.q = @ + d]
                  ELSE [@ EXCEPT !.comp = IF z \in DOMAIN @ THEN [@ EXCEPT ![z] = QAdd(@, Q(d))]
                                          ELSE @ @@ (z :> Q(d))]]
    /\ last' = i
    /\ hist' = Append(hist, [op |-> "edit", i |-> i, z |-> z, d |-> d, refused |-> FALSE, snap |-> Snap(objs')])

Next == \/ \E f \in 1..NP : Create(f)
        \/ \E f \in 1..NP, q \in Charges : CreateCharged(f, q)
        \/ \E i \in 1..Len(objs), z \in EditElems \cup {0}, d \in EditAmounts : Edit(i, z, d)
Spec == Init /\ [][Next]_vars

(* ---- design facts *)
FrameOnlyNamed == [][ \A i \in 1..Len(objs) : i # last' => objs'[i] = objs[i] ]_vars
\* an unedited object is exactly its formula (with the charge it was given)
FreshIsFormula == \A i \in 1..Len(objs) :
    (\A k \in 1..Len(hist) : ~(hist[k].op = "edit" /\ hist[k].i = i)) => objs[i].comp = Pool[objs[i].f].comp
\* ion and neutral parent of one formula differ by exactly |q| electron masses (cross-multiplied, same denominator)
IonParentGap == \A i, j \in 1..Len(objs) :
    (objs[i].comp = objs[j].comp /\ objs[i].q >= objs[j].q) =>
        BAdd(MassNumOf(objs[i].comp, objs[i].q),
             BMulSmall(BFromInt(ElectronFrac9), (objs[i].q - objs[j].q) * MassDenOf(objs[i].comp)))
          = MassNumOf(objs[j].comp, objs[j].q)

Done == Len(hist) = MaxOps
Kinds == [k \in 1..Len(hist) |-> hist[k].op]
CaseRec == [ in |-> [hist |-> hist], exp |-> [n |-> Len(objs)],
             cls |-> "n" \o ToString(Len(objs)) \o (IF \E k \in 1..Len(hist) : hist[k].op = "edit" THEN "-edit" ELSE "")
                        \o (IF \E k \in 1..Len(hist) : hist[k].op = "create-charged" THEN "-chg" ELSE "")
                        \o (IF \E k \in 1..Len(hist) : hist[k].refused THEN "-ref" ELSE "") ]
Emit == Done => PrintT(<<"CASE", ToJson(CaseRec)>>)
StateView == <<objs, last, Len(hist)>>
=============================================================================
