SPECIFICATION Spec
CONSTANTS
  MaxOps = 3
  Charges <- Ch_Q
  EditElems = {8}
  EditAmounts = {2}
INVARIANT FreshIsFormula
INVARIANT IonParentGap
INVARIANT Emit
PROPERTY FrameOnlyNamed
CHECK_DEADLOCK FALSE
