SPECIFICATION Spec
CONSTANTS
  MaxOps = 4
  Charges <- Ch_Q
  EditElems = {8}
  EditAmounts = {2}
INVARIANT FreshIsFormula
INVARIANT IonParentGap
INVARIANT Emit
PROPERTY FrameOnlyNamed
CHECK_DEADLOCK FALSE
