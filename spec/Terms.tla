---------------------------- MODULE Terms ----------------------------
(* Term trees for laws that need exp / log / sqrt / tanh (properties C16, C17, C18, C19).     *)
(*                                                                                            *)
(* A term is a record                                                                         *)
(*     [op |-> "const", q |-> <<n, d>>]          exact rational constant                      *)
(*     [op |-> "var",   name |-> "T"]            free variable, bound by an environment       *)
(*     [op |-> o, args |-> <<t1, ..., tk>>]      o in  add mul (k >= 1)  div pow (k = 2)      *)
(*                                               neg exp log log10 sqrt tanh atanh sin cos    *)
(*                                               abs (k = 1)                                  *)
(* ToJson maps it to {"op": .., "args": [..]} / {"op":"const","q":[n,d]} / {"op":"var",..};   *)
(* harness/terms.py:eval_term is the one generic interpreter of that JSON.                    *)
(*                                                                                            *)
(* The specification DEFINES a law by building its term.  Wherever the term is rational at    *)
(* the sample point (polynomials, rational functions, integer powers, sqrt of perfect         *)
(* squares, exp(0), log(1), log10(10^k), tanh(0) ...) TLC computes the exact value with       *)
(* EvalQR; elsewhere the instantiated term is exported and evaluated numerically.             *)
(*                                                                                            *)
(* EvalQR never overflows TLC's 32-bit integers: every product and sum is guarded and an      *)
(* intermediate that does not fit degrades the answer to "irr" (not computed), never to a     *)
(* wrong number.                                                                              *)
(* All constructor names start with T so that modules extending Terms keep their own names.   *)
EXTENDS Integers, Sequences, FiniteSets, Rational

------------------------------------------------------------------------------
(* constructors *)
TConst(q)   == [op |-> "const", q |-> Norm(q)]
TC(n)       == TConst(<<n, 1>>)
TQ(n, d)    == TConst(<<n, d>>)
TVar(name)  == [op |-> "var", name |-> name]
TSum(ts)    == [op |-> "add", args |-> ts]
TProd(ts)   == [op |-> "mul", args |-> ts]
TAdd(a, b)  == TSum(<<a, b>>)
TMul(a, b)  == TProd(<<a, b>>)
TMul3(a, b, c) == TProd(<<a, b, c>>)
TDiv(a, b)  == [op |-> "div", args |-> <<a, b>>]
TPow(a, b)  == [op |-> "pow", args |-> <<a, b>>]
TNeg(a)     == [op |-> "neg", args |-> <<a>>]
TSub(a, b)  == TAdd(a, TNeg(b))
TExp(a)     == [op |-> "exp", args |-> <<a>>]
TLog(a)     == [op |-> "log", args |-> <<a>>]
TLog10(a)   == [op |-> "log10", args |-> <<a>>]
TSqrt(a)    == [op |-> "sqrt", args |-> <<a>>]
TTanh(a)    == [op |-> "tanh", args |-> <<a>>]
TAtanh(a)   == [op |-> "atanh", args |-> <<a>>]
TSin(a)     == [op |-> "sin", args |-> <<a>>]
TCos(a)     == [op |-> "cos", args |-> <<a>>]
TAbs(a)     == [op |-> "abs", args |-> <<a>>]
TInv(a)     == TDiv(TC(1), a)
TSq(a)      == TPow(a, TC(2))
TPowI(a, k) == TPow(a, TC(k))
(* m * 10^e for decimal constants whose numerator would not fit 32 bits, e.g. TDec(208366, 5) *)
TDec(m, e)  == IF e = 0 THEN TC(m) ELSE TMul(TC(m), TPow(TC(10), TC(e)))

UnaryOps  == {"neg", "exp", "log", "log10", "sqrt", "tanh", "atanh", "sin", "cos", "abs"}
BinaryOps == {"div", "pow"}
NaryOps   == {"add", "mul"}
AllOps    == {"const", "var"} \cup UnaryOps \cup BinaryOps \cup NaryOps

IsLeaf(t) == t.op \in {"const", "var"}

RECURSIVE WellFormedTerm(_)
WellFormedTerm(t) ==
    CASE t.op = "const" -> t.q[2] > 0
      [] t.op = "var"   -> TRUE
      [] t.op \in UnaryOps  -> Len(t.args) = 1 /\ WellFormedTerm(t.args[1])
      [] t.op \in BinaryOps -> Len(t.args) = 2 /\ \A i \in 1..2 : WellFormedTerm(t.args[i])
      [] t.op \in NaryOps   -> Len(t.args) >= 1 /\ \A i \in 1..Len(t.args) : WellFormedTerm(t.args[i])
      [] OTHER -> FALSE

RECURSIVE TermVars(_)
TermVars(t) ==
    IF t.op = "const" THEN {}
    ELSE IF t.op = "var" THEN {t.name}
    ELSE UNION { TermVars(t.args[i]) : i \in 1..Len(t.args) }

RECURSIVE TermSize(_)
TermSize(t) ==
    IF IsLeaf(t) THEN 1
    ELSE LET RECURSIVE S(_)
             S(i) == IF i > Len(t.args) THEN 0 ELSE TermSize(t.args[i]) + S(i + 1)
         IN 1 + S(1)

RECURSIVE TermDepth(_)
TermDepth(t) ==
    IF IsLeaf(t) THEN 0
    ELSE LET RECURSIVE M(_)
             M(i) == IF i > Len(t.args) THEN 0
                     ELSE LET a == TermDepth(t.args[i])  b == M(i + 1) IN IF a > b THEN a ELSE b
         IN 1 + M(1)

(* substitution of a term for a variable *)
RECURSIVE TSubst(_, _, _)
TSubst(t, name, r) ==
    IF t.op = "const" THEN t
    ELSE IF t.op = "var" THEN (IF t.name = name THEN r ELSE t)
    ELSE [t EXCEPT !.args = [i \in 1..Len(t.args) |-> TSubst(t.args[i], name, r)]]

(* simultaneous substitution: sub is a function name -> term *)
RECURSIVE TSubstAll(_, _)
TSubstAll(t, sub) ==
    IF t.op = "const" THEN t
    ELSE IF t.op = "var" THEN (IF t.name \in DOMAIN sub THEN sub[t.name] ELSE t)
    ELSE [t EXCEPT !.args = [i \in 1..Len(t.args) |-> TSubstAll(t.args[i], sub)]]

(* instantiate with rational values: env is a function name -> <<n, d>> *)
TInst(t, env) == TSubstAll(t, [k \in DOMAIN env |-> TConst(env[k])])

------------------------------------------------------------------------------
(* guarded 32-bit arithmetic *)
MAXI == 2147483647
FitsMul(a, b) == a = 0 \/ b = 0 \/ Abs(a) <= MAXI \div Abs(b)
FitsAdd(a, b) == (a >= 0 /\ b <= 0) \/ (a <= 0 /\ b >= 0) \/ Abs(a) <= MAXI - Abs(b)

(* results: [st |-> "q", q |-> value]  exact rational                                        *)
(*          [st |-> "irr", ...]        a real number that TLC does not compute (irrational,   *)
(*                                     or an intermediate exceeds 32 bits)                    *)
(*          [st |-> "undef", ...]      not a real number (division by zero, log of a          *)
(*                                     non-positive number, negative base to a fraction ...)  *)
RQ(q)   == [st |-> "q", q |-> Norm(q)]
RIrr    == [st |-> "irr", q |-> QZero]
RUndef  == [st |-> "undef", q |-> QZero]
IsRQ(r) == r.st = "q"

SQAdd(a, b) ==
    LET g == GCD(a[2], b[2])
        a2 == a[2] \div g
        b2 == b[2] \div g
    IN  IF FitsMul(a[1], b2) /\ FitsMul(b[1], a2) /\ FitsMul(a2, b[2])
           /\ FitsAdd(a[1] * b2, b[1] * a2)
        THEN RQ(<<a[1] * b2 + b[1] * a2, a2 * b[2]>>) ELSE RIrr
SQMul(a, b) ==
    IF a[1] = 0 \/ b[1] = 0 THEN RQ(QZero)
    ELSE LET g1 == GCD(Abs(a[1]), b[2])
             g2 == GCD(Abs(b[1]), a[2])
             n1 == a[1] \div g1   n2 == b[1] \div g2
             d1 == a[2] \div g2   d2 == b[2] \div g1
         IN  IF FitsMul(n1, n2) /\ FitsMul(d1, d2) THEN RQ(<<n1 * n2, d1 * d2>>) ELSE RIrr
RECURSIVE SQPowN(_, _)
SQPowN(a, k) ==          \* k >= 0
    IF k = 0 THEN RQ(QOne)
    ELSE LET r == SQPowN(a, k - 1) IN IF IsRQ(r) THEN SQMul(r.q, a) ELSE r

(* integer square root by bisection (no search over 0..n) *)
RECURSIVE ISqrtBS(_, _, _)
ISqrtBS(n, lo, hi) ==
    IF lo >= hi THEN lo
    ELSE LET mid == (lo + hi + 1) \div 2
         IN  IF mid <= n \div mid THEN ISqrtBS(n, mid, hi) ELSE ISqrtBS(n, lo, mid - 1)
ISqrt(n) == ISqrtBS(n, 0, IF n < 46340 THEN n ELSE 46340)
IsSquare(n) == n >= 0 /\ ISqrt(n) * ISqrt(n) = n
QIsSquare(q) == IsSquare(q[1]) /\ IsSquare(q[2])
QSqrt(q) == <<ISqrt(q[1]), ISqrt(q[2])>>

(* k with 10^k = q, k in -9..9, or 99 if there is none *)
Log10Exact(q) ==
    LET ks == { k \in 0..9 : q = <<IPow(10, k), 1>> \/ q = <<1, IPow(10, k)>> }
    IN  IF ks = {} THEN 99
        ELSE LET k == CHOOSE k \in ks : TRUE IN IF q[2] = 1 THEN k ELSE -k

Lift2(f(_, _), x, y) ==
    IF x.st = "undef" \/ y.st = "undef" THEN RUndef
    ELSE IF x.st = "irr" \/ y.st = "irr" THEN RIrr
    ELSE f(x.q, y.q)

RPow(b, e) ==     \* rational base b, rational exponent e (both normalised)
    IF e[2] = 1 THEN
        (IF Abs(e[1]) > 62 THEN      \* nothing but 0, 1, -1 survives such a power within 32 bits
            (IF b[1] = 0 THEN (IF e[1] > 0 THEN RQ(QZero) ELSE RUndef)
             ELSE IF b = QOne THEN RQ(QOne)
             ELSE IF b = <<-1, 1>> THEN (IF e[1] % 2 = 0 THEN RQ(QOne) ELSE RQ(<<-1, 1>>))
             ELSE RIrr)
         ELSE IF e[1] >= 0 THEN SQPowN(b, e[1])
         ELSE IF b[1] = 0 THEN RUndef ELSE SQPowN(QInv(b), -e[1]))
    ELSE IF b[1] < 0 THEN RUndef
    ELSE IF b[1] = 0 THEN (IF e[1] > 0 THEN RQ(QZero) ELSE RUndef)
    ELSE IF b = QOne THEN RQ(QOne)
    ELSE IF e[2] = 2 /\ QIsSquare(b) THEN
        (IF e[1] >= 0 THEN SQPowN(QSqrt(b), e[1]) ELSE SQPowN(QInv(QSqrt(b)), -e[1]))
    ELSE RIrr
RDiv(a, b) == IF b[1] = 0 THEN RUndef ELSE SQMul(a, QInv(b))
(* division of results: an exact zero divisor is undefined whatever the numerator is *)
RDivR(x, y) == IF x.st = "undef" \/ y.st = "undef" THEN RUndef
               ELSE IF y.st = "q" /\ y.q[1] = 0 THEN RUndef
               ELSE IF x.st = "irr" \/ y.st = "irr" THEN RIrr
               ELSE RDiv(x.q, y.q)

RECURSIVE EvalQR(_, _)
EvalQR(t, env) ==
    CASE t.op = "const" -> RQ(t.q)
      [] t.op = "var" -> IF t.name \in DOMAIN env THEN RQ(env[t.name]) ELSE RIrr
      [] t.op \in NaryOps ->
            LET vals == [i \in 1..Len(t.args) |-> EvalQR(t.args[i], env)]
                RECURSIVE F(_)
                F(i) == IF i = 1 THEN vals[1]
                        ELSE IF t.op = "add" THEN Lift2(SQAdd, F(i - 1), vals[i])
                        ELSE Lift2(SQMul, F(i - 1), vals[i])
            IN  F(Len(vals))
      [] t.op = "div" -> RDivR(EvalQR(t.args[1], env), EvalQR(t.args[2], env))
      [] t.op = "pow" -> Lift2(RPow, EvalQR(t.args[1], env), EvalQR(t.args[2], env))
      [] OTHER ->
            LET x == EvalQR(t.args[1], env) IN
            IF x.st = "undef" THEN RUndef
            ELSE IF t.op = "neg" THEN (IF IsRQ(x) THEN RQ(QNeg(x.q)) ELSE x)
            ELSE IF t.op = "abs" THEN (IF IsRQ(x) THEN RQ(QAbs(x.q)) ELSE x)
            ELSE IF x.st = "irr" THEN RIrr
            ELSE IF t.op = "exp"   THEN (IF x.q[1] = 0 THEN RQ(QOne) ELSE RIrr)
            ELSE IF t.op = "cos"   THEN (IF x.q[1] = 0 THEN RQ(QOne) ELSE RIrr)
            ELSE IF t.op \in {"tanh", "sin"} THEN (IF x.q[1] = 0 THEN RQ(QZero) ELSE RIrr)
            ELSE IF t.op = "atanh" THEN (IF x.q[1] = 0 THEN RQ(QZero)
                                         ELSE IF QLt(QAbs(x.q), QOne) THEN RIrr ELSE RUndef)
            ELSE IF t.op = "log"   THEN (IF x.q[1] <= 0 THEN RUndef
                                         ELSE IF x.q = QOne THEN RQ(QZero) ELSE RIrr)
            ELSE IF t.op = "log10" THEN (IF x.q[1] <= 0 THEN RUndef
                                         ELSE IF Log10Exact(x.q) # 99 THEN RQ(Q(Log10Exact(x.q))) ELSE RIrr)
            ELSE IF t.op = "sqrt"  THEN (IF x.q[1] < 0 THEN RUndef
                                         ELSE IF QIsSquare(x.q) THEN RQ(QSqrt(x.q)) ELSE RIrr)
            ELSE RUndef

IsRationalAt(t, env) == EvalQR(t, env).st = "q"
IsDefinedAt(t, env)  == EvalQR(t, env).st # "undef"
(* exact value; only meaningful where IsRationalAt *)
EvalQ(t, env) == EvalQR(t, env).q

(* JSON-friendly view of an evaluation result: <<"q", n, d>> | <<"irr">> | <<"undef">> *)
ResultView(r) == IF r.st = "q" THEN [st |-> "q", q |-> r.q] ELSE [st |-> r.st, q |-> QZero]
=============================================================================
