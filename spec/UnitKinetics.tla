---------------------------- MODULE UnitKinetics ----------------------------
(* Units + mass-action kinetics (property C10).                                                *)
(*                                                                                            *)
(* Part 1, acceptance.  A reaction of order n (sum of the active reactant coefficients)       *)
(* accepts a unit-carrying rate constant iff its dimension is concentration^(1-n)/time,       *)
(* whatever units express it:  AcceptsRate(n, unit).  An equilibrium with                     *)
(* dnu = products - reactants may only accept a constant of dimension concentration^dnu:      *)
(* AcceptsK(dnu, unit) => KDimOK(dnu, unit) (the converse is not demanded).                   *)
(*                                                                                            *)
(* Part 2, physical rates.  One PHYSICAL problem (rate constants and concentrations fixed in  *)
(* SI) is WRITTEN in many ways: every constant, concentration and time in its own unit, and   *)
(* evaluated in many base-unit registries.  The specification computes                        *)
(*   - the rate of every reaction directly in SI (mantissa x scale vector, exact), and        *)
(*   - the same rate the way a unit-aware ODE system has to do it: constants and              *)
(*     concentrations made unitless in the registry's units, multiplied out, and the result   *)
(*     read back with the registry's concentration/time unit;                                 *)
(* invariant RegistryIndependent: both agree for every registry - provided the constants were *)
(* accepted.  Every finished configuration is a CASE for the binding layer.                   *)
EXTENDS Units

CONSTANTS
    Systems,      \* names of reaction systems (see SysLib)
    KTimes,       \* time units of rate constants
    KConcs,       \* concentration units of rate constants (keys of ConcUx)
    Wrongs,       \* perturbations of the dimension of the first rate constant ("none" = right)
    CPlans,       \* offsets choosing the concentration unit of each substance
    TUnits,       \* unit of the time points
    KRegs,        \* registries
    Outs,         \* pairs <<output concentration unit key, output time unit>>
    Modes,        \* "inline" (constants inside the system) / "named" (constants passed as parameters)
    EqTemplates,  \* equilibria for the acceptance part
    EqWrongs,
    TSources,     \* where the temperature comes from: subset of {"param", "subs", "ramp"}
    Laws,         \* rate-constant laws of a generated system: "mass", "arrhenius", "eyring", "alt" (cycling)
    CallKinds,    \* kinds of calls made on one solver object (see CallVar)
    MaxCalls      \* length of the call history of a solver object

VARIABLES kstage, sys, cond, conf, khist
kvars == <<kstage, sys, cond, conf, khist>>

------------------------------------------------------------------------------
Subst == <<"A", "B", "C", "D">>
SubstSet == {"A", "B", "C", "D"}
R(a, b, c, d) == [A |-> a, B |-> b, C |-> c, D |-> d]
Rx(reac, prod) == [reac |-> reac, prod |-> prod]
RxLib == [
    zero  |-> Rx(R(0, 0, 0, 0), R(1, 0, 0, 0)),     \*         -> A      order 0
    zeroB |-> Rx(R(0, 0, 0, 0), R(0, 2, 0, 0)),     \*         -> 2 B    order 0
    uni   |-> Rx(R(1, 0, 0, 0), R(0, 1, 0, 0)),     \* A       -> B      order 1
    uniBC |-> Rx(R(0, 1, 0, 0), R(0, 0, 1, 0)),     \* B       -> C
    uniCD |-> Rx(R(0, 0, 1, 0), R(0, 0, 0, 1)),     \* C       -> D
    bi    |-> Rx(R(1, 1, 0, 0), R(0, 0, 1, 0)),     \* A + B   -> C      order 2
    dimer |-> Rx(R(2, 0, 0, 0), R(0, 1, 0, 0)),     \* 2 A     -> B      order 2
    dimB  |-> Rx(R(0, 2, 0, 0), R(0, 0, 1, 0)),     \* 2 B     -> C
    ter   |-> Rx(R(2, 1, 0, 0), R(0, 0, 1, 0)),     \* 2 A + B -> C      order 3
    tri   |-> Rx(R(3, 0, 0, 0), R(0, 0, 0, 1)),     \* 3 A     -> D      order 3
    terBCD |-> Rx(R(0, 1, 1, 1), R(1, 0, 0, 0)) ]   \* B + C + D -> A    order 3
SysLib == [
    zero |-> <<"zero">>, uni |-> <<"uni">>, bi |-> <<"bi">>, dimer |-> <<"dimer">>, ter |-> <<"ter">>, tri |-> <<"tri">>,
    zero2 |-> <<"zero", "zeroB">>,
    chain |-> <<"uni", "dimB">>, feed |-> <<"zero", "uni", "uniBC">>, mix |-> <<"bi", "uniCD", "terBCD">>,
    cycle |-> <<"uni", "uniBC", "uniCD", "ter">> ]
\* the physical problem: rate constants (coherent SI units) and concentrations (mol/m3), time points (s)
KSI == <<<<3, 2>>, <<7, 10>>, <<11, 4>>, <<1, 3>>>>
CSI == [A |-> <<2, 1>>, B |-> <<5, 1>>, C |-> <<7, 10>>, D |-> <<3, 1>>]
T1SI == <<1, 8>>

Order(r) == r.reac.A + r.reac.B + r.reac.C + r.reac.D
Net(r, s) == r.prod[s] - r.reac[s]
DNu(r) == (r.prod.A + r.prod.B + r.prod.C + r.prod.D) - Order(r)

(* how units of concentration are written *)
F(n, p) == [n |-> n, p |-> p]
ConcUx == [ M |-> <<F("molar", 1)>>, mM |-> <<F("millimolar", 1)>>, uM |-> <<F("micromolar", 1)>>,
            molm3 |-> <<F("mol", 1), F("m", -3)>>, molcm3 |-> <<F("mol", 1), F("cm", -3)>>,
            molL |-> <<F("mol", 1), F("litre", -1)>>, mmoldm3 |-> <<F("mmol", 1), F("dm3", -1)>> ]
ConcKeys == <<"M", "mM", "uM", "molm3", "molcm3">>
UxPow(x, p) == [i \in 1..Len(x) |-> F(x[i].n, x[i].p * p)]
Clean(x) == SelectSeq(x, LAMBDA f : f.p # 0)
RateUx(order, cn, tn) == Clean(UxPow(ConcUx[cn], 1 - order) \o <<F(tn, -1)>>)
AllWrongs == {"none", "conc+", "conc-", "notime", "time2", "amount+", "length+", "mass+", "temp+"}
WrongUx(kind, order, cn, tn) ==
    CASE kind = "none"    -> RateUx(order, cn, tn)
      [] kind = "conc+"   -> Clean(UxPow(ConcUx[cn], 2 - order) \o <<F(tn, -1)>>)
      [] kind = "conc-"   -> Clean(UxPow(ConcUx[cn], -order) \o <<F(tn, -1)>>)
      [] kind = "notime"  -> Clean(UxPow(ConcUx[cn], 1 - order))
      [] kind = "time2"   -> Clean(UxPow(ConcUx[cn], 1 - order) \o <<F(tn, -2)>>)
      [] kind = "amount+" -> RateUx(order, cn, tn) \o <<F("mol", 1)>>
      [] kind = "length+" -> RateUx(order, cn, tn) \o <<F("m", 1)>>
      [] kind = "mass+"   -> RateUx(order, cn, tn) \o <<F("kg", 1)>>
      [] kind = "temp+"   -> RateUx(order, cn, tn) \o <<F("K", 1)>>
KUx(dnu, cn) == Clean(UxPow(ConcUx[cn], dnu))
AllEqWrongs == {"none", "conc+", "conc-", "amount+", "length+", "pertime"}
WrongKUx(kind, dnu, cn) ==
    CASE kind = "none"    -> KUx(dnu, cn)
      [] kind = "conc+"   -> KUx(dnu + 1, cn)
      [] kind = "conc-"   -> KUx(dnu - 1, cn)
      [] kind = "amount+" -> KUx(dnu, cn) \o <<F("mol", 1)>>
      [] kind = "length+" -> KUx(dnu, cn) \o <<F("m", 1)>>
      [] kind = "pertime" -> KUx(dnu, cn) \o <<F("s", -1)>>

(* --- the acceptance predicates of C10 --- *)
RateDim(order) == VAdd(VMul(ConcDim, 1 - order), VMul(T1, -1))
AcceptsRate(order, unit) == unit.dim = RateDim(order)
KDimOK(dnu, unit) == unit.dim = VMul(ConcDim, dnu)

(* quantities written in a unit: the magnitude is the SI value divided by the size of the unit *)
Written(si, x) == Qty(NShift(NFromQ(si), VMul(UnitOf(x).scale, -1)), x)
MagInU(q, unit) == NShift(q.mag, Ratio(UnitQ(q), unit))

(* --- physical rates --- *)
RECURSIVE NProdOver(_, _, _)
\* product over the substances i..4 of conc[s]^nu[s], conc given as numbers
NProdOver(i, nu, val) == IF i > Len(Subst) THEN NOne
                         ELSE NMul(NPow(val[Subst[i]], nu[Subst[i]]), NProdOver(i + 1, nu, val))
(* Rate-constant laws.  A reaction record is [rx, k] (mass action: k is the rate constant) or carries *)
(* law and ea as well:                                                                               *)
(*   "arrhenius":  k_eff = A * exp(-Ea/T)                     (k = A, a rate constant; ea = Ea/R in K) *)
(*   "eyring":     k_eff = c * T * exp(-dH/T) * conc0^(1-n)   (k = c in 1/(K time); ea = dH/R in K;    *)
(*                 conc0 = 1 mol/dm3 is the standard state the law is written for)                     *)
(* The exponential is the only non-rational part: a rate is exported as [r, x] meaning r * exp(-x),    *)
(* r and x exact numbers (x = ea/T is a pure number, the same in every unit system).                   *)
LawOf(rec) == IF "law" \in DOMAIN rec THEN rec.law ELSE "mass"
TempSI == <<310, 1>>
EASI == <<<<620, 1>>, <<155, 1>>, <<930, 1>>, <<310, 1>>>>
TempQ == Qty(NFromQ(TempSI), <<[n |-> "K", p |-> 1]>>)
(* The environment of an evaluation: where the temperature comes from ("param": a parameter of the call,   *)
(* "subs": a constant substitution, "ramp": the substitution T0 + dTdt * time, read at the evaluation time  *)
(* t1 - the three give the same temperature TempSI there), and the density and dose rate a radiolytic       *)
(* yield is multiplied with.                                                                                 *)
T0SI == <<300, 1>>
DTSI == <<80, 1>>                     \* K/s
DensSI == <<998, 1>>                  \* kg/m3
DoseSI == <<1, 2>>                    \* Gy/s
DefaultEnv == [tsrc |-> "param", T0 |-> Qty(NFromQ(T0SI), <<[n |-> "K", p |-> 1]>>),
               dTdt |-> Qty(NFromQ(DTSI), <<[n |-> "K", p |-> 1], [n |-> "s", p |-> -1]>>),
               density |-> Qty(NFromQ(DensSI), <<[n |-> "kg", p |-> 1], [n |-> "m", p |-> -3]>>),
               doserate |-> Qty(NFromQ(DoseSI), <<[n |-> "Gy", p |-> 1], [n |-> "s", p |-> -1]>>)]
EnvOf == IF "env" \in DOMAIN cond THEN cond.env ELSE DefaultEnv
DensityDim == D(-3, 1, 0, 0, 0, 0)
DoserateDim == D(2, 0, -3, 0, 0, 0)
YieldDim == D(-2, -1, 2, 0, 0, 1)     \* amount / energy
StdConc == Qty(NOne, <<[n |-> "molar", p |-> 1]>>)
PerKTimeDim == VAdd(VMul(Th1, -1), VMul(T1, -1))
\* the dimension the constant k of a record must have
\*   "radiolytic": rate = G * density * doserate, whatever the concentrations (k = G, a yield in amount/energy)
\*   "eyringhs":   k_eff = (kB/h) * T * exp(-(dH - T dS)/(R T)) * conc0^(1-n)   (k = dH in energy/amount, ea = dS in
\*                 energy/(amount temperature); kB, h, R come from a namespace of physical constants and enter as
\*                 opaque generators of the scale lattice: their numbers are irrelevant, they only have to be carried
\*                 through every unit system unchanged)
MolarEnergyDim == D(2, 1, -2, 0, 0, -1)
MolarEntropyDim == D(2, 1, -2, 0, -1, -1)
KParamDim(rec) == IF LawOf(rec) = "eyring" THEN PerKTimeDim
                  ELSE IF LawOf(rec) = "radiolytic" THEN YieldDim
                  ELSE IF LawOf(rec) = "eyringhs" THEN MolarEnergyDim ELSE RateDim(Order(rec.rx))
EaDim(rec) == IF LawOf(rec) = "eyringhs" THEN MolarEntropyDim ELSE Th1
\* the physical constants as quantities of size one generator each
ConstQ(g, dim) == [mag |-> NOne, ux |-> <<>>, unit |-> U(dim, SO(g, 1))]
KBQ == ConstQ("kB", D(2, 1, -2, 0, -1, 0))
HPQ == ConstQ("hP", D(2, 1, -1, 0, 0, 0))
RGQ == ConstQ("R", MolarEntropyDim)
\* the rational part of the effective rate constant, in SI
PreSI(rec) == IF LawOf(rec) = "eyring"
              THEN NMul(NMul(SIValue(rec.k), SIValue(TempQ)), NPow(SIValue(StdConc), 1 - Order(rec.rx)))
              ELSE IF LawOf(rec) = "eyringhs"
              THEN NMul(NMul(NMul(SIValue(KBQ), NInv(SIValue(HPQ))), SIValue(TempQ)), NPow(SIValue(StdConc), 1 - Order(rec.rx)))
              ELSE IF LawOf(rec) = "radiolytic"
              THEN NMul(NMul(SIValue(rec.k), SIValue(EnvOf.density)), SIValue(EnvOf.doserate))
              ELSE SIValue(rec.k)
HasExp(rec) == LawOf(rec) \in {"arrhenius", "eyring", "eyringhs"}
\* the rate carries the factor exp(-(x + x2)):  x = Ea/T resp. dH/(R T),  x2 = -dS/R (eyringhs only)
ExpoOf(rec) == IF LawOf(rec) = "eyringhs" THEN NMul(SIValue(rec.k), NInv(NMul(SIValue(RGQ), SIValue(TempQ))))
               ELSE IF HasExp(rec) THEN NMul(SIValue(rec.ea), NInv(SIValue(TempQ))) ELSE NZero
Expo2Of(rec) == IF LawOf(rec) = "eyringhs" THEN NMul(NFromQ(<<-1, 1>>), NMul(SIValue(rec.ea), NInv(SIValue(RGQ)))) ELSE NZero
ConcPart(rec, val) == IF LawOf(rec) = "radiolytic" THEN NOne ELSE NProdOver(1, rec.rx.reac, val)
\* the rate of reaction rec directly in SI (without the factor exp(-ExpoOf(rec)))
RateSI(rec, conc) == NMul(PreSI(rec), ConcPart(rec, [s \in SubstSet |-> SIValue(conc[s])]))
\* the same rate through a registry
\* the exponent of an eyringhs rate computed from unitless numbers in a registry
ExpoVia(reg, rec) == NMul(MagInU(rec.k, RegUnit(reg, MolarEnergyDim)),
                          NInv(NMul(MagInU(RGQ, RegUnit(reg, MolarEntropyDim)), MagInU(TempQ, RegUnit(reg, Th1)))))
TimeUnit(reg) == RegUnit(reg, T1)
ConcUnit(reg) == RegUnit(reg, ConcDim)
KIn(reg, rec) == MagInU(rec.k, RegUnit(reg, KParamDim(rec)))
TIn(reg, q) == MagInU(q, RegUnit(reg, Th1))
PreVia(reg, rec) == IF LawOf(rec) = "eyring"
                    THEN NMul(NMul(KIn(reg, rec), TIn(reg, TempQ)), NPow(MagInU(StdConc, RegUnit(reg, ConcDim)), 1 - Order(rec.rx)))
                    ELSE IF LawOf(rec) = "eyringhs"
                    THEN NMul(NMul(NMul(MagInU(KBQ, RegUnit(reg, KBQ.unit.dim)), NInv(MagInU(HPQ, RegUnit(reg, HPQ.unit.dim)))), TIn(reg, TempQ)),
                              NPow(MagInU(StdConc, RegUnit(reg, ConcDim)), 1 - Order(rec.rx)))
                    ELSE IF LawOf(rec) = "radiolytic"
                    THEN NMul(NMul(KIn(reg, rec), MagInU(EnvOf.density, RegUnit(reg, DensityDim))),
                              MagInU(EnvOf.doserate, RegUnit(reg, DoserateDim)))
                    ELSE KIn(reg, rec)
CIn(reg, q) == MagInU(q, ConcUnit(reg))
BackScale(reg) == VSub(ConcUnit(reg).scale, TimeUnit(reg).scale)
RateVia(reg, rec, conc) ==
    NShift(NMul(PreVia(reg, rec), ConcPart(rec, [s \in SubstSet |-> CIn(reg, conc[s])])), BackScale(reg))
\* d[s]/dt as the list of its terms (coefficient, reaction rate in SI); their sum is the rate
Terms(s) == LET js == SelectSeq([j \in 1..Len(sys) |-> j], LAMBDA j : Net(sys[j].rx, s) # 0)
            IN  [i \in 1..Len(js) |-> [c |-> Net(sys[js[i]].rx, s), r |-> RateSI(sys[js[i]], cond.conc), x |-> ExpoOf(sys[js[i]]), x2 |-> Expo2Of(sys[js[i]])]]
AllMass == \A j \in 1..Len(sys) : LawOf(sys[j]) = "mass"
AllZeroOrder == AllMass /\ \A j \in 1..Len(sys) : Order(sys[j].rx) = 0
\* exact end state when every reaction has order zero: c0 + sum net * k * (t1 - t0), t0 = 0
EndTerms(s) == <<[c |-> 1, r |-> SIValue(cond.conc[s]), x |-> NZero]>> \o
               LET js == SelectSeq([j \in 1..Len(sys) |-> j], LAMBDA j : Net(sys[j].rx, s) # 0)
               IN  [i \in 1..Len(js) |-> [c |-> Net(sys[js[i]].rx, s), r |-> NMul(SIValue(sys[js[i]].k), SIValue(cond.t1)), x |-> NZero]]

------------------------------------------------------------------------------
UnitsIdle == stage = "build" /\ ux = <<>> /\ q0 = Qty(NZero, <<>>) /\ qs = <<>> /\ lin = NOne /\ hist = <<>>
KInit == UnitsIdle /\ kstage = "start" /\ sys = <<>> /\ cond = [none |-> TRUE] /\ conf = [none |-> TRUE] /\ khist = <<>>

KLog(a, e) == khist' = Append(khist, [a |-> a, e |-> e])

IsRx(rx) == \A s \in SubstSet : rx.reac[s] \in Nat /\ rx.prod[s] \in Nat
(* acceptance of one rate constant *)
(*   kform: the constant is a plain quantity or a quantity with an uncertainty                            *)
(*   how:   "init" (the constructor with its default checks: accepted = constructed), "method" (made with *)
(*          checks switched off, then asked check_consistent_units(): accepted = the answer), "nochecks"  *)
(*          (made with checks switched off: always constructed, whatever the dimension)                   *)
KForms == {"quantity", "uncertain"}
\*          "dontcheck" (dont_check={'consistent_units'}: always constructed), "inact" (the constructor, with an
\*          additional INACTIVE reactant - it does not count for the order), "zero" (the constructor, constant of
\*          magnitude 0: the dimension decides, not the number)
Hows == {"init", "method", "nochecks", "dontcheck", "inact", "zero"}
AcceptMag(how) == IF how = "zero" THEN <<0, 1>> ELSE <<3, 2>>
E_RateAccept(rx, kux) == [accept |-> AcceptsRate(Order(rx), UnitOf(kux)), order |-> Order(rx)]
RateAcceptV(rx, kux, kform, how) ==
    /\ kstage = "start" /\ IsRx(rx) /\ IsUExpr(kux) /\ kform \in KForms /\ how \in Hows
    /\ KLog([op |-> "rate_accept", rx |-> rx, kux |-> kux, mag |-> AcceptMag(how), kform |-> kform, how |-> how], E_RateAccept(rx, kux))
    /\ kstage' = "done" /\ UNCHANGED <<sys, cond, conf, vars>>
RateAccept(rx, kux) == RateAcceptV(rx, kux, "quantity", "init")

(* acceptance of one equilibrium constant: a wrong dimension must be refused *)
E_KAccept(rx, kux) == [dnu |-> DNu(rx), must_raise |-> ~KDimOK(DNu(rx), UnitOf(kux))]
KAcceptV(rx, kux, kform, how) ==
    /\ kstage = "start" /\ IsRx(rx) /\ IsUExpr(kux) /\ kform \in KForms /\ how \in Hows
    /\ KLog([op |-> "k_accept", rx |-> rx, kux |-> kux, mag |-> AcceptMag(how), kform |-> kform, how |-> how], E_KAccept(rx, kux))
    /\ kstage' = "done" /\ UNCHANGED <<sys, cond, conf, vars>>
KAccept(rx, kux) == KAcceptV(rx, kux, "quantity", "init")

(* the system as written: reaction j = [rx, k] with its rate constant a quantity in its own unit *)
SetSystem(name, recs) ==
    /\ kstage = "start" /\ Len(recs) >= 1
    /\ \A j \in 1..Len(recs) : IsRx(recs[j].rx) /\ IsUExpr(recs[j].k.ux)
    /\ sys' = recs
    /\ conf' = [name |-> name]
    /\ kstage' = "system" /\ UNCHANGED <<cond, khist, vars>>

\* (only a constant given as a plain quantity is checked when the reaction is made; a law object is not)
RecAccepted(rec) == LawOf(rec) # "mass" \/ AcceptsRate(Order(rec.rx), UnitQ(rec.k))
AllAccepted == \A j \in 1..Len(sys) : RecAccepted(sys[j])

(* building the reactions: every constant is checked *)
E_Build == [accept |-> [j \in 1..Len(sys) |-> RecAccepted(sys[j])]]
Build ==
    /\ kstage = "system"
    /\ KLog([op |-> "build"], E_Build)
    /\ kstage' = IF AllAccepted THEN "built" ELSE "done"
    /\ UNCHANGED <<sys, cond, conf, vars>>

(* the conditions as written: every concentration and the time points are quantities in their own units *)
SetConditionsE(concQ, t0Q, t1Q, env) ==
    /\ kstage = "built" /\ UnitQ(t0Q).dim = T1 /\ UnitQ(t1Q).dim = T1
    /\ \A s \in SubstSet : IsUExpr(concQ[s].ux) /\ UnitQ(concQ[s]).dim = ConcDim
    /\ env.tsrc \in {"param", "subs", "ramp"} /\ UnitQ(env.T0).dim = Th1 /\ UnitQ(env.dTdt).dim = VAdd(Th1, VMul(T1, -1))
    /\ UnitQ(env.density).dim = DensityDim /\ UnitQ(env.doserate).dim = DoserateDim
    /\ cond' = [conc |-> concQ, t0 |-> t0Q, t1 |-> t1Q, env |-> env]
    /\ kstage' = "conditions" /\ UNCHANGED <<sys, conf, khist, vars>>
SetConditions(concQ, t0Q, t1Q) == SetConditionsE(concQ, t0Q, t1Q, DefaultEnv)

ScanMults == <<<<1, 1>>, <<2, 1>>, <<1, 2>>>>
UsedOf == { s \in SubstSet : { j \in 1..Len(sys) : sys[j].rx.reac[s] > 0 \/ sys[j].rx.prod[s] > 0 } # {} }
SubIdx(s) == CHOOSE i \in 1..Len(Subst) : Subst[i] = s
ScanSub == CHOOSE s \in UsedOf : \A t \in UsedOf : SubIdx(s) <= SubIdx(t)
ScanConc(i) == [s \in SubstSet |-> IF s = ScanSub THEN Qty(NMul(NFromQ(ScanMults[i]), cond.conc[s].mag), cond.conc[s].ux)
                                   ELSE cond.conc[s]]
TermsAt(conc, s) ==
    LET js == SelectSeq([j \in 1..Len(sys) |-> j], LAMBDA j : Net(sys[j].rx, s) # 0)
    IN  [i \in 1..Len(js) |-> [c |-> Net(sys[js[i]].rx, s), r |-> RateSI(sys[js[i]], conc), x |-> ExpoOf(sys[js[i]]), x2 |-> Expo2Of(sys[js[i]])]]
ReK(j) == Qty(NMul(NFromQ(<<2, 1>>), sys[j].k.mag), sys[j].k.ux)
ReRec(j) == [rx |-> sys[j].rx, k |-> ReK(j), law |-> LawOf(sys[j]), ea |-> IF "ea" \in DOMAIN sys[j] THEN sys[j].ea ELSE TempQ]
TermsRe(s) ==
    LET js == SelectSeq([j \in 1..Len(sys) |-> j], LAMBDA j : Net(sys[j].rx, s) # 0)
    IN  [i \in 1..Len(js) |-> [c |-> Net(sys[js[i]].rx, s), r |-> RateSI(ReRec(js[i]), cond.conc),
                                x |-> ExpoOf(ReRec(js[i])), x2 |-> Expo2Of(ReRec(js[i]))]]
(* the rates obtained in a registry, read back in SI, and the units reported for the parameters *)
E_PhysicalRate(reg) ==
    [ rates |-> [s \in SubstSet |-> Terms(s)],
      back |-> NOfScale(BackScale(reg)),
      kin |-> [j \in 1..Len(sys) |-> KIn(reg, sys[j])],
      ein |-> [j \in 1..Len(sys) |-> IF HasExp(sys[j]) THEN MagInU(sys[j].ea, RegUnit(reg, EaDim(sys[j]))) ELSE NZero],
      tin |-> TIn(reg, TempQ), t_unit |-> RegUnit(reg, Th1),
      \* density and dose rate are parameters of every call when a radiolytic yield is present
      din |-> MagInU(EnvOf.density, RegUnit(reg, DensityDim)), d_unit |-> RegUnit(reg, DensityDim),
      rin |-> MagInU(EnvOf.doserate, RegUnit(reg, DoserateDim)), r_unit |-> RegUnit(reg, DoserateDim),
      \* the rate of every single reaction (rate_exprs_cb), same convention as the terms
      rrates |-> [j \in 1..Len(sys) |-> [c |-> 1, r |-> RateSI(sys[j], cond.conc), x |-> ExpoOf(sys[j]), x2 |-> Expo2Of(sys[j])]],
      e_units |-> [j \in 1..Len(sys) |-> RegUnit(reg, EaDim(sys[j]))],
      tev |-> MagInU(cond.t1, TimeUnit(reg)),
      \* a variation of the initial state: several concentration vectors at once (the first substance of the
      \* system takes ScanMults times its concentration, every substance stays in its own unit); each row is
      \* judged like a single state
      scan |-> [i \in 1..Len(ScanMults) |->
                  [ cin |-> [s \in SubstSet |-> CIn(reg, ScanConc(i)[s])],
                    rates |-> [s \in SubstSet |-> TermsAt(ScanConc(i), s)] ]],
      scansub |-> ScanSub, scanmults |-> ScanMults,
      \* object history: the constants of the SAME reaction objects are reassigned (twice their value, as written in
      \* ReK) and the ODE system is built again from the same reaction system: the rates are those of the new constants
      reassign |-> [s \in SubstSet |-> TermsRe(s)],
      cin |-> [s \in SubstSet |-> CIn(reg, cond.conc[s])],
      p_units |-> [j \in 1..Len(sys) |-> RegUnit(reg, KParamDim(sys[j]))],
      \* evaluating, validating or solving is an observation: the constants the caller holds are still
      \* the constants as written (sys is UNCHANGED)
      kwritten |-> [j \in 1..Len(sys) |-> sys[j].k.mag] ]
\* a system is built over the substances that take part in some reaction
Used == { s \in SubstSet : { j \in 1..Len(sys) : sys[j].rx.reac[s] > 0 \/ sys[j].rx.prod[s] > 0 } # {} }
\* The symbolic ODE back end needs every right-hand side to be an expression with a symbol in it: a
\* substance whose rate is a numeric constant (only zero-order reactions with inlined constants act on
\* it) or identically zero cannot be built, with or without units.  Such systems are outside the model.
\* how reaction j gives its constants to the ODE system in a mode: "inline" (quantities inside the rate
\* expression), "named" (unique keys, passed as parameters with every call), "subs" (unique keys, values
\* given once as substitutions), "mixed" (odd reactions named, even ones inline)
QOut2(q) == [mag |-> q.mag, ux |-> q.ux]
AllModes == {"inline", "named", "subs", "mixed"}
IsNamed(j, mode) == mode = "named" \/ (mode = "mixed" /\ j % 2 = 1)
\* (written with a set, not with \E: inside an action TLC would branch on every witness)
Buildable(mode) == \A s \in Used : { j \in 1..Len(sys) :
                       Net(sys[j].rx, s) # 0 /\ (Order(sys[j].rx) > 0 \/ IsNamed(j, mode) \/ LawOf(sys[j]) # "mass") } # {}
EnvOut == [tsrc |-> EnvOf.tsrc, T0 |-> QOut2(EnvOf.T0), dTdt |-> QOut2(EnvOf.dTdt),
           density |-> QOut2(EnvOf.density), doserate |-> QOut2(EnvOf.doserate)]
PhysicalRate(reg, mode) ==
    /\ kstage = "conditions" /\ IsReg(reg) /\ mode \in AllModes /\ Buildable(mode)
    /\ conf' = [name |-> conf.name, reg |-> reg, mode |-> mode]
    /\ KLog([op |-> "rates", reg |-> reg, mode |-> mode, laws |-> [j \in 1..Len(sys) |-> LawOf(sys[j])],
              temp |-> [mag |-> TempQ.mag, ux |-> TempQ.ux], env |-> EnvOut,
              kre |-> [j \in 1..Len(sys) |-> QOut2(ReK(j))]], E_PhysicalRate(reg))
    /\ kstage' = "rates" /\ UNCHANGED <<sys, cond, vars>>

(* output rescaling and a two-point integration with quantities in and out *)
RECURSIVE LawTag(_)
LawTag(j) == IF j > Len(sys) THEN "" ELSE "/" \o LawOf(sys[j]) \o LawTag(j + 1)
\* (an output unit that is not given - written <<>> - means the registry's own unit)
OutC(oc) == IF oc = <<>> THEN ConcUnit(conf.reg) ELSE UnitOf(oc)
OutT(ot) == IF ot = <<>> THEN TimeUnit(conf.reg) ELSE UnitOf(ot)
ZTag(sb) == IF NIsZero(cond.conc[sb].mag) THEN sb ELSE ""
E_Output(oc, ot) ==
    [ y0 |-> [s \in SubstSet |-> MagInU(cond.conc[s], OutC(oc))],
      x1 |-> MagInU(cond.t1, OutT(ot)),
      cunit |-> OutC(oc), tunit |-> OutT(ot),
      \* the magnitudes are demanded only relative to a unit that was asked for (a registry entry such as
      \* 60*s is not a unit a result can be expressed "in"; the physical value is demanded in any case)
      cmag |-> (oc # <<>>), tmag |-> (ot # <<>>),
      exact |-> AllZeroOrder,
      yend |-> IF AllZeroOrder THEN [s \in SubstSet |-> EndTerms(s)] ELSE [s \in SubstSet |-> <<>>],
      group |-> conf.name \o LawTag(1) \o "/" \o EnvOf.tsrc \o "/absent:" \o ZTag("A") \o ZTag("B") \o ZTag("C") \o ZTag("D") ]       \* one physical problem = one system with one assignment of laws
Output(oc, ot) ==
    /\ kstage = "rates" /\ IsUExpr(oc) /\ IsUExpr(ot) /\ OutC(oc).dim = ConcDim /\ OutT(ot).dim = T1
    /\ KLog([op |-> "output", oc |-> oc, ot |-> ot], E_Output(oc, ot))
    /\ kstage' = "done" /\ UNCHANGED <<sys, cond, conf, vars>>

(* --- one solver object of the alternative builder, called several times ---                 *)
(* The object (validate + unit_aware_solve of one system in one registry) is made once; every  *)
(* call brings its own constants, concentrations and end time as quantities.  The object has   *)
(* NO memory: whatever was asked before, a call whose constants all have the right dimension   *)
(* is answered (and its answer depends on the physical problem only, so it equals the answer   *)
(* of a fresh object, in any registry), and a call with a constant of the wrong dimension is   *)
(* refused.  The expected record of a call is a function of the call alone.                    *)
IsCall(call) ==
    /\ Len(call.ks) = Len(sys) /\ \A j \in 1..Len(call.ks) : IsUExpr(call.ks[j].ux)
    /\ \A s \in SubstSet : IsUExpr(call.conc[s].ux) /\ UnitQ(call.conc[s]).dim = ConcDim
    /\ IsUExpr(call.t1.ux) /\ UnitQ(call.t1).dim = T1
CallAccepted(call) == \A j \in 1..Len(sys) : AcceptsRate(Order(sys[j].rx), UnitQ(call.ks[j]))
RecsOf(call) == [j \in 1..Len(sys) |-> [rx |-> sys[j].rx, k |-> call.ks[j]]]
TermsOf(recs, conc, s) ==
    LET js == SelectSeq([j \in 1..Len(recs) |-> j], LAMBDA j : Net(recs[j].rx, s) # 0)
    IN  [i \in 1..Len(js) |-> [c |-> Net(recs[js[i]].rx, s), r |-> RateSI(recs[js[i]], conc)]]
\* the physical problem a call poses: everything in SI.  Equal problems must get equal answers.
Phys(call) == [k |-> [j \in 1..Len(sys) |-> SIValue(call.ks[j])],
               c |-> [s \in Used |-> SIValue(call.conc[s])], t |-> SIValue(call.t1)]
E_Solve(call) == IF CallAccepted(call) THEN [accept |-> TRUE, phys |-> Phys(call)] ELSE [accept |-> FALSE]
E_Validate(call) == IF CallAccepted(call)
                    THEN [accept |-> TRUE, rates |-> [s \in SubstSet |-> TermsOf(RecsOf(call), call.conc, s)]]
                    ELSE [accept |-> FALSE]
QOut(q) == [mag |-> q.mag, ux |-> q.ux]
CallOut(call) == [ks |-> [j \in 1..Len(call.ks) |-> QOut(call.ks[j])],
                  conc |-> [s \in SubstSet |-> QOut(call.conc[s])], t1 |-> QOut(call.t1)]
IsCallOp(a) == a.op \in {"solve", "validate"}
NCalls == Cardinality({ i \in 1..Len(khist) : IsCallOp(khist[i].a) })

MakeSolver(reg) ==
    /\ kstage = "built" /\ IsReg(reg) /\ Buildable("named") /\ AllMass
    /\ conf' = [name |-> conf.name, reg |-> reg, mode |-> "solver"]
    /\ KLog([op |-> "solver", reg |-> reg], [ok |-> TRUE])
    /\ kstage' = "solver" /\ UNCHANGED <<sys, cond, vars>>
Solve(call) ==
    /\ kstage = "solver" /\ IsCall(call)
    /\ KLog([op |-> "solve", call |-> CallOut(call)], E_Solve(call))
    /\ UNCHANGED <<kstage, sys, cond, conf, vars>>          \* the object is as it was
Validate(call) ==
    /\ kstage = "solver" /\ IsCall(call)
    /\ KLog([op |-> "validate", call |-> CallOut(call)], E_Validate(call))
    /\ UNCHANGED <<kstage, sys, cond, conf, vars>>
FinishSolver ==
    /\ kstage = "solver" /\ NCalls >= 1
    /\ kstage' = "done" /\ UNCHANGED <<sys, cond, conf, khist, vars>>

------------------------------------------------------------------------------
(* generation *)
Cyc(seq, i) == seq[((i - 1) % Len(seq)) + 1]
TimeSeq == <<"s", "min", "h", "ms">>
Idx(seq, x) == CHOOSE i \in 1..Len(seq) : seq[i] = x
\* reaction j takes the (j-1)-th successor of the chosen units, so that constants of one system differ
LawSeq == <<"mass", "arrhenius", "eyring">>
\* plans: one law for every reaction, "alt" (cycling), "rad" (the first reaction is a radiolytic source, the rest mass action)
LawFor(plan, j) == IF plan = "alt" THEN Cyc(LawSeq, j) ELSE IF plan = "rad" THEN (IF j = 1 THEN "radiolytic" ELSE "mass")
                   ELSE IF plan = "hs" THEN "eyringhs" ELSE plan
DHSI == <<<<5000, 1>>, <<2500, 1>>, <<7500, 1>>, <<1200, 1>>>>          \* J/mol
DSSI == <<<<10, 1>>, <<-5, 1>>, <<20, 1>>, <<3, 1>>>>                  \* J/(K mol)
DHUx == <<<<F("J", 1), F("mol", -1)>>, <<F("kilojoule", 1), F("mol", -1)>>, <<F("J", 1), F("mmol", -1)>>>>
DSUx == <<<<F("J", 1), F("K", -1), F("mol", -1)>>, <<F("kilojoule", 1), F("K", -1), F("mol", -1)>>>>
YieldUx == <<<<F("per100eV", 1)>>, <<F("umol_per_J", 1)>>, <<F("mol", 1), F("J", -1)>>, <<F("mmol", 1), F("kilojoule", -1)>>>>
GSI == <<5, 2>>                       \* mol/J  (a huge yield, so that the source term is comparable with the other rates)
EnvFor(plan, tsrc) ==
    [tsrc |-> tsrc, T0 |-> Written(T0SI, <<F("K", 1)>>),
     dTdt |-> Written(DTSI, <<F("K", 1), F(Cyc(TimeSeq, plan + 1), -1)>>),
     density |-> Written(DensSI, Cyc(<<<<F("g", 1), F("cm", -3)>>, <<F("kg", 1), F("m", -3)>>, <<F("kg", 1), F("dm3", -1)>>>>, plan + 1)),
     doserate |-> Written(DoseSI, Cyc(<<<<F("Gy", 1), F("min", -1)>>, <<F("kilogray", 1), F("h", -1)>>, <<F("Gy", 1), F("s", -1)>>>>, plan + 1))]
ASSUME QAdd(T0SI, QMul(DTSI, T1SI)) = TempSI
KuxFor(name, tn, cn, wrong) ==
    [j \in 1..Len(SysLib[name]) |->
        LET order == Order(RxLib[SysLib[name][j]])
            t == Cyc(TimeSeq, Idx(TimeSeq, tn) + j - 1)
            c == Cyc(ConcKeys, Idx(ConcKeys, cn) + j - 1)
        IN  IF j = 1 THEN WrongUx(wrong, order, c, t) ELSE RateUx(order, c, t)]
KuxLaw(name, tn, cn, wrong, plan) ==
    [j \in 1..Len(SysLib[name]) |->
        IF LawFor(plan, j) = "eyring" THEN <<F("K", -1), F(Cyc(TimeSeq, Idx(TimeSeq, tn) + j - 1), -1)>>
        ELSE IF LawFor(plan, j) = "radiolytic" THEN Cyc(YieldUx, Idx(TimeSeq, tn) + Idx(ConcKeys, cn))
        ELSE IF LawFor(plan, j) = "eyringhs" THEN Cyc(DHUx, Idx(TimeSeq, tn) + j)
        ELSE KuxFor(name, tn, cn, wrong)[j]]
\* zero is a concentration too: from plan 5 on substance B is absent, from plan 6 on A as well
CSIFor(plan) == [s \in SubstSet |-> IF (plan >= 5 /\ s = "B") \/ (plan >= 6 /\ s = "A") THEN <<0, 1>> ELSE CSI[s]]
CuxFor(plan) == [s \in SubstSet |-> ConcUx[Cyc(ConcKeys, plan + Idx(Subst, s))]]

GenRateAccept == \E tpl \in DOMAIN RxLib, tn \in KTimes, cn \in KConcs, w \in Wrongs, kf \in KForms, how \in Hows :
                     "accept" \in Modes /\ (how \notin {"init", "zero"} => tn = "s" /\ kf = "quantity") /\ (kf = "uncertain" => tn = "s")
                     /\ (how = "zero" => tn = "min")
                     /\ RateAcceptV(RxLib[tpl], WrongUx(w, Order(RxLib[tpl]), cn, tn), kf, how)
GenKAccept == \E tpl \in EqTemplates, cn \in KConcs, w \in EqWrongs, kf \in KForms, how \in Hows :
                     "accept" \in Modes /\ (how \notin {"init", "zero"} => kf = "quantity")
                     /\ KAcceptV(RxLib[tpl], WrongKUx(w, DNu(RxLib[tpl]), cn), kf, how)
KSIFor(law, j) == IF law = "radiolytic" THEN GSI ELSE IF law = "eyringhs" THEN DHSI[j] ELSE KSI[j]
GenSetSystem == \E name \in Systems, tn \in KTimes, cn \in KConcs, w \in (Wrongs \cap {"none", "conc-", "time2"}), plan \in Laws :
                     (w # "none" => plan = "mass") /\
                     SetSystem(name, [j \in 1..Len(SysLib[name]) |->
                                        [rx |-> RxLib[SysLib[name][j]],
                                         k |-> Written(KSIFor(LawFor(plan, j), j), KuxLaw(name, tn, cn, w, plan)[j]),
                                         law |-> LawFor(plan, j),
                                         ea |-> IF LawFor(plan, j) = "eyringhs" THEN Written(DSSI[j], Cyc(DSUx, Idx(ConcKeys, cn) + j))
                                                ELSE Written(EASI[j], <<F("K", 1)>>)]])
GenSetConditions == \E plan \in CPlans, tn \in TUnits, tsrc \in TSources :
                     (Modes \ {"accept", "solver"}) # {} /\ (tsrc # "param" => ~AllMass)
                     /\ SetConditionsE([s \in SubstSet |-> Written(CSIFor(plan)[s], CuxFor(plan)[s])],
                                       Written(<<0, 1>>, <<F(tn, 1)>>), Written(T1SI, <<F(tn, 1)>>), EnvFor(plan, tsrc))
GenPhysicalRate == \E reg \in KRegs, mode \in (Modes \ {"accept", "solver"}) : PhysicalRate(reg, mode)
GenOutput == \E o \in Outs : Output(IF o[1] = "none" THEN <<>> ELSE ConcUx[o[1]], IF o[2] = "none" THEN <<>> ELSE <<F(o[2], 1)>>)

\* calls: the physical problem of the module ("good"), the same problem written in other units
\* ("good2"), another problem in the units of "good" ("goodval"), and calls in which one constant has a
\* wrong dimension ("bad": the first one, concentration power off; "bad2": the last one, per time squared)
KSI2 == <<<<1, 2>>, <<9, 10>>, <<5, 4>>, <<2, 3>>>>
\* a call kind is [k, z]: k as above, z the set of substances that are ABSENT (concentration zero) in the call -
\* a constant of the wrong dimension has to be refused also when its reaction does not run at the given state
AllCallKinds == {"good", "good2", "goodval", "bad", "bad2"}
CallVar(vz) ==
    LET v == vz.k
        shift == IF v \in {"good2", "bad2"} THEN 2 ELSE 0
        n == Len(sys)
        kux(j) == LET order == Order(sys[j].rx)
                      t == Cyc(TimeSeq, j + shift)  c == Cyc(ConcKeys, j + shift)
                  IN  IF v = "bad" /\ j = 1 THEN WrongUx("conc-", order, c, t)
                      ELSE IF v = "bad2" /\ j = n THEN WrongUx("time2", order, c, t)
                      ELSE RateUx(order, c, t)
        ksi(j) == IF v = "goodval" THEN KSI2[j] ELSE KSI[j]
    IN  [ ks |-> [j \in 1..n |-> Written(ksi(j), kux(j))],
          conc |-> [s \in SubstSet |-> Written(IF s \in vz.z THEN <<0, 1>> ELSE CSI[s], CuxFor(shift)[s])],
          t1 |-> Written(T1SI, <<F(Cyc(TimeSeq, 1 + shift), 1)>>) ]
GenMakeSolver == \E reg \in KRegs : "solver" \in Modes /\ MakeSolver(reg)
GenSolve == \E v \in CallKinds : NCalls < MaxCalls /\ Solve(CallVar(v))
GenValidate == \E v \in { c \in CallKinds : c.k \in {"good", "bad"} } : NCalls < MaxCalls /\ Validate(CallVar(v))
GenFinishSolver == NCalls = MaxCalls /\ FinishSolver

KNext == GenRateAccept \/ GenKAccept \/ GenSetSystem \/ Build \/ GenSetConditions \/ GenPhysicalRate \/ GenOutput
         \/ GenMakeSolver \/ GenSolve \/ GenValidate \/ GenFinishSolver
KSpec == KInit /\ [][KNext]_<<kvars, vars>>

------------------------------------------------------------------------------
(* invariants *)
KDone == kstage = "done"
\* the physical rate does not depend on the registry (nor, by construction of Written, on the units chosen)
RegistryIndependent ==
    (kstage = "conditions" /\ AllAccepted) =>      \* sys and cond do not change afterwards
        \A reg \in KRegs : \A j \in 1..Len(sys) :
            /\ RateVia(reg, sys[j], cond.conc) = RateSI(sys[j], cond.conc)
            /\ (LawOf(sys[j]) = "eyringhs" => ExpoVia(reg, sys[j]) = ExpoOf(sys[j]))
\* the written problem is the physical problem
WrittenIsPhysical ==
    /\ (sys # <<>> /\ AllAccepted) => \A j \in 1..Len(sys) :
            SIValue(sys[j].k) = NFromQ(KSIFor(LawOf(sys[j]), j))
    /\ ("conc" \in DOMAIN cond) => \A s \in SubstSet : SIValue(cond.conc[s]) \in {NFromQ(CSI[s]), NZero}
\* a constant of the wrong dimension makes the unitless rate depend on the registry: this is why it must be refused
RefusedOnlyIfWrongDimension ==
    \A i \in 1..Len(khist) : khist[i].a.op = "rate_accept" =>
        (khist[i].e.accept <=> UnitOf(khist[i].a.kux).dim = RateDim(khist[i].e.order))
\* a solver object has no memory: equal calls are answered equally wherever they stand in the history,
\* and a call is refused exactly when one of its constants has a wrong dimension
SolverHasNoMemory ==
    \A i, j \in 1..Len(khist) :
        (IsCallOp(khist[i].a) /\ IsCallOp(khist[j].a) /\ khist[i].a = khist[j].a) => khist[i].e = khist[j].e
SolverRefusesExactlyWrongDimensions ==
    \A i \in 1..Len(khist) : IsCallOp(khist[i].a) =>
        (khist[i].e.accept <=> \A j \in 1..Len(sys) :
             UnitOf(khist[i].a.call.ks[j].ux).dim = RateDim(Order(sys[j].rx)))
KTypeOK == kstage \in {"start", "system", "built", "conditions", "rates", "solver", "done"}

RECURSIVE CallClass(_)
CallClass(i) == IF i > Len(khist) THEN ""
                ELSE (IF IsCallOp(khist[i].a)
                      THEN "-" \o (IF khist[i].a.op = "solve" THEN "s" ELSE "v") \o (IF khist[i].e.accept THEN "ok" ELSE "bad")
                      ELSE "") \o CallClass(i + 1)
KOps == [i \in 1..Len(khist) |-> khist[i].a]
KExp == [i \in 1..Len(khist) |-> khist[i].e]
KClass == IF khist = <<>> THEN "none"
          ELSE IF khist[1].a.op = "rate_accept" THEN "accept-o" \o ToString(khist[1].e.order) \o (IF khist[1].e.accept THEN "-ok" ELSE "-bad")
          ELSE IF khist[1].a.op = "k_accept" THEN "keq-" \o (IF khist[1].e.must_raise THEN "bad" ELSE "ok")
          ELSE IF ~AllAccepted THEN "build-refused"
          ELSE IF conf.mode = "solver" THEN "solver-" \o conf.name \o CallClass(1)
          ELSE conf.name \o "-" \o conf.mode \o (IF AllMass THEN "" ELSE "-law")
SysOut == [j \in 1..Len(sys) |-> [rx |-> sys[j].rx, k |-> [mag |-> sys[j].k.mag, ux |-> sys[j].k.ux], name |-> "k" \o ToString(j),
                                   law |-> LawOf(sys[j]), ename |-> "e" \o ToString(j),
                                   ea |-> IF LawOf(sys[j]) = "mass" THEN [none |-> TRUE] ELSE [mag |-> sys[j].ea.mag, ux |-> sys[j].ea.ux]]]
CondOut == IF "conc" \in DOMAIN cond
           THEN [conc |-> [s \in SubstSet |-> [mag |-> cond.conc[s].mag, ux |-> cond.conc[s].ux]],
                 t0 |-> [mag |-> cond.t0.mag, ux |-> cond.t0.ux], t1 |-> [mag |-> cond.t1.mag, ux |-> cond.t1.ux]]
           ELSE [none |-> TRUE]
\* tolerances: 10^-10 on rates (a few dozen roundings), 10^-12 on conversions, 10^-6 on integrated values
KCaseRec == [ in |-> [sys |-> SysOut, cond |-> CondOut, ops |-> KOps],
              exp |-> [obs |-> KExp, tol10 |-> 10, ctol10 |-> 12, itol10 |-> 6, gens |-> GenValue],
              cls |-> KClass ]
KEmit == KDone => PrintT(<<"CASE", ToJson(KCaseRec)>>)
=============================================================================
