INIT TInit
NEXT TNext
CONSTANTS
  FactorNames = {}
  Powers = {}
  MaxFactors = 0
  Mags = {}
  TargetNames = {}
  TargetPowers = {}
  MaxTFactors = 0
  ScaleKs = {}
  Kinds = {}
  PerturbNames = {}
  RegPool = {}
  Keys = {}
  HelperNames = {}
  Plan = {}
  Systems = {}
  KTimes = {}
  KConcs = {}
  Wrongs = {}
  CPlans = {}
  TUnits = {}
  KRegs = {}
  Outs = {}
  Modes = {}
  EqTemplates = {}
  EqWrongs = {}
  CallKinds = {}
  Laws = {}
  TSources = {}
  MaxCalls = 0
INVARIANT Verdict
INVARIANT RefusedOnlyIfWrongDimension
CHECK_DEADLOCK FALSE
