---------------------------- MODULE UnitKineticsTrace ----------------------------
(* Trace validation for UnitKinetics (C10).  A trace is one execution of chempy: either the   *)
(* construction of one Reaction / Equilibrium with a unit-carrying constant (accepted or      *)
(* refused), or a system as written, its construction, the conditions as written and the      *)
(* UNITLESS arrays and rates the unit-aware ODE system produced in some registry.  TLC        *)
(* replays the events through the actions of UnitKinetics and judges every observed double    *)
(* with exact big-rational arithmetic against the registry-independent SI rate.               *)
EXTENDS UnitKinetics, UnitsFloat, IOUtils

Traces == JsonDeserialize(IOEnv.TRACE_FILE)

VARIABLES tid, pos, verdict
Ev == Traces[tid][pos]
allvars == <<kvars, vars>>

TInit == KInit /\ tid \in 1..Len(Traces) /\ pos = 1 /\ verdict = "none"

QOf(rec) == Qty(NFromQ(rec.mag), rec.ux)
CallOf(c) == [ks |-> [j \in 1..Len(c.ks) |-> QOf(c.ks[j])], conc |-> [s \in SubstSet |-> QOf(c.conc[s])], t1 |-> QOf(c.t1)]
Act(e) ==
    CASE e.ev = "rate_accept" -> RateAccept(e.rx, e.kux)
      [] e.ev = "k_accept"    -> KAccept(e.rx, e.kux)
      [] e.ev = "system"      -> SetSystem("trace", [j \in 1..Len(e.rxns) |->
                                     [rx |-> e.rxns[j].rx, k |-> Qty(NFromQ(e.rxns[j].kmag), e.rxns[j].kux)]])
      [] e.ev = "build"       -> Build
      [] e.ev = "conditions"  -> SetConditions([s \in SubstSet |-> QOf(e.conc[s])], QOf(e.t0), QOf(e.t0))
      [] e.ev = "rates"       -> PhysicalRate(e.reg, e.mode)
      [] e.ev = "solver"      -> MakeSolver(e.reg)
      [] e.ev = "solve"       -> Solve(CallOf(e.call))
      [] e.ev = "validate"    -> Validate(CallOf(e.call))
      [] OTHER                -> FALSE

RTol == 10
CTol == 12
ObsClause(e) ==
    CASE e.ev = "rate_accept" -> LET x == E_RateAccept(e.rx, e.kux) IN
             IF e.accepted = x.accept THEN "" ELSE IF x.accept THEN "refused-right-dimension" ELSE "accepted-wrong-dimension"
      [] e.ev = "k_accept" -> IF E_KAccept(e.rx, e.kux).must_raise /\ e.accepted THEN "accepted-wrong-dimension" ELSE ""
      [] e.ev \in {"system", "conditions", "solver"} -> ""
      \* a call on the solver object: refused iff a constant has a wrong dimension, whatever came before
      [] e.ev = "solve" -> LET x == E_Solve(CallOf(e.call)) IN
             IF e.accepted = x.accept THEN "" ELSE IF x.accept THEN "refused-right-dimension" ELSE "accepted-wrong-dimension"
      [] e.ev = "validate" -> LET x == E_Validate(CallOf(e.call)) IN
             IF e.accepted # x.accept THEN (IF x.accept THEN "refused-right-dimension" ELSE "accepted-wrong-dimension")
             ELSE IF ~x.accept THEN ""
             ELSE IF \E s \in Used : ~NearScaled(e.rates[s], TermsSum(x.rates[s]), TermsAbs(x.rates[s]), RTol) THEN "validate-rate"
             ELSE ""
      [] e.ev = "build" -> IF e.accepted = E_Build.accept THEN "" ELSE "acceptance"
      [] e.ev = "rates" -> LET x == E_PhysicalRate(e.reg)  back == NumRat(x.back)  inv == BRat(back.s, back.d, back.n) IN
             IF { e.used[i] : i \in 1..Len(e.used) } # Used THEN "names"
             ELSE IF \E s \in Used : ~NearTol(e.cin[s], x.cin[s], CTol) THEN "to_arrays-concentration"
             ELSE IF e.mode = "named" /\ \E j \in 1..Len(sys) : ~NearTol(e.kin[j], x.kin[j], CTol) THEN "to_arrays-parameter"
             ELSE IF e.mode = "named" /\ \E j \in 1..Len(sys) : e.pdim[j] # x.p_units[j].dim THEN "p_units-dimension"
             ELSE IF e.mode = "named" /\ \E j \in 1..Len(sys) : ~NearTol(e.psi[j], NOfScale(x.p_units[j].scale), CTol) THEN "p_units-size"
             ELSE IF \E s \in Used : ~NearScaled(e.f[s], BRMul(TermsSum(x.rates[s]), inv), BRMul(TermsAbs(x.rates[s]), inv), RTol) THEN "rate"
             ELSE ""
      [] OTHER -> "unknown-event"

TStep ==
    /\ verdict = "none" /\ pos <= Len(Traces[tid])
    /\ IF Ev.ev = "end"
       THEN verdict' = "accept" /\ UNCHANGED allvars
       ELSE Act(Ev) /\ ObsClause(Ev) = "" /\ verdict' = "none"
    /\ pos' = pos + 1 /\ UNCHANGED tid

TReject ==
    /\ verdict = "none" /\ ~ENABLED TStep
    /\ verdict' = "reject" /\ UNCHANGED <<allvars, tid, pos>>

TNext == TStep \/ TReject

Clause ==
    IF pos > Len(Traces[tid]) THEN "model:no-end-event"
    ELSE LET e == Ev IN
      IF e.ev = "error" THEN "unexpected-" \o e.exc
      ELSE IF ~ENABLED Act(e) THEN "model:" \o e.ev
      ELSE ObsClause(e)

Verdict == verdict # "none" =>
    PrintT(<<"VERDICT", tid, verdict, pos, IF verdict = "accept" THEN "" ELSE Clause>>)
=============================================================================
