---------------------------- MODULE UnitKinetics_MC ----------------------------
(* Constant definitions for the sliced configurations of UnitKinetics (C10).                  *)
EXTENDS UnitKinetics

NoPlan == <<>>
\* registries whose entries are scaled quantities (number * unit)
KFac(l, m, t, c, th, n) == [length |-> l, mass |-> m, time |-> t, current |-> c, temperature |-> th, amount |-> n]
KQ1 == ZeroScale
KRegsScaled == {
    [length |-> "m", mass |-> "kg", time |-> "s", current |-> "A", temperature |-> "K", amount |-> "mol",
     factors |-> KFac(S(-1, 0, -1, 0, 0), S(-3, 0, -3, 0, 0), S(2, 1, 1, 0, 0), KQ1, KQ1, S(-6, 0, -6, 0, 0))],
    [length |-> "cm", mass |-> "g", time |-> "min", current |-> "mA", temperature |-> "K", amount |-> "mmol",
     factors |-> KFac(S(1, 0, 1, 0, 0), KQ1, S(-2, -1, -1, 0, 0), S(3, 0, 3, 0, 0), KQ1, S(-3, 0, -3, 0, 0))] }
KRegs108 == { [length |-> l, mass |-> m, time |-> t, current |-> c, temperature |-> "K", amount |-> a] :
              l \in {"m", "cm", "dm"}, m \in {"kg", "g"}, t \in {"s", "min", "ms"}, c \in {"A", "mA"},
              a \in {"mol", "mmol", "umol"} }
\* mass and current do not enter any kinetic unit: 27 registries differ in what matters
KRegs27 == { r \in KRegs108 : r.mass = "g" /\ r.current = "mA" }
KRegSI == [length |-> "m", mass |-> "kg", time |-> "s", current |-> "A", temperature |-> "K", amount |-> "mol"]
KRegs6 == KRegsScaled \cup {KRegSI} \cup { [length |-> l, mass |-> "g", time |-> t, current |-> "A", temperature |-> "K", amount |-> a] :
                         <<l, t, a>> \in {<<"cm", "min", "mmol">>, <<"dm", "ms", "umol">>, <<"m", "min", "umol">>,
                                          <<"cm", "s", "mol">>} }
ASSUME \A r \in KRegs108 \cup KRegsScaled : IsReg(r)

Outs_one == {<<"uM", "h">>}
Outs_three == {<<"uM", "h">>, <<"molcm3", "ms">>, <<"M", "s">>, <<"none", "min">>, <<"mM", "none">>}
Outs_q == {<<"uM", "h">>, <<"none", "min">>, <<"mM", "none">>}
Plans_two == {0, 2}
Plans_all == {0, 1, 2, 3, 4}
Sys_all == DOMAIN SysLib
Sys_laws == {"uni", "bi", "dimer", "ter", "chain", "mix"}
Sys_q == {"zero", "uni", "bi", "ter", "chain", "zero2", "mix", "feed"}
Eq_all == {"uni", "bi", "ter", "dimer", "zero", "zeroB", "tri", "terBCD"}
W_all == AllWrongs
W_none == {"none"}
EW_all == AllEqWrongs
KC_all == {"M", "mM", "uM", "molm3", "molcm3"}
KC_two == {"mM", "molcm3"}
KT_all == {"s", "min", "h", "ms"}
KT_two == {"min", "ms"}
Calls_all == { [k |-> kk, z |-> {}] : kk \in AllCallKinds } \cup
             { [k |-> kk, z |-> zz] : kk \in {"good", "bad", "bad2"}, zz \in {{"A"}, {"B"}, SubstSet} }
\* (histories of length 3 are taken over a smaller set of kinds: 11^3 per system and registry)
Calls_t == { [k |-> kk, z |-> {}] : kk \in {"good", "good2", "bad", "bad2"} } \cup
           { [k |-> "bad", z |-> {"A"}], [k |-> "bad2", z |-> SubstSet], [k |-> "good", z |-> {"B"}] }
Plans_q == {0, 2, 5}
Plans_t == {0, 2, 5, 6}
Calls_none == {}
KRegs2 == {KRegSI, [length |-> "dm", mass |-> "g", time |-> "ms", current |-> "A", temperature |-> "K", amount |-> "umol"]}
KRegs3 == KRegsScaled \cup KRegs2 \cup {[length |-> "cm", mass |-> "g", time |-> "min", current |-> "A", temperature |-> "K", amount |-> "mmol"]}
=============================================================================
