INIT KInit
NEXT KNext
CONSTANTS
  FactorNames = {}
  Powers = {}
  MaxFactors = 0
  Mags = {}
  TargetNames = {}
  TargetPowers = {}
  MaxTFactors = 0
  ScaleKs = {}
  Kinds = {}
  PerturbNames = {}
  RegPool = {}
  Keys = {}
  HelperNames = {}
  Plan <- NoPlan
  Systems = {}
  KTimes <- KT_all
  KConcs <- KC_all
  Wrongs <- W_all
  CPlans <- Plans_two
  TUnits = {"s"}
  KRegs <- KRegs6
  Outs <- Outs_one
  Modes = {"accept"}
  EqTemplates <- Eq_all
  EqWrongs <- EW_all
  CallKinds <- Calls_none
  MaxCalls = 0
  Laws = {"mass"}
  TSources = {"param"}
INVARIANT RegistryIndependent
INVARIANT WrittenIsPhysical
INVARIANT RefusedOnlyIfWrongDimension
INVARIANT SolverHasNoMemory
INVARIANT SolverRefusesExactlyWrongDimensions
INVARIANT KTypeOK
INVARIANT KEmit
CHECK_DEADLOCK FALSE
