INIT KInit
NEXT KNext
CONSTANTS
  FactorNames = {}
  Powers = {}
  MaxFactors = 0
  Mags = {}
  TargetNames = {}
  TargetPowers = {}
  MaxTFactors = 0
  ScaleKs = {}
  Kinds = {}
  PerturbNames = {}
  RegPool = {}
  Keys = {}
  HelperNames = {}
  Plan <- NoPlan
  Systems = {"bi", "chain", "ter"}
  KTimes = {"min"}
  KConcs = {"mM"}
  Wrongs <- W_none
  CPlans = {2}
  TUnits = {"s"}
  KRegs <- KRegs6
  Outs <- Outs_q
  Modes = {"inline", "named", "subs"}
  EqTemplates = {}
  EqWrongs = {}
  CallKinds <- Calls_none
  MaxCalls = 0
  Laws = {"arrhenius", "eyring", "alt", "hs"}
  TSources = {"param", "subs", "ramp"}
INVARIANT RegistryIndependent
INVARIANT WrittenIsPhysical
INVARIANT RefusedOnlyIfWrongDimension
INVARIANT SolverHasNoMemory
INVARIANT SolverRefusesExactlyWrongDimensions
INVARIANT KTypeOK
INVARIANT KEmit
CHECK_DEADLOCK FALSE
