INIT KInit
NEXT KNext
CONSTANTS
  FactorNames = {}
  Powers = {}
  MaxFactors = 0
  Mags = {}
  TargetNames = {}
  TargetPowers = {}
  MaxTFactors = 0
  ScaleKs = {}
  Kinds = {}
  PerturbNames = {}
  RegPool = {}
  Keys = {}
  HelperNames = {}
  Plan <- NoPlan
  Systems <- Sys_laws
  KTimes <- KT_two
  KConcs <- KC_two
  Wrongs <- W_none
  CPlans = {1}
  TUnits = {"s"}
  KRegs <- KRegs6
  Outs <- Outs_one
  Modes = {"inline", "named", "subs", "mixed"}
  EqTemplates = {}
  EqWrongs = {}
  CallKinds <- Calls_none
  MaxCalls = 0
  Laws = {"arrhenius", "eyring", "alt", "hs"}
  TSources = {"param", "subs", "ramp"}
INVARIANT RegistryIndependent
INVARIANT WrittenIsPhysical
INVARIANT RefusedOnlyIfWrongDimension
INVARIANT SolverHasNoMemory
INVARIANT SolverRefusesExactlyWrongDimensions
INVARIANT KTypeOK
INVARIANT KEmit
CHECK_DEADLOCK FALSE
