INIT KInit
NEXT KNext
CONSTANTS
  FactorNames = {}
  Powers = {}
  MaxFactors = 0
  Mags = {}
  TargetNames = {}
  TargetPowers = {}
  MaxTFactors = 0
  ScaleKs = {}
  Kinds = {}
  PerturbNames = {}
  RegPool = {}
  Keys = {}
  HelperNames = {}
  Plan <- NoPlan
  Systems = {"zero", "feed", "zero2"}
  KTimes = {"min", "h"}
  KConcs = {"mM", "M"}
  Wrongs <- W_none
  CPlans = {0, 1, 2}
  TUnits = {"s"}
  KRegs <- KRegs6
  Outs <- Outs_one
  Modes = {"inline", "named", "subs", "mixed"}
  EqTemplates = {}
  EqWrongs = {}
  CallKinds <- Calls_none
  MaxCalls = 0
  Laws = {"rad"}
  TSources = {"param"}
INVARIANT RegistryIndependent
INVARIANT WrittenIsPhysical
INVARIANT RefusedOnlyIfWrongDimension
INVARIANT SolverHasNoMemory
INVARIANT SolverRefusesExactlyWrongDimensions
INVARIANT KTypeOK
INVARIANT KEmit
CHECK_DEADLOCK FALSE
