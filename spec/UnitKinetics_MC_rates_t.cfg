INIT KInit
NEXT KNext
CONSTANTS
  FactorNames = {}
  Powers = {}
  MaxFactors = 0
  Mags = {}
  TargetNames = {}
  TargetPowers = {}
  MaxTFactors = 0
  ScaleKs = {}
  Kinds = {}
  PerturbNames = {}
  RegPool = {}
  Keys = {}
  HelperNames = {}
  Plan <- NoPlan
  Systems <- Sys_all
  KTimes <- KT_two
  KConcs <- KC_all
  Wrongs <- W_none
  CPlans <- Plans_t
  TUnits = {"s"}
  KRegs <- KRegs6
  Outs <- Outs_one
  Modes = {"inline", "named"}
  EqTemplates = {}
  EqWrongs = {}
  CallKinds <- Calls_none
  MaxCalls = 0
  Laws = {"mass"}
  TSources = {"param"}
INVARIANT RegistryIndependent
INVARIANT WrittenIsPhysical
INVARIANT RefusedOnlyIfWrongDimension
INVARIANT SolverHasNoMemory
INVARIANT SolverRefusesExactlyWrongDimensions
INVARIANT KTypeOK
INVARIANT KEmit
CHECK_DEADLOCK FALSE
