INIT KInit
NEXT KNext
CONSTANTS
  FactorNames = {}
  Powers = {}
  MaxFactors = 0
  Mags = {}
  TargetNames = {}
  TargetPowers = {}
  MaxTFactors = 0
  ScaleKs = {}
  Kinds = {}
  PerturbNames = {}
  RegPool = {}
  Keys = {}
  HelperNames = {}
  Plan <- NoPlan
  Systems = {"bi", "chain"}
  KTimes = {"h"}
  KConcs = {"uM"}
  Wrongs <- W_none
  CPlans = {1}
  TUnits = {"ms", "h"}
  KRegs <- KRegs108
  Outs <- Outs_three
  Modes = {"inline", "named"}
  EqTemplates = {}
  EqWrongs = {}
  CallKinds <- Calls_none
  MaxCalls = 0
  Laws = {"mass"}
  TSources = {"param"}
INVARIANT RegistryIndependent
INVARIANT WrittenIsPhysical
INVARIANT RefusedOnlyIfWrongDimension
INVARIANT SolverHasNoMemory
INVARIANT SolverRefusesExactlyWrongDimensions
INVARIANT KTypeOK
INVARIANT KEmit
CHECK_DEADLOCK FALSE
