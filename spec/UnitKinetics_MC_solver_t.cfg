INIT KInit
NEXT KNext
CONSTANTS
  FactorNames = {}
  Powers = {}
  MaxFactors = 0
  Mags = {}
  TargetNames = {}
  TargetPowers = {}
  MaxTFactors = 0
  ScaleKs = {}
  Kinds = {}
  PerturbNames = {}
  RegPool = {}
  Keys = {}
  HelperNames = {}
  Plan <- NoPlan
  Systems = {"uni", "chain"}
  KTimes = {"s"}
  KConcs = {"M"}
  Wrongs <- W_none
  CPlans <- Plans_two
  TUnits = {"s"}
  KRegs <- KRegs3
  Outs <- Outs_one
  Modes = {"solver"}
  EqTemplates = {}
  EqWrongs = {}
  CallKinds <- Calls_t
  MaxCalls = 3
  Laws = {"mass"}
  TSources = {"param"}
INVARIANT RegistryIndependent
INVARIANT WrittenIsPhysical
INVARIANT RefusedOnlyIfWrongDimension
INVARIANT SolverHasNoMemory
INVARIANT SolverRefusesExactlyWrongDimensions
INVARIANT KTypeOK
INVARIANT KEmit
CHECK_DEADLOCK FALSE
