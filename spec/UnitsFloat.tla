---------------------------- MODULE UnitsFloat ----------------------------
(* Judging observed doubles against the NUMBERS of Units (used by the trace specifications     *)
(* UnitsTrace and UnitKineticsTrace): a NUMBER becomes an exact big rational, the observed     *)
(* double is already one (FloatEnc), the comparison is integer arithmetic.                     *)
EXTENDS Units, FloatEnc

(* a NUMBER as a big rational: the opaque generators contribute mantissa^e and a power of ten *)
NumRat(n) ==
    IF NIsZero(n) THEN BRZero
    ELSE LET ten == n.s.eV * GenValue.eV.e10 + n.s.NA * GenValue.NA.e10
             e2 == n.s.g2 + ten
             e5 == n.s.g5 + ten
             e3 == n.s.g3
             gpos == BMul(BPowBig(BFromInt(GenValue.eV.mant), Pos(n.s.eV)), BPowBig(BFromInt(GenValue.NA.mant), Pos(n.s.NA)))
             gneg == BMul(BPowBig(BFromInt(GenValue.eV.mant), Pos(-n.s.eV)), BPowBig(BFromInt(GenValue.NA.mant), Pos(-n.s.NA)))
             num == BMul(BMul(BMul(BFromInt(Abs(n.m[1])), BPow2(Pos(e2))), BMul(BPow3(Pos(e3)), BPow5(Pos(e5)))), gpos)
             den == BMul(BMul(BMul(BFromInt(n.m[2]), BPow2(Pos(-e2))), BMul(BPow3(Pos(-e3)), BPow5(Pos(-e5)))), gneg)
         IN  BRat(Sgn(n.m[1]), num, den)

Exceeds(r, k) == r.s > 0 /\ BLe(BMul(BFromInt(k), r.d), r.n)
IsF(f) == f.s \in {-1, 0, 1}
NearTol(f, n, tol) == IsF(f) /\ FloatWithin(f, NumRat(n), tol)

(* sums of terms [c |-> integer coefficient, r |-> NUMBER] *)
TermRat(t) == BRMul(BRFromInt(t.c), NumRat(t.r))
TermsSum(ts) == BRSumSeq([i \in 1..Len(ts) |-> TermRat(ts[i])])
BRAbs(r) == IF r.s = 0 THEN r ELSE BRat(1, r.n, r.d)
TermsAbs(ts) == BRSumSeq([i \in 1..Len(ts) |-> BRAbs(TermRat(ts[i]))])
\* |f - want| <= 10^-tol * scale   (want, scale big rationals; scale >= 0)
NearScaled(f, want, scale, tol) ==
    /\ IsF(f)
    /\ LET diff == BRAdd(FloatRat(f), BRNeg(want))
       IN  diff.s = 0 \/ BLe(BMul(BMul(diff.n, scale.d), BPow10(tol)), BMul(diff.d, scale.n))

ASSUME NumRat([m |-> <<3, 7>>, s |-> S(2, -1, 1, 0, 0)]) = BRat(1, BFromInt(60), BFromInt(21))
=============================================================================
