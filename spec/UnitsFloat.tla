---------------------------- MODULE UnitsFloat ----------------------------
(* Judging observed doubles against the NUMBERS of Units (used by the trace specifications     *)
(* UnitsTrace and UnitKineticsTrace): a NUMBER becomes an exact big rational, the observed     *)
(* double is already one (FloatEnc), the comparison is integer arithmetic.                     *)
EXTENDS Units, FloatEnc

(* a NUMBER as a big rational: the opaque generators contribute mantissa^e and a power of ten *)
OGenSeq == <<"eV", "NA", "kB", "hP", "R">>
RECURSIVE OTen(_, _)
OTen(n, i) == IF i > Len(OGenSeq) THEN 0 ELSE n.s[OGenSeq[i]] * GenValue[OGenSeq[i]].e10 + OTen(n, i + 1)
RECURSIVE OMant(_, _, _)
\* product of the mantissas of the opaque generators with positive (sgn = 1) or negative (sgn = -1) exponents
OMant(n, i, sgn) == IF i > Len(OGenSeq) THEN BOne
                    ELSE BMul(BPowBig(BFromInt(GenValue[OGenSeq[i]].mant), Pos(sgn * n.s[OGenSeq[i]])), OMant(n, i + 1, sgn))
NumRat(n) ==
    IF NIsZero(n) THEN BRZero
    ELSE LET ten == OTen(n, 1)
             e2 == n.s.g2 + ten
             e5 == n.s.g5 + ten
             e3 == n.s.g3
             num == BMul(BMul(BMul(BFromInt(Abs(n.m[1])), BPow2(Pos(e2))), BMul(BPow3(Pos(e3)), BPow5(Pos(e5)))), OMant(n, 1, 1))
             den == BMul(BMul(BMul(BFromInt(n.m[2]), BPow2(Pos(-e2))), BMul(BPow3(Pos(-e3)), BPow5(Pos(-e5)))), OMant(n, 1, -1))
         IN  BRat(Sgn(n.m[1]), num, den)

Exceeds(r, k) == r.s > 0 /\ BLe(BMul(BFromInt(k), r.d), r.n)
IsF(f) == f.s \in {-1, 0, 1}
NearTol(f, n, tol) == IsF(f) /\ FloatWithin(f, NumRat(n), tol)

(* sums of terms [c |-> integer coefficient, r |-> NUMBER] *)
TermRat(t) == BRMul(BRFromInt(t.c), NumRat(t.r))
TermsSum(ts) == BRSumSeq([i \in 1..Len(ts) |-> TermRat(ts[i])])
BRAbs(r) == IF r.s = 0 THEN r ELSE BRat(1, r.n, r.d)
TermsAbs(ts) == BRSumSeq([i \in 1..Len(ts) |-> BRAbs(TermRat(ts[i]))])
\* |f - want| <= 10^-tol * scale   (want, scale big rationals; scale >= 0)
NearScaled(f, want, scale, tol) ==
    /\ IsF(f)
    /\ LET diff == BRAdd(FloatRat(f), BRNeg(want))
       IN  diff.s = 0 \/ BLe(BMul(BMul(diff.n, scale.d), BPow10(tol)), BMul(diff.d, scale.n))

ASSUME NumRat([m |-> <<3, 7>>, s |-> S(2, -1, 1, 0, 0)]) = BRat(1, BFromInt(60), BFromInt(21))
=============================================================================
