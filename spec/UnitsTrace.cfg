INIT TInit
NEXT TNext
CONSTANTS
  FactorNames = {}
  Powers = {}
  MaxFactors = 0
  Mags = {}
  TargetNames = {}
  TargetPowers = {}
  MaxTFactors = 0
  ScaleKs = {}
  Kinds = {}
  PerturbNames = {}
  RegPool = {}
  Keys = {}
  HelperNames = {}
  Plan = {}
INVARIANT Verdict
INVARIANT Reversible
INVARIANT BackIsOriginal
INVARIANT Composes
INVARIANT Canonical
CHECK_DEADLOCK FALSE
