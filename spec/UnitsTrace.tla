---------------------------- MODULE UnitsTrace ----------------------------
(* Trace validation for Units (C09): executions of chempy.units, recorded as the quantity as  *)
(* written (factor events, seal) followed by one event per operation carrying the OBSERVED    *)
(* doubles (encoded exactly, see FloatEnc), are replayed through the actions of Units.  After *)
(* every step the observation must lie within relative 10^-Tol10 of the value the action      *)
(* logged; the comparison is exact big-rational arithmetic inside TLC.                        *)
EXTENDS UnitsFloat, IOUtils

Traces == JsonDeserialize(IOEnv.TRACE_FILE)

VARIABLES tid, pos, verdict
tvars == <<vars, tid, pos, verdict>>

Ev == Traces[tid][pos]

TInit == Init /\ tid \in 1..Len(Traces) /\ pos = 1 /\ verdict = "none"

Near(f, n) == NearTol(f, n, Tol10)
NearUnit(dim, f, u) == dim = u.dim /\ Near(f, NOfScale(u.scale))

(* the Units action an event stands for *)
Act(e) ==
    CASE e.ev = "factor"         -> AddFactor(e.n, e.p)
      [] e.ev = "seal"           -> Seal(e.mag)
      [] e.ev = "convert"        -> Convert(e.t)
      [] e.ev = "back"           -> MultiplyBack
      [] e.ev = "via"            -> Via(e.u1, e.u2)
      [] e.ev = "scale"          -> Scale(e.k)
      [] e.ev = "container"      -> Container(e.kind, e.t)
      [] e.ev = "plain"          -> Plain(e.form, e.tw, e.k, e.t)
      [] e.ev = "incompatible"   -> Incompatible(e.t)
      [] e.ev = "dimensionality" -> DimensionalityOf(e.form)
      [] e.ev = "unitof"         -> UnitOfQ(e.form, e.simp)
      [] e.ev = "strip"          -> Strip
      [] e.ev = "mixnum"         -> MixNum(e.fn, e.numfirst)
      [] e.ev = "defunit"        -> DefaultUnit(e.reg)
      [] e.ev = "unitless"       -> UnitlessInForm(e.reg, e.form)
      [] e.ev = "derived"        -> Derived(e.reg, e.key)
      [] e.ev = "roundtrip"      -> RoundTrip(e.reg)
      [] e.ev = "bexp"           -> BackendCall(e.be, e.fn, e.form)
      [] OTHER                   -> FALSE

(* the first clause of the property the observation of event e violates in the current state, *)
(* "" if none.  Evaluated where Act(e) is enabled.                                             *)
RECURSIVE FirstBad(_, _, _)
FirstBad(obs, want, i) == IF i > Len(want) THEN 0
                          ELSE IF ~Near(obs[i], want[i]) THEN i ELSE FirstBad(obs, want, i + 1)
ObsClause(e) ==
    CASE e.ev \in {"factor", "seal"} -> ""
      [] e.ev = "convert" -> LET x == E_Convert(e.t) IN
             IF ~Near(e.x, x.x) THEN "magnitude" ELSE IF ~Near(e.si, x.si) THEN "multiply-back"
             ELSE IF ~Near(e.rs_x, x.x) \/ ~Near(e.rs_si, x.si) THEN "rescale"
             ELSE IF ~Near(e.uq_x, x.x) THEN "uncertain-magnitude" ELSE ""
      [] e.ev = "back" -> LET x == E_Back IN
             IF ~Near(e.x, x.x) THEN "magnitude" ELSE IF ~Near(e.si, x.si) THEN "multiply-back" ELSE ""
      [] e.ev = "via" -> LET x == E_Via(e.u1, e.u2) IN
             IF ~Near(e.x, x.x) THEN "direct" ELSE IF ~Near(e.y, x.y) THEN "composed" ELSE ""
      [] e.ev = "scale" -> IF ~Near(e.x, E_Scale(e.k).x) THEN "magnitude" ELSE ""
      [] e.ev = "container" -> LET want == E_Container(e.kind, e.t).xs IN
             IF Len(e.xs) # Len(want) THEN "length"
             ELSE IF FirstBad(e.xs, want, 1) # 0 THEN "element" ELSE ""
      [] e.ev = "plain" -> LET want == E_Plain(e.form, e.tw, e.k, e.t).xs IN
             IF Len(e.xs) # Len(want) THEN "length"
             ELSE IF FirstBad(e.xs, want, 1) # 0 THEN "element" ELSE ""
      [] e.ev = "incompatible" -> IF ~e.raised THEN "missing-raise" ELSE IF ~e.rs_raised THEN "rescale-missing-raise" ELSE ""
      [] e.ev = "dimensionality" -> IF ~(e.dim = E_Dimensionality.dim /\ e.extra = <<>>) THEN "dimensionality"
                                    ELSE IF e.unitless # E_Dimensionality.unitless THEN "is_unitless" ELSE ""
      [] e.ev = "unitof" -> LET x == E_UnitOfQ(e.form, e.simp) IN
             IF e.dim # x.unit.dim THEN "unit-dimension" ELSE IF ~Near(e.si, NOfScale(x.unit.scale)) THEN "unit-size"
             ELSE IF ~Near(e.mag, x.mag) THEN "simplified" ELSE ""
      [] e.ev = "mixnum" -> LET x == E_MixNum(e.fn, e.numfirst) IN
             IF e.raised # x.raise THEN (IF e.raised THEN "unexpected-raise" ELSE "missing-raise")
             ELSE IF x.raise THEN ""
             ELSE IF e.fn \in {"uniform", "uniform_tuple"}
                  THEN (IF Len(e.si) # 2 \/ Len(e.mags) # 2 THEN "length"
                        ELSE IF FirstBad(e.si, x.pure, 1) # 0 THEN "element" ELSE IF FirstBad(e.mags, x.mags, 1) # 0 THEN "common-unit" ELSE "")
             ELSE IF e.fn = "to_unitless" THEN (IF Len(e.si) # 2 THEN "length" ELSE IF FirstBad(e.si, x.pure, 1) # 0 THEN "element" ELSE "")
             ELSE IF e.fn = "unit_of" THEN (IF e.dim # x.unit.dim THEN "unit-dimension" ELSE IF ~Near(e.usi, NOfScale(x.unit.scale)) THEN "unit-size" ELSE "")
             ELSE IF e.dim # ZeroDim THEN "dimensionality" ELSE ""
      [] e.ev = "strip" -> LET x == E_Strip IN
             IF e.raised # x.raise THEN (IF e.raised THEN "unexpected-raise" ELSE "missing-raise")
             ELSE IF ~x.raise /\ ~Near(e.x, x.x) THEN "magnitude" ELSE ""
      [] e.ev = "defunit" -> LET u == E_DefaultUnit(e.reg).unit IN
             IF e.dim # u.dim THEN "unit-dimension" ELSE IF ~Near(e.si, NOfScale(u.scale)) THEN "unit-size" ELSE ""
      [] e.ev = "unitless" -> LET x == E_UnitlessInForm(e.reg, e.form) IN
             IF e.form = "scalar" THEN (IF ~Near(e.x, x.x) THEN "magnitude" ELSE "")
             ELSE IF Len(e.xs) # Len(x.xs) THEN "length" ELSE IF FirstBad(e.xs, x.xs, 1) # 0 THEN "element" ELSE ""
      [] e.ev = "derived" -> LET u == E_Derived(e.reg, e.key).unit IN
             IF e.dim # u.dim THEN "unit-dimension" ELSE IF ~Near(e.si, NOfScale(u.scale)) THEN "unit-size" ELSE ""
      [] e.ev = "roundtrip" -> LET want == E_RoundTrip(e.reg) IN
             IF \E i \in 1..Len(e.units) : e.units[i].dim # want.units[e.units[i].d].dim THEN "unit-dimension"
             ELSE IF \E i \in 1..Len(e.units) : ~Near(e.units[i].si, NOfScale(want.units[e.units[i].d].scale)) THEN "unit-size"
             ELSE IF \E i \in 1..Len(e.units) : ~Near(e.units[i].factor, want.factor[e.units[i].d]) THEN "factor"
             ELSE IF { e.units[i].d : i \in 1..Len(e.units) } # Dims THEN "keys" ELSE ""
      \* a dimensionless argument is passed on to the plain routine, whose own range error (math.exp of
      \* more than 709) is not a refusal of units
      [] e.ev = "bexp" -> LET x == E_BackendCall(e.be, e.fn, e.form) IN
             IF e.raised = x.raise THEN ""
             ELSE IF ~e.raised THEN "missing-raise"
             ELSE IF e.exc = "OverflowError" /\ e.fn \in {"exp", "expm1"} /\ \E i \in 1..Len(x.vals) : Exceeds(NumRat(x.vals[i]), 709) THEN ""
             \* math.log & co. refuse non-positive numbers themselves (log1p: numbers <= -1)
             ELSE IF e.exc = "ValueError" /\ e.be \in {"math", "mathfirst"} /\ e.fn \in {"log", "log10", "log2", "log1p"} /\ NumRat(x.vals[1]).s <= 0 THEN ""
             ELSE "unexpected-raise"
      [] OTHER -> "unknown-event"

\* every operation leaves the quantities it was given as they were (the actions say UNCHANGED qs for the
\* observations, and a conversion only appends): the binding reports whether that held
FrameOK(e) == ("frame" \in DOMAIN e) => e.frame
TStep ==
    /\ verdict = "none" /\ pos <= Len(Traces[tid])
    /\ IF Ev.ev = "end"
       THEN verdict' = "accept" /\ UNCHANGED vars
       ELSE Act(Ev) /\ FrameOK(Ev) /\ ObsClause(Ev) = "" /\ verdict' = "none"
    /\ pos' = pos + 1 /\ UNCHANGED tid

TReject ==
    /\ verdict = "none" /\ ~ENABLED TStep
    /\ verdict' = "reject" /\ UNCHANGED <<vars, tid, pos>>

TNext == TStep \/ TReject

Clause ==
    IF pos > Len(Traces[tid]) THEN "model:no-end-event"
    ELSE LET e == Ev IN
      IF e.ev = "error" THEN "unexpected-" \o e.exc
      ELSE IF ~ENABLED Act(e) THEN "model:" \o e.ev
      ELSE IF ~FrameOK(e) THEN "argument-changed"
      ELSE ObsClause(e)

Verdict == verdict # "none" =>
    PrintT(<<"VERDICT", tid, verdict, pos, IF verdict = "accept" THEN "" ELSE Clause>>)
=============================================================================
