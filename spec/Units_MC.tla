---------------------------- MODULE Units_MC ----------------------------
(* Constant definitions for the sliced configurations of Units (C09).                        *)
EXTENDS Units, SequencesExt

P_pm1 == {-1, 1}
P_pm2 == {-2, -1, 1, 2}
P_pm3 == {-3, -2, -1, 1, 2, 3}
P_one == {1}

M_one == {<<3, 2>>}
M_two == {<<3, 2>>, <<-7, 1>>}
M_zero == {<<3, 2>>, <<0, 1>>}            \* zero is a value too
M_pos == {<<3, 2>>, <<7, 1>>}
M_exp == {<<3, 2>>, <<-2, 1>>}
K_two == {<<-2, 1>>, <<5, 3>>}
K_one == {<<5, 3>>}
K_zero == {<<5, 3>>, <<0, 1>>}
M_pos0 == {<<3, 2>>, <<7, 1>>, <<0, 1>>}
Plan_reg2 == <<{"defunit", "unitless", "derived"}, {"defunit", "unitless", "derived", "roundtrip"}>>

N_all == CatNames
\* covers every dimension, the generators 2,3,5 (min, h), prefixes both ways, derived units
N_mid == {"m", "cm", "km", "nm", "kg", "g", "s", "ms", "min", "h", "A", "mA", "K", "mol", "mmol", "umol",
          "molar", "millimolar", "micromolar", "litre", "dm3", "J", "kilojoule", "bar", "Pa", "eV", "per100eV", "V", "C"}
N_small == {"m", "cm", "km", "kg", "g", "s", "min", "h", "mol", "mmol", "molar", "K", "mA"}
N_q7 == {"m", "km", "s", "h", "mol", "mmol", "g"}
N_tiny == {"m", "km", "s", "h", "mol", "mmol"}
N_dimless == {"m", "km", "s", "min", "K"}
N_base == {"m", "kg", "s", "A", "K", "mol"}
N_basepref == {"km", "g", "min", "mA", "K", "mmol"}

Regs108 == { [length |-> l, mass |-> m, time |-> t, current |-> c, temperature |-> "K", amount |-> a] :
             l \in {"m", "cm", "dm"}, m \in {"kg", "g"}, t \in {"s", "min", "ms"}, c \in {"A", "mA"},
             a \in {"mol", "mmol", "umol"} }
RegSI == [length |-> "m", mass |-> "kg", time |-> "s", current |-> "A", temperature |-> "K", amount |-> "mol"]
RegOdd == [length |-> "cm", mass |-> "g", time |-> "min", current |-> "mA", temperature |-> "K", amount |-> "mmol"]
Regs12 == { [length |-> l, mass |-> m, time |-> t, current |-> "mA", temperature |-> "K", amount |-> a] :
            l \in {"m", "cm", "dm"}, m \in {"g"}, t \in {"s", "min"}, a \in {"mol", "umol"} }
Regs2 == {RegSI, RegOdd}
\* registries whose amount unit is one of chempy's own prefixed units
RegsOwn == { [length |-> "dm", mass |-> "g", time |-> "s", current |-> "A", temperature |-> "K", amount |-> a] :
             a \in {"micromole", "nanomole"} }
\* registries whose entries are scaled quantities (number * unit), wholly or in part
Fac(l, m, t, c, th, n) == [length |-> l, mass |-> m, time |-> t, current |-> c, temperature |-> th, amount |-> n]
Q1 == ZeroScale
RegsScaled == {
    [length |-> "m", mass |-> "kg", time |-> "s", current |-> "A", temperature |-> "K", amount |-> "mol",
     factors |-> Fac(S(-1, 0, -1, 0, 0), S(-3, 0, -3, 0, 0), S(2, 1, 1, 0, 0), Q1, Q1, S(-6, 0, -6, 0, 0))],
    [length |-> "cm", mass |-> "g", time |-> "min", current |-> "mA", temperature |-> "K", amount |-> "mmol",
     factors |-> Fac(S(1, 0, 1, 0, 0), Q1, S(-2, -1, -1, 0, 0), S(3, 0, 3, 0, 0), Q1, S(-3, 0, -3, 0, 0))],
    [length |-> "dm", mass |-> "kg", time |-> "ms", current |-> "A", temperature |-> "K", amount |-> "umol",
     factors |-> Fac(Q1, Q1, S(-3, 0, 0, 0, 0), Q1, S(1, 0, 0, 0, 0), S(0, 1, 0, 0, 0))] }
ASSUME \A r \in Regs108 \cup Regs12 \cup RegsOwn \cup RegsScaled : IsReg(r)
Regs12s == Regs12 \cup RegsScaled
Regs108s == Regs108 \cup RegsScaled
Regs2s == Regs2 \cup RegsScaled

Kinds_all == AllKinds
Keys_all == AllKeys
H_all == AllHelpers

Plan_conv1 == <<{"convert", "incompatible"}>>
Plan_hist3 == <<{"convert", "via", "scale", "incompatible"}, {"convert", "scale", "container", "via"},
                {"back", "container", "convert", "incompatible"}>>
Plan_hist3q == <<{"convert", "via", "scale"}, {"scale", "container", "via"}, {"back", "container", "incompatible"}>>
Plan_hist3t == <<{"convert", "via", "scale"}, {"scale", "convert", "via"}, {"back", "container", "incompatible"}>>
Plan_hist2 == <<{"convert", "via", "scale"}, {"back", "container", "incompatible"}>>
Plan_reg == <<{"dimensionality", "defunit", "unitless", "unitof", "mixnum"}>>
Plan_derived == <<{"derived", "roundtrip"}>>
Plan_help3 == <<{"convert"}, {"scale"}, {"helper"}>>
Plan_help2 == <<{"convert", "scale"}, {"helper", "unitof"}>>
Plan_plain == <<{"plain", "incompatible"}>>
Plan_bexp == <<{"bexp", "strip", "mixnum"}>>
Plan_inv2 == <<{"convert", "via", "scale", "incompatible", "dimensionality"},
               {"convert", "back", "scale", "container", "unitless", "defunit", "derived", "roundtrip", "helper", "unitof", "strip"}>>
Plan_inv == <<{"convert", "via", "scale", "incompatible", "container", "dimensionality"},
              {"convert", "via", "scale", "back", "unitless", "defunit"},
              {"convert", "back", "scale", "helper", "bexp", "derived", "roundtrip"}>>

\* the catalog, the derived-unit keys and the registries for the seeded generator of the binding layer
EmitCatalog == (stage = "build") => PrintT(<<"CASE", ToJson([in |-> [x |-> 0], cls |-> "catalog",
                 exp |-> [cat |-> Cat, keys |-> SetToSeq(AllKeys), regs |-> SetToSeq(Regs108 \cup RegsOwn \cup RegsScaled)]])>>)
=============================================================================
