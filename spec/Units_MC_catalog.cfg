INIT Init
NEXT Next
CONSTANTS
  FactorNames = {}
  Powers <- P_one
  MaxFactors = 0
  Mags <- M_one
  TargetNames = {}
  TargetPowers <- P_one
  MaxTFactors = 0
  ScaleKs <- K_one
  Kinds = {}
  PerturbNames = {}
  RegPool = {}
  Keys = {}
  HelperNames = {}
  Plan <- Plan_conv1
INVARIANT EmitCatalog
CHECK_DEADLOCK FALSE
