INIT Init
NEXT Next
CONSTANTS
  FactorNames = {"m"}
  Powers <- P_one
  MaxFactors = 1
  Mags <- M_one
  TargetNames <- N_tiny
  TargetPowers <- P_pm2
  MaxTFactors = 1
  ScaleKs <- K_one
  Kinds = {"list"}
  PerturbNames <- N_base
  RegPool <- Regs12s
  Keys <- Keys_all
  HelperNames = {"linspace"}
  Plan <- Plan_derived
INVARIANT Reversible
INVARIANT BackIsOriginal
INVARIANT Composes
INVARIANT Canonical
INVARIANT TypeOK
INVARIANT Emit
CHECK_DEADLOCK FALSE
