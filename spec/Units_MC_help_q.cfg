INIT Init
NEXT Next
CONSTANTS
  FactorNames <- N_tiny
  Powers <- P_pm1
  MaxFactors = 1
  Mags <- M_pos0
  TargetNames <- N_tiny
  TargetPowers <- P_pm1
  MaxTFactors = 1
  ScaleKs <- K_one
  Kinds = {"list"}
  PerturbNames <- N_base
  RegPool <- Regs2s
  Keys = {"energy"}
  HelperNames <- H_all
  Plan <- Plan_help2
INVARIANT Reversible
INVARIANT BackIsOriginal
INVARIANT Composes
INVARIANT Canonical
INVARIANT TypeOK
INVARIANT Emit
CHECK_DEADLOCK FALSE
