INIT Init
NEXT Next
CONSTANTS
  FactorNames <- N_small
  Powers <- P_pm1
  MaxFactors = 1
  Mags <- M_pos
  TargetNames <- N_small
  TargetPowers <- P_pm1
  MaxTFactors = 2
  ScaleKs <- K_one
  Kinds = {"list"}
  PerturbNames <- N_base
  RegPool <- Regs2s
  Keys = {"energy"}
  HelperNames <- H_all
  Plan <- Plan_help3
INVARIANT Reversible
INVARIANT BackIsOriginal
INVARIANT Composes
INVARIANT Canonical
INVARIANT TypeOK
INVARIANT Emit
CHECK_DEADLOCK FALSE
