INIT Init
NEXT Next
CONSTANTS
  FactorNames <- N_tiny
  Powers <- P_pm1
  MaxFactors = 1
  Mags <- M_one
  TargetNames <- N_small
  TargetPowers <- P_pm1
  MaxTFactors = 1
  ScaleKs <- K_zero
  Kinds = {"list", "dict", "objarray", "array", "array2d", "empty_list", "empty_dict"}
  PerturbNames <- N_base
  RegPool <- Regs2s
  Keys = {"energy"}
  HelperNames = {"linspace"}
  Plan <- Plan_hist3q
INVARIANT Reversible
INVARIANT BackIsOriginal
INVARIANT Composes
INVARIANT Canonical
INVARIANT TypeOK
INVARIANT Emit
CHECK_DEADLOCK FALSE
