INIT Init
NEXT Next
CONSTANTS
  FactorNames <- N_q7
  Powers <- P_pm2
  MaxFactors = 1
  Mags <- M_one
  TargetNames <- N_small
  TargetPowers <- P_pm2
  MaxTFactors = 1
  ScaleKs <- K_one
  Kinds <- Kinds_all
  PerturbNames <- N_base
  RegPool <- Regs2s
  Keys = {"energy"}
  HelperNames = {"linspace"}
  Plan <- Plan_hist3t
INVARIANT Reversible
INVARIANT BackIsOriginal
INVARIANT Composes
INVARIANT Canonical
INVARIANT TypeOK
INVARIANT Emit
CHECK_DEADLOCK FALSE
