INIT Init
NEXT Next
CONSTANTS
  FactorNames <- N_tiny
  Powers <- P_pm2
  MaxFactors = 2
  Mags <- M_two
  TargetNames <- N_tiny
  TargetPowers <- P_pm2
  MaxTFactors = 2
  ScaleKs <- K_two
  Kinds = {"list", "array"}
  PerturbNames <- N_base
  RegPool <- Regs2s
  Keys = {"energy"}
  HelperNames = {"linspace"}
  Plan <- Plan_inv2
VIEW View
INVARIANT Reversible
INVARIANT BackIsOriginal
INVARIANT Composes
INVARIANT Linear
INVARIANT ConvertIffCompatible
INVARIANT Canonical
INVARIANT RegistryConsistent
INVARIANT TypeOK
INVARIANT QtyWellFormed
CHECK_DEADLOCK FALSE
