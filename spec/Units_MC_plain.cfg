INIT Init
NEXT Next
CONSTANTS
  FactorNames = {}
  Powers <- P_pm2
  MaxFactors = 0
  Mags <- M_zero
  TargetNames <- N_tiny
  TargetPowers <- P_pm2
  MaxTFactors = 1
  ScaleKs <- K_one
  Kinds = {"list"}
  PerturbNames <- N_base
  RegPool <- Regs2s
  Keys = {"energy"}
  HelperNames = {"linspace"}
  Plan <- Plan_plain
INVARIANT Reversible
INVARIANT BackIsOriginal
INVARIANT Composes
INVARIANT Canonical
INVARIANT TypeOK
INVARIANT Emit
CHECK_DEADLOCK FALSE
