INIT Init
NEXT Next
CONSTANTS
  FactorNames = {"m", "molar", "J"}
  Powers <- P_pm1
  MaxFactors = 1
  Mags <- M_one
  TargetNames <- N_tiny
  TargetPowers <- P_pm2
  MaxTFactors = 1
  ScaleKs <- K_one
  Kinds = {"list"}
  PerturbNames <- N_base
  RegPool <- Regs2s
  Keys = {"energy", "concentration"}
  HelperNames = {"linspace"}
  Plan <- Plan_reg2
INVARIANT Reversible
INVARIANT BackIsOriginal
INVARIANT Composes
INVARIANT Canonical
INVARIANT TypeOK
INVARIANT Emit
CHECK_DEADLOCK FALSE
