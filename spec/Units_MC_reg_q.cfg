INIT Init
NEXT Next
CONSTANTS
  FactorNames <- N_mid
  Powers <- P_pm2
  MaxFactors = 1
  Mags <- M_zero
  TargetNames <- N_tiny
  TargetPowers <- P_pm2
  MaxTFactors = 1
  ScaleKs <- K_one
  Kinds = {"list"}
  PerturbNames <- N_base
  RegPool <- Regs12s
  Keys = {"energy"}
  HelperNames = {"linspace"}
  Plan <- Plan_reg
INVARIANT Reversible
INVARIANT BackIsOriginal
INVARIANT Composes
INVARIANT Canonical
INVARIANT TypeOK
INVARIANT Emit
CHECK_DEADLOCK FALSE
