INIT Init
NEXT Next
CONSTANTS
  FactorNames <- N_q7
  Powers <- P_pm1
  MaxFactors = 2
  Mags <- M_one
  TargetNames <- N_tiny
  TargetPowers <- P_pm2
  MaxTFactors = 1
  ScaleKs <- K_one
  Kinds = {"list"}
  PerturbNames <- N_base
  RegPool <- Regs108s
  Keys = {"energy"}
  HelperNames = {"linspace"}
  Plan <- Plan_reg
INVARIANT Reversible
INVARIANT BackIsOriginal
INVARIANT Composes
INVARIANT Canonical
INVARIANT TypeOK
INVARIANT Emit
CHECK_DEADLOCK FALSE
