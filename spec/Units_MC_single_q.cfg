INIT Init
NEXT Next
CONSTANTS
  FactorNames <- N_all
  Powers <- P_pm2
  MaxFactors = 1
  Mags <- M_zero
  TargetNames <- N_small
  TargetPowers <- P_pm2
  MaxTFactors = 2
  ScaleKs <- K_one
  Kinds = {"list"}
  PerturbNames <- N_base
  RegPool <- Regs2s
  Keys = {"energy"}
  HelperNames = {"linspace"}
  Plan <- Plan_conv1
INVARIANT Reversible
INVARIANT BackIsOriginal
INVARIANT Composes
INVARIANT Canonical
INVARIANT TypeOK
INVARIANT Emit
CHECK_DEADLOCK FALSE
