#!/usr/bin/env python3
"""Turn decimal strings into BigDec.tla constructor text (DDec(sign, intpart, <<groups of 4>>)).

Used once to typeset the coefficient tables of spec/PhysProps.tla (the decimal strings below are
typed from the coefficient tables as cited in the chempy docstrings: Myhre et al. 1998, eq. (2) /
table; Tanaka et al. 2001).  Run:  python3 tools/gen_bigdec.py
"""
from decimal import Decimal


def ddec(s):
    d = Decimal(s)
    sign = -1 if d < 0 else 1
    d = abs(d)
    txt = format(d, "f")
    ip, _, fr = txt.partition(".")
    fr = fr.rstrip("0")
    while len(fr) % 4:
        fr += "0"
    groups = [str(int(fr[i:i + 4])) for i in range(0, len(fr), 4)]
    if d == 0:
        return "DZero"
    return "DDec(%d, %d, <<%s>>)" % (sign, int(ip), ", ".join(groups))


MYHRE = [
    ["999.8426", "0.03345402", "-0.005691304", "0", "0"],
    ["547.2659", "-5.300445", "0.01187671", "0.0005990008", "0"],
    ["5262.95", "37.20445", "0.1201909", "-0.004148594", "1.197973e-5"],
    ["-62139.58", "-287.767", "-0.4064638", "0.01119488", "3.607768e-5"],
    ["409029.3", "1270.854", "0.326971", "-0.01377435", "-2.633585e-5"],
    ["-1596989", "-3062.836", "0.1366499", "0.006373031", "0"],
    ["3857411", "4083.714", "-0.1927785", "0", "0"],
    ["-5808064", "-2844.401", "0", "0", "0"],
    ["5301976", "809.1053", "0", "0", "0"],
    ["-2682616", "0", "0", "0", "0"],
    ["576428.8", "0", "0", "0", "0"],
]

if __name__ == "__main__":
    print("Myhre ==")
    rows = []
    for row in MYHRE:
        rows.append("       <<" + ", ".join(ddec(x) for x in row) + ">>")
    print("    <<\n" + ",\n".join(rows) + " >>")
    for name, v in [("a0", "-3.983035"), ("a1", "301.797"), ("a2", "522528.9"), ("a3", "69.34881"),
                    ("a4", "999.974950")]:
        print("Tanaka_%s == %s" % (name, ddec(v)))
