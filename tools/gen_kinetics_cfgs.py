"""Regenerates the Kinetics_MC_*.cfg / OdeBuild_MC_*.cfg slice files (C03 / C04).  One row per slice."""
import os
SPEC = os.path.join(os.path.dirname(os.path.dirname(os.path.abspath(__file__))), "spec")
KIN_INV = ["PolyAgreesWithFold", "PermutationInvariant", "InactiveNotInExponent", "UntouchedGetNothing", "FeedExact",
           "CurrentConstantRules", "StoichDecomposes", "NetCountsInactive", "PointSeparates", "PolysNormal", "TypeOK", "Emit"]
ODE_INV = ["FreeVsInlinedAgree", "ConfigOnlyChangesFreeSymbols", "SubstitutionBeatsConstants", "SymbolOrderIrrelevant",
           "ParamsAreTheFreeSymbols", "UntouchedOnlyFeed", "RatePolyMatches", "OTypeOK"]
ODE_T_EXTRA = ["PolyAgreesWithFold", "FeedExact", "CurrentConstantRules", "StoichDecomposes"]
DEF = dict(orders="OrdOne", full="TRUE", points="Pts1", feeds="NoFeeds", phases="Ph1", rek="NoReK", maxhist=0,
           names="NmId", pforms="PfPlain", cont="CtList", sforms="SfList", ov="Ov3")

KIN = {
    "sys3_q": dict(cat="Cat6", maxr=3),
    "sys2_q": dict(cat="Cat16", maxr=2, orders="OrdTwo", feeds="FdRev", pforms="PfAll", sforms="SfAll"),
    "orders_q": dict(cat="Cat8", maxr=2, orders="OrdSome", full="FALSE", names="NmIon", cont="CtAll", sforms="SfAll"),
    "hist_q": dict(cat="Cat8", maxr=2, points="Pts13", rek="ReK1", maxhist=2, pforms="PfMa"),
    "zero_q": dict(cat="Cat8", maxr=2, points="PtsZ1", feeds="FdZero", kvals="KZ", phases="Ph2", pforms="PfAll", ov="OvZ"),
    "zero_t": dict(cat="Cat16", maxr=2, points="PtsZero", feeds="FdZero", kvals="KZ", pforms="PfAll", cont="CtAll"),
    "half_q": dict(cat="CatHalf", maxr=2, points="PtsSq", feeds="Fd1", pforms="PfMa"),
    "half_t": dict(cat="CatHalfW", maxr=2, points="PtsSq", feeds="Fd1", pforms="PfAll", cont="CtAll"),
    "sys3_t": dict(cat="Cat16", maxr=3),
    "sys2_t": dict(cat="Cat64", maxr=2, pforms="PfAll"),
    "cstr_t": dict(cat="Cat16", maxr=2, points="Pts2", feeds="Fd2", cont="CtAll"),
    "orders_t": dict(cat="Cat16", maxr=2, orders="OrdAll", names="NmIon", cont="CtAll", sforms="SfAll"),
    "frac_t": dict(cat="Cat16", maxr=2, orders="OrdTwo", full="FALSE", points="PtsFrac", feeds="Fd2", pforms="PfMa"),
    "phase_t": dict(cat="Cat32", maxr=2, phases="Ph3", names="NmIon"),
    "feedmap_t": dict(cat="Cat32", maxr=2, orders="OrdTwo", feeds="FdKinds", pforms="PfAll", sforms="SfAll"),
    "hist_t": dict(cat="Cat8", maxr=2, feeds="FdRev", rek="ReK", maxhist=2, pforms="PfMa"),
}
ODE = {
    "main_q": dict(cat="Cat3", maxr=2, full="FALSE", configs="CfgMainQ", rek="ReK1", maxhist=1, names="NmIon"),
    "feeds_q": dict(cat="Cat2", maxr=2, full="FALSE", feeds="FdKinds", configs="CfgFeedsQ"),
    "full_q": dict(cat="Cat8", maxr=1, orders="OrdTwo", feeds="Fd1", configs="CfgFewBoth"),
    "zero_q": dict(cat="Cat2", maxr=2, full="FALSE", points="PtsZ1", feeds="FdZero2", kvals="KZ", configs="CfgZeroQ"),
    "zero_t": dict(cat="Cat3", maxr=2, full="FALSE", points="PtsZ1", feeds="FdZero", kvals="KZ", configs="CfgZero"),
    "extra_t": dict(cat="Cat8", maxr=2, full="FALSE", feeds="Fd1", configs="CfgExtraT"),
    "half_q": dict(cat="CatHalf", maxr=2, full="FALSE", points="PtsSq", feeds="Fd1", configs="CfgThree"),
    "half_t": dict(cat="CatHalfW", maxr=2, full="FALSE", points="PtsSq", feeds="Fd1", configs="CfgFewBoth"),
    "cfg_t": dict(cat="Cat8", maxr=2, full="FALSE", configs="CfgAll"),
    "comp_t": dict(cat="Cat4", maxr=2, orders="OrdTwo", full="FALSE", feeds="Fd1", configs="CfgAllComp"),
    "sys_t": dict(cat="Cat32", maxr=2, full="FALSE", configs="CfgFew", names="NmIon"),
    "sys3_t": dict(cat="Cat8", maxr=3, full="FALSE", configs="CfgThree"),
    "full_t": dict(cat="Cat16", maxr=2, feeds="Fd1", configs="CfgFewBoth"),
    "orders_t": dict(cat="Cat8", maxr=2, orders="OrdAll", full="FALSE", configs="CfgFew"),
    "const_t": dict(cat="Cat4", maxr=2, full="FALSE", feeds="Fd1", configs="CfgConst"),
    "constw_t": dict(cat="Cat8", maxr=2, full="FALSE", feeds="Fd1", configs="CfgConstFew"),
    "sym_t": dict(cat="Cat8", maxr=2, full="FALSE", feeds="Fd1", configs="CfgSym"),
    "uk2_t": dict(cat="Cat8", maxr=2, full="FALSE", configs="CfgUk2"),
    "feedmap_t": dict(cat="Cat8", maxr=2, full="FALSE", feeds="FdKinds", configs="CfgFewCstr"),
    "hist_t": dict(cat="Cat8", maxr=2, full="FALSE", configs="CfgFew", rek="ReK", maxhist=1),
    "forms_t": dict(cat="Cat8", maxr=2, full="FALSE", feeds="Fd1", configs="CfgForms", names="NmIon"),
}


def body(d, ode):
    d = dict(DEF, **d)
    lines = ["INIT %s" % ("OInit" if ode else "Init"), "NEXT %s" % ("ONext" if ode else "Next"), "CONSTANTS",
             '  Species = {"A", "B", "C", "D"}', "  Catalog <- %s" % d["cat"], "  MaxR = %d" % d["maxr"],
             "  KVals <- %s" % d.get("kvals", "K3"),
             "  Orders <- %s" % d["orders"], "  FullOrder = %s" % d["full"], "  Points <- %s" % d["points"],
             "  Feeds <- %s" % d["feeds"], "  PhaseMaps <- %s" % d["phases"], "  ReKVals <- %s" % d["rek"],
             "  MaxHist = %d" % d["maxhist"], "  NameMap <- %s" % d["names"], "  PForms <- %s" % d["pforms"],
             "  Containers <- %s" % d["cont"], "  OvKVals <- %s" % d["ov"], "  SForms <- %s" % d["sforms"],
             "  KeySortSeq <- %s" % ("SortIon" if d["names"] == "NmIon" else "SortId")]
    if ode:
        lines += ["  Configs <- %s" % d["configs"], "  Comp <- CompDef"]
    return lines


for name, d in KIN.items():
    with open(os.path.join(SPEC, "Kinetics_MC_%s.cfg" % name), "w") as fh:
        fh.write("\n".join(body(d, False) + ["INVARIANT " + i for i in KIN_INV] + ["CHECK_DEADLOCK FALSE"]) + "\n")
for name, d in ODE.items():
    inv = ODE_INV + (ODE_T_EXTRA if name.endswith("_t") else []) + ["EmitBuild"]
    with open(os.path.join(SPEC, "OdeBuild_MC_%s.cfg" % name), "w") as fh:
        fh.write("\n".join(body(d, True) + ["INVARIANT " + i for i in inv] + ["CHECK_DEADLOCK FALSE"]) + "\n")
