#!/venv/bin/python
"""Regenerate MANIFEST.json from harness/registry.py (single source of truth)."""
import json
import os
import sys
HERE = os.path.dirname(os.path.dirname(os.path.abspath(__file__)))
sys.path.insert(0, os.path.join(HERE, "harness"))
import registry  # noqa

checks, na = [], []
for pid in sorted(registry.PROPS):
    m = registry.PROPS[pid]
    if m.get("claimed") and os.path.exists(os.path.join(HERE, "harness", "props", pid.lower() + ".py")):
        checks.append({
            "property_id": pid,
            "quick_cmd": "./check %s --tier quick" % pid,
            "thorough_cmd": "./check %s --tier thorough" % pid,
            "evidence_file": "/verif/evidence/%s.json" % pid,
            "replay_cmd_template": "./check %s --replay {path}" % pid,
            "engine": "tlc",
            "level_claimed": {"category": m["level"], "text": m["text"], "design_ref": m["design_ref"]},
            "level_note": m["note"],
            "technique": m["technique"],
        })
    else:
        na.append({"property_id": pid, "reason": m.get("na_reason", "check not built yet in this round; see DESIGN.md section 4")})
man = {
    "version": 1,
    "setup_cmd": "./setup.sh",
    "hooks": {
        "guard": "CHEMPY_VERIF_TRACE",
        "enable": "no source hooks: observation points are public calls; the external recorder (harness/pytest_recorder.py, loaded with -p) is switched on by CHEMPY_VERIF_TRACE=<file>; checks import chempy from /repo's working tree (PYTHONPATH=/repo)",
        "baseline_off_cmd": "cd /repo && /venv/bin/python -m pytest -ra -q -p no:cacheprovider --timeout=900 --continue-on-collection-errors",
        "source_commits": registry.HOOK_COMMITS,
        "add_only": True,
    },
    "engines": [
        {"name": "tlc", "path": "/opt/veriftools/tla/tla2tools.jar",
         "serves_properties": [c["property_id"] for c in checks],
         "kind_free_text": "TLC 1.8 explicit-state model checker over /verif/spec/*.tla: exhaustive sliced configs with invariants, case generation (spec->code replay), batch trace validation (code->spec)"}],
    "checks": checks,
    "not_applicable": na,
    "notes": registry.NOTES,
}
with open(os.path.join(HERE, "MANIFEST.json"), "w") as fh:
    json.dump(man, fh, indent=1)
print("claimed:", [c["property_id"] for c in checks])
print("not_applicable:", [c["property_id"] for c in na])
try:
    import jsonschema
    jsonschema.validate(man, json.load(open("/root/.vp/MANIFEST.schema.json")))
    print("schema ok")
except ImportError:
    print("jsonschema not available; not validated")
