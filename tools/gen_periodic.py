#!/venv/bin/python
"""One-time generator of spec/Periodic.tla.

The reference table was frozen on 2026-09-27 from the pinned tree after a by-hand review of all 118
rows against the IUPAC/CIAAW abridged standard atomic weights (no independent machine-readable copy
exists in this sandbox).  From then on spec/Periodic.tla *is* the oracle: do not regenerate it from
a modified tree.  The output is committed; checks never run this script.
"""
import sys
from decimal import Decimal
sys.path.insert(0, "/repo")
from chempy.util.periodic import _elements  # noqa

rows = []
for sym, name, w, _ in _elements:
    br = str(w).startswith("[")
    d = Decimal(str(w)[1:-1] if br else repr(w))
    ip = int(d)
    fr = int((d - ip) * 10**9)
    assert Decimal(ip) + Decimal(fr) / 10**9 == d
    rows.append((sym, name, ip, fr, br))

def seq(items, per=8):
    out = []
    for i in range(0, len(items), per):
        out.append("    " + ", ".join(items[i:i+per]))
    return "<<\n" + ",\n".join(out) + " >>"

with open("/verif/spec/Periodic.tla", "w") as fh:
    fh.write("""---------------------------- MODULE Periodic ----------------------------
(* The periodic table used as the oracle for C01 (symbols), C13 and C14 (standard atomic      *)
(* weights).  Index = atomic number.  Weights are exact decimals <<integer part, 9-digit      *)
(* fraction>>; bracketed (mass number of the longest-lived isotope) entries are integers.     *)
(* GENERATED ONCE by tools/gen_periodic.py and frozen; see DESIGN.md (C14, trusted base).     *)
EXTENDS Naturals, Sequences, FiniteSets

Sym == %s

Name == %s

\\* lower-case names (atomic_number lookup is case-insensitive)
LowerName == %s

WInt == %s

WFrac9 == %s

Bracketed == { %s }

NElem == 118
Z == 1..NElem
Symbols == { Sym[z] : z \\in Z }
ZOf(s) == CHOOSE z \\in Z : Sym[z] = s
ZOfName(n) == CHOOSE z \\in Z : LowerName[z] = n

\\* electron mass in u used for the charge correction: 5.489e-4 (as 9-digit fraction)
ElectronFrac9 == 548900

\\* period structure
PeriodLengths == <<2, 8, 8, 18, 18, 32, 32>>
AccPeriod == <<2, 10, 18, 36, 54, 86, 118>>
PeriodOf(z) == CHOOSE p \\in 1..7 : z <= AccPeriod[p] /\\ (p = 1 \\/ z > AccPeriod[p-1])
\\* main groups as the code tabulates them (1, 2, 13..18)
GroupMembers(g) ==
    IF g = 1 THEN {1} \\cup { AccPeriod[p] + 1 : p \\in 1..6 }
    ELSE IF g = 2 THEN { AccPeriod[p] + 2 : p \\in 1..6 }
    ELSE IF g = 18 THEN { AccPeriod[p] : p \\in 1..7 }
    ELSE { AccPeriod[p] - 18 + g : p \\in 2..7 }

\\* weight comparison on the exact decimals
WLess(a, b) == WInt[a] < WInt[b] \\/ (WInt[a] = WInt[b] /\\ WFrac9[a] < WFrac9[b])
SymbolsUnique == Cardinality(Symbols) = NElem
NamesUnique == Cardinality({ LowerName[z] : z \\in Z }) = NElem
BracketedIntegral == \\A z \\in Bracketed : WFrac9[z] = 0
LengthsOK == Len(Sym) = NElem /\\ Len(Name) = NElem /\\ Len(WInt) = NElem /\\ Len(WFrac9) = NElem
WeightsMonotoneExceptInversions ==
    \\A z \\in 1..(NElem-1) : WLess(z, z+1) \\/ WInt[z] = WInt[z+1] \\/ <<z, z+1>> \\in
        { <<18,19>>, <<27,28>>, <<52,53>>, <<90,91>>, <<92,93>>, <<94,95>> }
GroupsConsistent ==
    /\\ GroupMembers(18) = {2, 10, 18, 36, 54, 86, 118}
    /\\ GroupMembers(1) = {1, 3, 11, 19, 37, 55, 87}
    /\\ GroupMembers(17) = {9, 17, 35, 53, 85, 117}
    /\\ \\A z \\in Z : PeriodOf(z) \\in 1..7
=============================================================================
""" % (
        seq(['"%s"' % r[0] for r in rows], 12),
        seq(['"%s"' % r[1] for r in rows], 5),
        seq(['"%s"' % r[1].lower() for r in rows], 5),
        seq([str(r[2]) for r in rows], 16),
        seq([str(r[3]) for r in rows], 8),
        ", ".join(str(i + 1) for i, r in enumerate(rows) if r[4]),
    ))
