#!/venv/bin/python
"""Regenerates spec/UnitKinetics_MC_*.cfg (C10).  Run from /verif/spec:  /venv/bin/python ../tools/gen_unitkinetics_cfgs.py"""
UNITS = ["FactorNames = {}", "Powers = {}", "MaxFactors = 0", "Mags = {}", "TargetNames = {}", "TargetPowers = {}",
         "MaxTFactors = 0", "ScaleKs = {}", "Kinds = {}", "PerturbNames = {}", "RegPool = {}", "Keys = {}",
         "HelperNames = {}", "Plan <- NoPlan"]
BASE = dict(Systems="<- Sys_q", KTimes="<- KT_two", KConcs="<- KC_two", Wrongs="<- W_none", CPlans="<- Plans_two",
            TUnits='= {"s"}', KRegs="<- KRegs6", Outs="<- Outs_one", Modes='= {"inline", "named"}',
            EqTemplates="= {}", EqWrongs="= {}", CallKinds="<- Calls_none", MaxCalls="= 0", Laws='= {"mass"}', TSources='= {"param"}')
INV = ["RegistryIndependent", "WrittenIsPhysical", "RefusedOnlyIfWrongDimension", "SolverHasNoMemory",
       "SolverRefusesExactlyWrongDimensions", "KTypeOK", "KEmit"]
def cfg(name, **kw):
    d = dict(BASE); d.update(kw)
    lines = ["INIT KInit", "NEXT KNext", "CONSTANTS"] + ["  " + x for x in UNITS] + ["  %s %s" % kv for kv in d.items()]
    lines += ["INVARIANT %s" % i for i in INV] + ["CHECK_DEADLOCK FALSE"]
    open("UnitKinetics_MC_%s.cfg" % name, "w").write("\n".join(lines) + "\n")
cfg("accept", Systems="= {}", KTimes="<- KT_all", KConcs="<- KC_all", Wrongs="<- W_all", Modes='= {"accept"}',
    EqTemplates="<- Eq_all", EqWrongs="<- EW_all")
cfg("refuse", Systems="<- Sys_q", KTimes="<- KT_two", KConcs="<- KC_all", Wrongs='= {"conc-", "time2"}')
cfg("rates_q", Modes='= {"inline", "named", "mixed"}', CPlans="<- Plans_q")
cfg("laws_q", Systems='= {"bi", "chain", "ter"}', KTimes='= {"min"}', KConcs='= {"mM"}', CPlans='= {2}', Laws='= {"arrhenius", "eyring", "alt", "hs"}',
    Modes='= {"inline", "named", "subs"}', KRegs="<- KRegs6", TSources='= {"param", "subs", "ramp"}', Outs="<- Outs_q")
cfg("rad_q", Systems='= {"zero", "feed", "zero2"}', KTimes='= {"min", "h"}', KConcs='= {"mM", "M"}', CPlans='= {0, 1, 2}', Laws='= {"rad"}',
    Modes='= {"inline", "named", "subs", "mixed"}', KRegs="<- KRegs6")
cfg("laws_t", Systems="<- Sys_laws", KTimes="<- KT_two", KConcs="<- KC_two", CPlans='= {1}', Laws='= {"arrhenius", "eyring", "alt", "hs"}',
    Modes='= {"inline", "named", "subs", "mixed"}', KRegs="<- KRegs6", TSources='= {"param", "subs", "ramp"}', Outs="<- Outs_one")
cfg("subs_t", Modes='= {"subs", "mixed"}')
cfg("rates_t", Systems="<- Sys_all", KTimes="<- KT_two", KConcs="<- KC_all", CPlans="<- Plans_t", TUnits='= {"s"}',
    KRegs="<- KRegs6", Outs="<- Outs_one")
cfg("regs_t", Systems='= {"bi", "chain"}', KTimes='= {"h"}', KConcs='= {"uM"}', CPlans='= {1}', KRegs="<- KRegs108", Outs="<- Outs_three",
    TUnits='= {"ms", "h"}')
cfg("solver_q", Systems='= {"uni", "chain"}', KTimes='= {"s"}', KConcs='= {"M"}', KRegs="<- KRegs2", Modes='= {"solver"}',
    CallKinds="<- Calls_all", MaxCalls="= 2")
cfg("solver_t", Systems='= {"uni", "chain"}', KTimes='= {"s"}', KConcs='= {"M"}', KRegs="<- KRegs3", Modes='= {"solver"}',
    CallKinds="<- Calls_t", MaxCalls="= 3")
