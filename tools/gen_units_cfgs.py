#!/venv/bin/python
"""Regenerates spec/Units_MC_*.cfg (C09).  Run from /verif/spec:  /venv/bin/python ../tools/gen_units_cfgs.py"""
import sys
BASE = dict(FactorNames="<- N_tiny", Powers="<- P_pm2", MaxFactors="= 1", Mags="<- M_one", TargetNames="<- N_tiny",
            TargetPowers="<- P_pm2", MaxTFactors="= 1", ScaleKs="<- K_one", Kinds='= {"list"}', PerturbNames="<- N_base",
            RegPool="<- Regs2s", Keys='= {"energy"}', HelperNames='= {"linspace"}', Plan="<- Plan_conv1")
INV = ["Reversible", "BackIsOriginal", "Composes", "Linear", "ConvertIffCompatible", "Canonical",
       "RegistryConsistent", "TypeOK", "QtyWellFormed"]
def cfg(name, view=False, inv=INV, emit=True, **kw):
    d = dict(BASE); d.update(kw)
    lines = ["INIT Init", "NEXT Next", "CONSTANTS"] + ["  %s %s" % kv for kv in d.items()]
    if view: lines.append("VIEW View")
    lines += ["INVARIANT %s" % i for i in inv]
    if emit: lines.append("INVARIANT Emit")
    lines.append("CHECK_DEADLOCK FALSE")
    open("Units_MC_%s.cfg" % name, "w").write("\n".join(lines) + "\n")
LIGHT = ["Reversible", "BackIsOriginal", "Composes", "Canonical", "TypeOK"]
# invariant checking (history hidden by VIEW)
cfg("inv_q", view=True, emit=False, FactorNames='= {"m", "km", "s", "h"}', MaxFactors="= 2", MaxTFactors="= 2",
    Mags="<- M_one", ScaleKs="<- K_two", Kinds='= {"list", "array"}', Plan="<- Plan_inv2")
cfg("inv_t", view=True, emit=False,
    MaxFactors="= 2", MaxTFactors="= 2", Mags="<- M_two", ScaleKs="<- K_two", Kinds='= {"list", "array"}', Plan="<- Plan_inv2")
# generation
cfg("single_q", inv=LIGHT, FactorNames="<- N_all", TargetNames="<- N_small", MaxTFactors="= 2", Plan="<- Plan_conv1", Mags="<- M_zero")
cfg("single_t", inv=LIGHT, FactorNames="<- N_all", TargetNames="<- N_all", MaxTFactors="= 2", Mags="<- M_two", Plan="<- Plan_conv1")
cfg("pair_q", inv=LIGHT, FactorNames="<- N_q7", TargetNames="<- N_q7", MaxFactors="= 2", MaxTFactors="= 2", Plan="<- Plan_conv1")
cfg("pair_t", inv=LIGHT, FactorNames="<- N_mid", TargetNames="<- N_small", MaxFactors="= 2", MaxTFactors="= 2", Plan="<- Plan_conv1")
cfg("triple_t", inv=LIGHT, FactorNames="<- N_q7", TargetNames="<- N_q7", MaxFactors="= 3", MaxTFactors="= 3", Plan="<- Plan_conv1")
cfg("hist_q", inv=LIGHT, MaxFactors="= 1", MaxTFactors="= 1", Mags="<- M_one", ScaleKs="<- K_zero", Kinds='= {"list", "dict", "objarray", "array", "array2d", "empty_list", "empty_dict"}', Plan="<- Plan_hist3q", Powers="<- P_pm1",
    TargetPowers="<- P_pm1", TargetNames="<- N_small")
cfg("hist_t", inv=LIGHT, FactorNames="<- N_q7", TargetNames="<- N_small", MaxFactors="= 1", MaxTFactors="= 1", Mags="<- M_one", ScaleKs="<- K_one",
    Kinds="<- Kinds_all", Plan="<- Plan_hist3t")
cfg("reg_q", inv=LIGHT, FactorNames="<- N_mid", MaxFactors="= 1", Mags="<- M_zero", RegPool="<- Regs12s", Plan="<- Plan_reg")
cfg("reg_t", inv=LIGHT, FactorNames="<- N_q7", MaxFactors="= 2", RegPool="<- Regs108s", Plan="<- Plan_reg", Powers="<- P_pm1")
cfg("derived_q", inv=LIGHT, FactorNames='= {"m"}', Powers="<- P_one", RegPool="<- Regs12s", Keys="<- Keys_all", Plan="<- Plan_derived")
cfg("derived_t", inv=LIGHT, FactorNames='= {"m"}', Powers="<- P_one", RegPool="<- Regs108s", Keys="<- Keys_all", Plan="<- Plan_derived")
cfg("own_t", inv=LIGHT, FactorNames='= {"m"}', Powers="<- P_one", RegPool="<- RegsOwn", Keys="<- Keys_all", Plan="<- Plan_derived")
cfg("reg2_q", inv=LIGHT, FactorNames='= {"m", "molar", "J"}', MaxFactors="= 1", Powers="<- P_pm1", RegPool="<- Regs2s",
    Keys='= {"energy", "concentration"}', Plan="<- Plan_reg2")
cfg("help_q", inv=LIGHT, FactorNames="<- N_tiny", MaxFactors="= 1", Powers="<- P_pm1", TargetPowers="<- P_pm1", Mags="<- M_pos0", HelperNames="<- H_all", Plan="<- Plan_help2")
cfg("help_t", inv=LIGHT, FactorNames="<- N_small", TargetNames="<- N_small", MaxFactors="= 1", MaxTFactors="= 2", Powers="<- P_pm1", TargetPowers="<- P_pm1",
    Mags="<- M_pos", HelperNames="<- H_all", Plan="<- Plan_help3")
cfg("plain", inv=LIGHT, FactorNames="= {}", MaxFactors="= 0", Mags="<- M_zero", ScaleKs="<- K_one", Plan="<- Plan_plain")
cfg("bexp", inv=LIGHT, FactorNames="<- N_dimless", MaxFactors="= 2", Powers="<- P_pm1", Mags="<- M_exp", Plan="<- Plan_bexp")
