#!/usr/bin/env python3
"""usage: tools/prep_seed_round.py <round> [C01 C02 ...]
Prepares one seeding round: a scratch git worktree /tmp/seed<round>-cNN of /repo per property, an output directory
/tmp/seed<round>-cNN-out with PROPERTY.txt (property text + summaries of the changes earlier rounds produced, which
must not be repeated) and /tmp/seed-common/INSTRUCTIONS<round>.md (docs/seeding/INSTRUCTIONS.md with the paths
rewritten).  Seeding agents get nothing else."""
import glob, json, os, subprocess, sys
rnd = sys.argv[1]
props = {json.loads(l)["id"]: json.loads(l) for l in open("/verif/properties.jsonl")}
pids = sys.argv[2:] or sorted(props)
os.makedirs("/tmp/seed-common", exist_ok=True)
src = open("/verif/docs/seeding/INSTRUCTIONS.md").read().replace("/tmp/seed-<id>", "/tmp/seed%s-<id>" % rnd)
open("/tmp/seed-common/INSTRUCTIONS%s.md" % rnd, "w").write(src)
for pid in pids:
    p = props[pid]
    wt, out = "/tmp/seed%s-%s" % (rnd, pid.lower()), "/tmp/seed%s-%s-out" % (rnd, pid.lower())
    if not os.path.isdir(wt):
        subprocess.check_call(["git", "-C", "/repo", "worktree", "add", "-q", "--detach", wt, "HEAD"])
    os.makedirs(out, exist_ok=True)
    prev = ["- " + json.load(open(d + "/meta.json"))["summary"][:400]
            for d in sorted(glob.glob("/verif/seeded/%s-*" % pid))]
    open(out + "/PROPERTY.txt", "w").write(
        "%s: %s\n\n%s\n\nQuantifier: %s\n\nWhy tests can't settle it: %s\n\nAnchors: %s\n\n"
        "ALREADY TRIED by earlier rounds (do NOT repeat these or close variants; find different mechanisms/clauses "
        "of the property):\n%s\n" % (pid, p["title"], p["statement"], p["quantifier"]["text"], p["why_tests_cant"],
                                      json.dumps(p["anchors"], indent=1), "\n".join(prev)))
print("prepared round", rnd, "for", " ".join(pids))
