#!/usr/bin/env python3
"""usage: tools/regress_seeded.py [-j N] [PID ...]
Re-runs every stored seeded change (seeded/<PID>-<i>/) against the CURRENT checks: applies the patch in a scratch copy
of /repo (never /repo itself), confirms the demonstration both ways and runs `./check <PID> --tier quick` with VERIF_REPO
pointing at the copy.  A change recorded as reported by a neighbouring property's check is run against that check.
Prints one line per change and a summary; exit 1 if any stored change is no longer reported (or makes a check fail
with a machinery error)."""
import glob, json, os, re, subprocess, sys
from concurrent.futures import ThreadPoolExecutor

args = sys.argv[1:]
jobs = 4
if args[:1] == ["-j"]:
    jobs = int(args[1]); args = args[2:]
dirs = sorted(glob.glob("/verif/seeded/C*-*"), key=lambda d: (d.split("/")[-1].split("-")[0], int(d.split("-")[-1])))
if args:
    dirs = [d for d in dirs if d.split("/")[-1].split("-")[0] in args or d.split("/")[-1] in args]


def sh(cmd, **kw):
    return subprocess.run(cmd, shell=True, stdout=subprocess.PIPE, stderr=subprocess.STDOUT, **kw)


def one(arg):
    slot, d = arg
    name = d.split("/")[-1]
    pid = name.split("-")[0]
    meta = json.load(open(d + "/meta.json"))
    det = meta.get("confirmed", {}).get("detected_by", "")
    m = re.search(r"reported by \./check (C\d\d)", det) if not det.startswith("caught") else None
    chk = m.group(1) if m else pid
    S = "/tmp/regr%d-%d/repo" % (os.getpid(), slot)
    if not os.path.isdir(S + "/.git") or sh("git -C /repo rev-parse HEAD").stdout != sh("git -C %s rev-parse HEAD" % S).stdout:
        sh("rm -rf %s && mkdir -p %s && cp -r /repo %s" % (os.path.dirname(S), os.path.dirname(S), S))
    sh("git -C %s checkout -q -- . && git -C %s clean -fdq chempy" % (S, S))
    env = dict(os.environ, PYTHONPATH=S)
    a = subprocess.run(["timeout", "300", "/venv/bin/python", d + "/demo.py"], env=env, stdout=subprocess.DEVNULL,
                       stderr=subprocess.DEVNULL).returncode
    if sh("git -C %s apply %s/patch.diff" % (S, d)).returncode != 0:
        return name, chk, "patch-does-not-apply", ""
    b = subprocess.run(["timeout", "300", "/venv/bin/python", d + "/demo.py"], env=env, stdout=subprocess.DEVNULL,
                       stderr=subprocess.DEVNULL).returncode
    r = subprocess.run(["/verif/check", chk, "--tier", "quick"], env=dict(os.environ, VERIF_REPO=S),
                       stdout=subprocess.PIPE, stderr=subprocess.STDOUT)
    out = r.stdout.decode("utf-8", "replace")
    sh("git -C %s checkout -q -- . && git -C %s clean -fdq chempy" % (S, S))
    res = [l for l in out.splitlines() if l.startswith("RESULT")]
    status = {0: "SILENT", 1: "reported", 2: "MACHINERY"}.get(r.returncode, "exit%d" % r.returncode)
    if a != 0 or b == 0:
        status += " (demo clean=%d patched=%d)" % (a, b)
    return name, chk, status, (res[-1][:150] if res else out[-200:])


slots = {}
todo = [(i % jobs, d) for i, d in enumerate(dirs)]
# one scratch copy per slot: run each slot's items sequentially
def run_slot(s):
    return [one(x) for x in todo if x[0] == s]
bad = 0
with ThreadPoolExecutor(jobs) as ex:
    for rows in ex.map(run_slot, range(jobs)):
        for name, chk, status, info in rows:
            print("%-8s %-4s %s%s" % (name, chk, status, "" if status == "reported" else "   " + info), flush=True)
            if not status.startswith("reported"):
                bad += 1
for s in range(jobs):
    sh("rm -rf /tmp/regr%d-%d" % (os.getpid(), s))
print("stored changes: %d, not reported: %d" % (len(dirs), bad))
sys.exit(1 if bad else 0)
