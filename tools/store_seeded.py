#!/usr/bin/env python3
"""usage: tools/store_seeded.py <pid> <i> "<detected_by>" [src_dir]  -> /verif/seeded/<PID>-<i>/"""
import json, os, shutil, sys
pid, i, det = sys.argv[1].lower(), sys.argv[2], sys.argv[3]
rnd = int(os.environ.get("ROUND", "1"))          # ROUND=2: second seeding round, stored as <PID>-<i+3>
src = sys.argv[4] if len(sys.argv) > 4 else "/tmp/seed%s-%s-out/%s" % ("" if rnd == 1 else str(rnd), pid, i)
dst = "/verif/seeded/%s-%d" % (pid.upper(), int(i) + 3 * (rnd - 1))
os.makedirs(dst, exist_ok=True)
for f in ("patch.diff", "demo.py"):
    shutil.copy(os.path.join(src, f), dst)
m = json.load(open(os.path.join(src, "meta.json")))
m["round"] = rnd
m["confirmed"] = {
    "demo": "exit 0 on clean /repo, non-zero with the patch (re-run by tools/try_seeded.sh in a scratch copy)",
    "suite": "per-test outcomes identical to the clean run (6 pre-existing failures) as recorded by the seeding agent",
    "check_run": "tools/try_seeded.sh %s <dir>  (git apply in scratch copy /tmp/main/repo; VERIF_REPO=/tmp/main/repo ./check %s --tier quick) -> VIOLATION" % (pid.upper(), pid.upper()),
    "detected_by": det,
}
json.dump(m, open(os.path.join(dst, "meta.json"), "w"), indent=1)
print("stored", dst)
