#!/bin/sh
# usage: tools/try_benign.sh <dir with patch.diff> C01 C13 ...   -> every listed check must stay silent (exit 0)
D=$1; shift
S=${SCRATCH:-/tmp/main}/repo
[ -d $S/.git ] || { mkdir -p $(dirname $S) && cp -r /repo $S; }
cd $S && git checkout -q -- . && git clean -fdq chempy >/dev/null 2>&1
if [ "$(git -C /repo rev-parse HEAD)" != "$(git rev-parse HEAD)" ]; then rm -rf $S && cp -r /repo $S && cd $S; fi
git apply $D/patch.diff || { echo "PATCH DOES NOT APPLY"; exit 3; }
for P in "$@"; do
  (cd /verif && VERIF_REPO=$S ./check $P --tier quick 2>&1 | grep -E "^VIOLATION|^RESULT|^MACHINERY|^  key=" | cut -c1-200 | head -4)
done
git checkout -q -- . && git clean -fdq chempy >/dev/null 2>&1
