#!/bin/sh
# usage: tools/try_round2.sh c07   -> tries /tmp/seed${R:-4}-c07-out/{1,2,3} against ./check C07 --tier quick
p=$1; P=$(echo $p | tr a-z A-Z)
for i in 1 2 3; do echo "== $P r-$i"; LINES_SHOWN=${LINES_SHOWN:-3} /verif/tools/try_seeded.sh $P /tmp/seed${R:-4}-$p-out/$i 2>&1 | grep -v "^KNOWN" | cut -c1-220 | head -4; done
