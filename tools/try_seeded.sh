#!/bin/sh
# usage: tools/try_seeded.sh <PID> <dir with patch.diff demo.py> [tier]
# Applies the patch to a scratch copy of /repo (never /repo itself), verifies the demonstration both
# ways, runs the check against the scratch copy, and restores the copy.
PID=$1; D=$2; TIER=${3:-quick}
S=${SCRATCH:-/tmp/main}/repo
[ -d $S/.git ] || { mkdir -p $(dirname $S) && cp -r /repo $S; }
cd $S && git checkout -q -- . && git clean -fdq chempy >/dev/null 2>&1
if [ "$(git -C /repo rev-parse HEAD)" != "$(git rev-parse HEAD)" ]; then rm -rf $S && cp -r /repo $S && cd $S; fi
PYTHONPATH=$S timeout 120 /venv/bin/python $D/demo.py >/dev/null 2>&1; a=$?
git apply $D/patch.diff || { echo "PATCH DOES NOT APPLY"; exit 3; }
PYTHONPATH=$S timeout 120 /venv/bin/python $D/demo.py >/dev/null 2>&1; b=$?
echo "demo: clean=$a patched=$b"
(cd /verif && VERIF_REPO=$S ./check $PID --tier $TIER 2>&1 | grep -E "^VIOLATION|^RESULT|^MACHINERY|^KNOWN|^  key=" | head -${LINES_SHOWN:-6})
git checkout -q -- . && git clean -fdq chempy >/dev/null 2>&1
